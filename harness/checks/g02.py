"""G02 -- growth of the central runtime specification (spec/Scheduler.tla) beyond the listed properties.

Environment actions added to the model of Controller / ComponentState, each bound to the real code:

  1. ExternalKill   Controller.killController() from another thread at any time during a stage: everything alive is
                    finished / fake-finished as SHUTDOWN, nothing is launched afterwards (NoLaunchAfterStop,
                    KillReachesAll, KillShutsDown), the run still reaches quiescence, the verdict is the code's.
  2. restart        Controller.initialise(stage k > 0): the components of the earlier stages are FINISHED and done, have no
                    engine, are never touched (SkippedUntouched, StageFromStart); their consumers see finished producers.
  3. SleepCall / WakeUp   Controller.sleep() / wake_up(): a finishedCheck that arrives meanwhile records the component as
                    done and postpones the reaction to a failure, submissions are postponed (NoLaunchWhileAsleep,
                    NoStageInWhileAsleep, PostponedRecorded, FailureHandled).
  4. memoization    finalize_submit_components -> can_memoize -> _memoize_populate_component_workdir ->
                    _fake_finish_with_state(FINISHED): the database's answer is an environment choice (Init picks the set
                    `memo`); MemoNeverRuns, MemoEndsFinished, MemoOfferedNeverRuns, and the documented rule with a
                    memoized component counted as finished.

  5. DoWhile        at run time: the slots of iteration i > 0 of a looped component join the graph when finishedCheck of the
                    condition component resolves the condition to True (_handle_condition_component_finished ->
                    _instantiate_next_dowhile_iteration); anything but True / False re-tags the condition component FAILED
                    and kills everything; the placeholders keep the stage active (get_placeholder_state) until the loop
                    ended; a consumer of a looped component waits for the loop to end (LoopConsumerWaits, NonLiveUntouched,
                    LiveIterations, IterationJustified).  The condition's value per iteration is an environment choice.

While growing the model a genuine defect of the code was found (key race:finish-called-during-postMortemCheck):
postMortemCheck takes no lock and never looks at finishCalled again, so a finish() that lands after the POSTMORTEM
notification passed the filter (killController, or _stopComponents after a sibling failed) is followed by (A) a task
launched under a component that is already final - nobody ever stops it - when Engine.restart was already running (restart
hook), or (B) the final state being overwritten.  The specification names the deviation (action LatePostMortem, constant
FixRestartRace = FALSE = the current code); the properties are checked on the repaired design (TRUE); the harness has
pre-emption points inside the real postMortemCheck / Engine.restart at which the environment may kill the controller, those
runs are matched against the current-code model and the properties evaluated on the logged real states.
Plain reproduction with real threads: findings/G02_kill_during_restart_hook_repro.py.
A second one (key loop:iteration-instantiated-after-stop): finishedCheck of the condition component instantiates the next
DoWhile iteration also after kill_all_components ran (stop_executing): its components are never launched nor finished, the
stage never ends (deadlock on the model with FixLoopAfterStop = FALSE, KillReachesAll false, stuck real runs; plain
reproduction findings/G02_dowhile_iteration_after_kill_repro.py).

The check: (1) TLC on the model with the environment actions switched on (invariants + action properties + deadlock check
+ Termination under fairness + per-action coverage); (1b) TLC prints every terminal state of the restart x memoization
cases, the driver judges them with C02's rule (memoized / skipped = finished); (2) the REAL Controller runs sampled cases
(shape, outcomes, starting stage, database answers) under seeded schedules in which the environment kills / puts to sleep /
wakes up the controller at random turns; every run must reach quiescence, be a behaviour of the specification (trace
validation by TLC: SchedulerTrace.tla) and - when not killed - end as the rule says.
"""
import collections
import itertools
import json
import os
import random

from ..common import Check, MachineryError
from .. import sched_check as SC
from .. import sched_shapes as SS
from .c01 import describe, key_for_trace
from .c02 import judge, case_features

PID = "G02"
FIXOBS = True
INVS = ["TypeOK", "DoneImpliesFinal", "RunOnlyStaged", "RestartBound", "ExactlyOneFinal", "NonLiveUntouched", "LiveIterations",
        "IterationJustified",
        "KillReachesAll", "SkippedUntouched", "StageFromStart", "PostponedRecorded", "FailureHandled",
        "MemoNeverRuns", "MemoEndsFinished", "MemoOfferedNeverRuns"]
PROPS = ["LaunchSafe", "FinalAbsorbing", "DoneGrows", "NoRunAfterFinal", "LoopConsumerWaits",
         "NoLaunchAfterStop", "KillShutsDown", "NoLaunchWhileAsleep", "NoStageInWhileAsleep"]
BASE_ACTIONS = ["Pass", "TaskExit", "KilledExit", "SetFinal", "NotifyProducers", "PostMortemCheck", "FinishedCheckO", "StageEnd",
                "Cleanup", "Idle"]
TRACE_PROPS = ("TLaunchSafe",) + SC.TRACE_PROPS

# what the environment may do in schedule k of a case (rotating): calls into the controller from "another thread"
ENVS = [None,
        dict(kill_p=0.15),
        dict(sleep_p=0.3, wake_p=0.25, max_sleeps=2),
        dict(kill_p=0.04, sleep_p=0.3, wake_p=0.2, max_sleeps=2),
        dict(sleep_p=0.5, wake_p=0.08, max_sleeps=1),
        dict(kill_p=0.5),
        dict(sleep_p=0.6, wake_p=0.15, max_sleeps=2, hold_asleep=True),
        # the kill arrives inside postMortemCheck (which holds no lock): before its body / inside Engine.restart
        dict(pm_kill_p=0.3, pm_where="pm-entry"),
        dict(pm_kill_p=0.7, pm_where="in-restart")]
RACE_KEY = "race:finish-called-during-postMortemCheck"
LOOP_KEY = "loop:iteration-instantiated-after-stop"
# what the condition of the DoWhile resolves to after iteration 0, 1, 2
CONDS = [["False", "False", "False"], ["garbage", "False", "False"], ["True", "False", "False"], ["True", "garbage", "False"],
         ["True", "True", "False"], ["True", "True", "garbage"]]
RACE_PROPS = ("FinalAbsorbing", "NoRunAfterFinal", "NoLaunchAfterStop")


def models(thorough):
    """(tag, shapes, environment switches, actions that must be covered)."""
    shapes = SS.G02_THOROUGH if thorough else SS.G02_QUICK
    # quick: the kill / sleep models leave out the shapes with four nodes in one stage (they are in the memo model, the real
    # runs and the thorough tier)
    fewer = shapes if thorough else [x for x in shapes if x not in ("agg", "aggfail", "restart")]
    small = ["chain2", "stages2", "obs2", "xfail"] if thorough else ["chain2", "obs"]
    return [m for m in [
        ("kill", fewer, dict(kill=True, starts=(0, 1, 2), all_orders=False), ["ExternalKill"]),
        ("sleep", fewer, dict(max_sleeps=2 if thorough else 1, starts=(0, 1, 2), all_orders=False), ["SleepCall", "WakeUpO"]),
        # (quick: the memoization model is checked in the run that prints its terminal states, see 1b)
        ("memo", shapes, dict(memo=True, starts=(0, 1, 2), all_orders=True), []) if thorough else None,
        ("all", small, dict(kill=True, starts=(0, 1), max_sleeps=2 if thorough else 1, memo=True, all_orders=False),
         ["ExternalKill", "SleepCall", "WakeUpO"]),
        # DoWhile at run time (FixLoopAfterStop = TRUE: the design a repair restores; the deviation has its own run below)
        ("dwkill", SS.G02_DW if thorough else ["dw2"], dict(kill=True, starts=(0, 1), all_orders=False), ["ExternalKill"]),
        ("dwsleep", SS.G02_DW if thorough else ["dw2"], dict(max_sleeps=1, starts=(0, 1), all_orders=False), ["SleepCall", "WakeUpO"]),
    ] + ([("dwall", ["dw2"], dict(kill=True, max_sleeps=1, all_orders=False), ["ExternalKill", "SleepCall", "WakeUpO"])] if thorough else [])
            if m]


RESTARTING = (3, 5, 6, 8)        # outcome sequences whose first execution is followed by a restart


def gen_cases(shapes, per_start, rnd):
    """(sid, shape, oa, extra) with extra = dict(start, memo, nopop); the outcomes of components that never execute
    (skipped stages, memoized) are the representative the model uses (smallest index)."""
    out = []
    for sid, sn in enumerate(shapes, 1):
        nodes = SS.expand(SS.BASE_SHAPES[sn])
        nstages = max(n["stage"] for n in nodes) + 1
        combos = list(itertools.product(*[n["outs"] for n in nodes]))
        for start in range(nstages):
            live = [n["node"] for n in nodes if n["stage"] >= start]
            memos = [()]
            for _ in range(per_start - 1):
                memos.append(tuple(x for x in live if rnd.random() < 0.4))
            failing = [c for c in combos if any(SS.OUTSEQS[o - 1][-1] == "UnknownIssue" and n["stage"] >= start for o, n in zip(c, nodes))]
            restarting = [c for c in combos if any(o in RESTARTING and n["stage"] >= start for o, n in zip(c, nodes))]
            for j, memo in enumerate(memos):
                # every other case has a component (of a stage that runs) whose task exits unrecoverably, when the shape has one
                # (and every fourth one whose task is restarted)
                oa = list(rnd.choice(failing if failing and j % 2 == 0 else restarting if restarting and j % 4 == 1 else combos))
                for i, n in enumerate(nodes):
                    if n["stage"] < start or n["node"] in memo:
                        oa[i] = min(n["outs"])
                nopop = [x for x in live if x not in memo and rnd.random() < 0.25] if memo or rnd.random() < 0.3 else []
                out.append((sid, sn, oa, dict(start=start, memo=list(memo), nopop=nopop)))
    return out


def case_key(h):
    nodes = [n["node"] for n in h.nodes]
    memo_refs = h.memo
    return (h.sid, tuple(h.oa), h.start, tuple(h.ref(n) in memo_refs for n in h.nodes))


def feature_of(h):
    f = []
    if h.start:
        f.append("restart")
    if h.memo or h.nopop:
        f.append("memo")
    kinds = {w for w, _t in h.externals}
    if "kill" in kinds:
        f.append("kill")
    if "sleep" in kinds:
        f.append("sleep")
    return "+".join(f) or "plain"


def real_runs_worker(tier, seed, scratch):
    """Executed in a forked child while the parent model-checks: every real run of this check, as plain records."""
    import time
    t0 = time.time()
    thorough = tier == "thorough"
    shapes = SS.G02_THOROUGH if thorough else SS.G02_QUICK
    rnd = random.Random(seed + 2)
    cases = gen_cases(shapes, 6 if thorough else 4, rnd)
    nsched = 12 if thorough else 6
    runs = SC.run_real(cases, nsched, scratch, seed + 11, env_for=lambda ci, k: ENVS[(k + ci) % len(ENVS)], catch_crash=True, light=True)
    rnd = random.Random(seed + 5)
    cases = dw_cases(rnd, 4 if thorough else 3)
    dw = SC.run_real(cases, 9 if thorough else 6, scratch, seed + 17, env_for=lambda ci, k: DW_ENVS[(k + ci) % len(DW_ENVS)],
                     catch_crash=True, light=True)
    return runs, dw, round(time.time() - t0, 1)


def run(tier):
    chk = Check(PID, tier)
    thorough = tier == "thorough"
    shapes = SS.G02_THOROUGH if thorough else SS.G02_QUICK
    # the real runs execute in a child process (deterministic: same seeds, one process) while TLC checks the models here
    import multiprocessing
    pool = multiprocessing.get_context("fork").Pool(1)
    real = pool.apply_async(real_runs_worker, (tier, chk.seed, chk.scratch))
    # ---- 1. the design model with the environment actions switched on
    for tag, shp, env, must in models(thorough):
        r = SC.model_check("g02%s%s" % (tag, tier), shp, PROPS, INVS, fixobs=FIXOBS, deadlock=True, **env)
        if r["violated"]:
            raise MachineryError("Scheduler.tla (%s: %s) violates %s on the model:\n%s" % (tag, env, r["violated"], r["out"][-3000:]))
        if not r["ok"]:
            raise MachineryError("TLC failed on the %s model:\n%s" % (tag, r["out"][-3000:]))
        for a in BASE_ACTIONS + must:
            if a == "NotifyProducers" and tag.startswith("dw"):
                continue              # the looped shapes have no repeating observer
            if not r["coverage"].get(a):
                raise MachineryError("model %s: action %s never taken (vacuous model run): %s" % (tag, a, r["coverage"]))
        chk.add_tlc(r)
        chk.cov.setdefault("models", []).append(dict(model=tag, shapes=shp, env={k: (list(v) if isinstance(v, tuple) else v) for k, v in env.items()},
                                                   distinct=r["distinct"], generated=r["generated"], depth=r["depth"], wall_s=r["wall_s"]))
    live_shapes = ["chain2", "stages2", "obs2", "xfail"] if thorough else ["chain2", "xfail"]
    r = SC.model_check("g02live" + tier, live_shapes, ["Termination"], [], fixobs=FIXOBS, coverage=False, liveness=True,
                       kill=True, starts=(0, 1), max_sleeps=1, memo=thorough, all_orders=False)
    if r["violated"] or not r["ok"]:
        raise MachineryError("Scheduler.tla: Termination fails under fairness with the environment actions on:\n%s" % r["out"][-3000:])
    chk.add_tlc(r)
    # ---- 1a'. the named deviation of the current code (LatePostMortem): TLC must find the property violations it causes
    for prop in (("FinalAbsorbing", "NoRunAfterFinal") if thorough else ("NoRunAfterFinal",)):
        r = SC.model_check("g02race%s" % tier, ["chain2", "restart", "sibs"], [prop], [], fixobs=FIXOBS, coverage=False,
                           kill=True, all_orders=False, fix_restart_race=False)
        if r["violated"] != prop:
            raise MachineryError("the model of the current code (FixRestartRace = FALSE) was expected to violate %s, TLC says %s:\n%s" % (
                prop, r["violated"], r["out"][-2000:]))
        chk.add_tlc(r)
        chk.cov.setdefault("current_code_model_violates", []).append(prop)
    r = SC.model_check("g02loop%s" % tier, ["dw2"], [], ["KillReachesAll"], fixobs=FIXOBS, coverage=False, kill=True, all_orders=False,
                       fix_loop_after_stop=False, deadlock=True)
    if r["violated"] != "KillReachesAll":
        raise MachineryError("the model of the current code (FixLoopAfterStop = FALSE) was expected to violate KillReachesAll, TLC says %s:\n%s" % (
            r["violated"], r["out"][-2000:]))
    chk.add_tlc(r)
    chk.cov["current_code_model_violates"].append("KillReachesAll (DoWhile iteration instantiated after the kill)")
    # ---- 1b. terminal states of the restart x memoization cases, all orderings: the documented rule
    r = SC.emit_terminals("g02" + tier, shapes, fixobs=FIXOBS, memo=True, starts=(0, 1, 2), all_orders=False,
                          invariants=INVS, props=PROPS)       # the memoization x restart model itself is checked here as well
    if r.get("violated") or not r["ok"]:
        raise MachineryError("Scheduler.tla (memoization x restart) fails on the model:\n%s" % r["out"][-3000:])
    chk.add_tlc(r)
    terms = collections.defaultdict(set)
    meta = {}
    for t in r["cases"]:
        k = (t["sid"], tuple(t["oa"]), t["start"], tuple(t["memo"]))
        terms[k].add((tuple(t["cs"]), tuple(t["verdict"]), tuple(t["memoized"])))
        meta[k] = (t["rule"], t["unrecoverable"])
    if len(terms) < 50:
        raise MachineryError("TLC emitted terminal states for only %d cases" % len(terms))
    left_to_c02 = 0
    for k in sorted(terms):
        sn = shapes[k[0] - 1]
        rule, unrec = meta[k]
        if case_features(sn, rule):
            left_to_c02 += 1          # the observer-of-a-subject-that-shuts-down class is C02's recorded finding
            continue
        for cs, verdict, memoized in sorted(terms[k]):
            for complaint in judge(sn, rule, unrec, cs, verdict):
                chk.violation("model-outcome:%s:start%d:%s" % (sn, k[2], "memo" if any(k[3]) else "nomemo"),
                              "model (all orderings): %s outcomes=%s start=%d memo=%s: %s" % (sn, list(k[1]), k[2], list(k[3]), complaint),
                              dict(kind="model", shape=sn, oa=list(k[1]), start=k[2], memo=list(k[3]), terminal=[list(cs), list(verdict)]))
        chk.evaluated(("model", sn, k[1], k[2], k[3]))
    chk.cov["model_cases"] = len(terms)
    chk.cov["model_cases_left_to_C02_known_class"] = left_to_c02
    chk.cov["model_terminal_states"] = sum(len(v) for v in terms.values())
    # ---- 2. real runs with the environment actions
    import time
    t_models = time.time() - chk.t0
    try:
        runs, dw, child_s = real.get()
    finally:
        pool.terminate()
    chk.cov["wall_split_s"] = dict(model_checking=round(t_models, 1), real_runs_in_child_process=child_s)
    for h in runs + dw:
        if h.threads:
            raise MachineryError("harness leaked threads: %s" % h.threads)
    # runs in which the environment pre-empted postMortemCheck are matched against the model of the CURRENT code (with the
    # named deviation LatePostMortem), the others against the repaired design; the properties are evaluated on both
    resmap = {}
    for grp, fixed in (([h for h in runs if not h.crash and not h.preempted], True), ([h for h in runs if not h.crash and h.preempted], False)):
        if not grp:
            continue
        results, tl = SC.validate_traces("g02%s%s" % (tier, "" if fixed else "pm"), shapes, grp, fixobs=FIXOBS, props=TRACE_PROPS,
                                         fix_restart_race=fixed)
        for t in tl:
            chk.add_tlc(t)
        resmap.update({id(h): res for h, res in zip(grp, results)})
    cnt = collections.Counter()
    race = []
    for h in runs:
        feat = feature_of(h)
        chk.evaluated((h.shape_name, tuple(h.oa), h.start, tuple(sorted(h.memo)), tuple(sorted(h.nopop)), json.dumps(h.sched)))
        cnt["runs:" + feat] += 1
        rp = dict(kind="real", shape=h.shape_name, oa=h.oa, sched=list(h.sched), extra=h.extra)
        what = "%s outcomes=%s start=%d memo=%s nopop=%s schedule=%s external=%s" % (
            h.shape_name, h.oa, h.start, sorted(h.memo), sorted(h.nopop), h.sched, h.externals)
        if h.crash:
            chk.violation("crash:%s:%s" % (feat, h.crash.split(":")[0]), "%s: the stage loop raised %s\n%s" % (what, h.crash, h.crash_tb[-1500:]), rp)
            continue
        if h.stuck or not h.quiescent:
            chk.violation("stuck:%s:%s" % (feat, h.shape_name), "%s never reaches quiescence: %s; last events %s" % (
                what, h.stuck, json.dumps(describe(h, len(h.trace) - 2))[:1200]), rp)
            continue
        res = resmap[id(h)]
        if h.preempted:
            cnt["race:runs-with-kill-inside-postMortemCheck"] += 1
        if res is not None and res["kind"] == "property" and h.preempted and race_step(h, res):
            flavour = "A task launched under a final component" if res["prop"] in ("TNoRunAfterFinal", "TNoLaunchAfterStop") else \
                "B final state overwritten"
            cnt["race:" + flavour.split()[0]] += 1
            e = h.trace[res["step"]]
            # reported after everything else (a recorded class must not push other keys out of the printed lines)
            race.append((RACE_KEY, "%s: killController() arrived %s of %s; afterwards (%s) %s is false on the real states: %s" % (
                what, "inside Engine.restart" if h.preempted[0][0] == "in-restart" else "between the finishCalled filter and the body of postMortemCheck",
                e["arg"], flavour, res["prop"], json.dumps(describe(h, res["step"] - 1))[:1200]), rp))
            continue
        if res is not None:
            chk.violation(key_for_trace(h, res), "%s: %s at step %s: %s" % (what, res["kind"], res.get("step"),
                                                                           json.dumps(describe(h, res.get("step")))[:1500]), rp)
            continue
        chk.trace_validated()
        count_witnesses(h, cnt)
        # the rule (memoized / skipped components count as finished), for runs the environment did not kill
        if h.killed:
            continue
        k = case_key(h)
        if k not in meta:
            raise MachineryError("case %s not explored by TLC" % (k,))
        rule, unrec = meta[k]
        if case_features(h.shape_name, rule):
            cnt["real_runs_left_to_C02_known_class"] += 1
            continue
        nodes = [h.ref(n) for n in h.nodes]
        cs = tuple(h.final["comps"][r_]["cs"] for r_ in nodes)
        verdict = tuple(h.final["verdict"])
        cnt["real_runs_judged_by_rule"] += 1
        for complaint in judge(h.shape_name, rule, unrec, cs, verdict):
            chk.violation("outcome:%s:%s" % (feat, h.shape_name), "real run: %s: %s" % (what, complaint), rp)
    # ---- 2b. DoWhile at run time: real runs of the looped shapes
    dw_runs(chk, dw, cnt, race)
    # the shape expansion and the graph the real code builds must have the same edges; a difference makes the real controller
    # schedule differently from the specification, which the trace validation above reports - if it did not, the shapes
    # (not the code) are suspect: machinery error
    drifted = [h for h in runs + dw if getattr(h, "drift", None)]
    chk.cov["runs_with_graph_edge_drift"] = len(drifted)
    if drifted and not chk.violations and not chk.known_hit:
        raise MachineryError("the real workflow graph differs from the shape expansion but no run was rejected: %s %s" % (
            drifted[0].shape_name, drifted[0].drift))
    other = len(chk.violations)
    for key, text, rp in race:
        chk.violation(key, text, rp)
    chk.cov["real"] = dict(sorted(cnt.items()))
    chk.cov["violations_other_than_%s_and_%s" % (RACE_KEY, LOOP_KEY)] = other
    # vacuity guards on the real runs (only meaningful when nothing was reported: a breakage may remove the witnesses)
    if not chk.violations:
        for w in ("kill:something-alive", "kill:while-running", "restart:consumer-of-skipped-launched", "sleep:finishedCheck-postponed",
                  "sleep:postponed-failure-replayed", "sleep:pass-while-asleep", "memo:memoized", "memo:unpopulated-ran",
                  "memo:consumer-of-memoized-launched", "kill:while-asleep", "race:runs-with-kill-inside-postMortemCheck",
                  "dw:two-iterations-instantiated", "dw:garbage-condition-retagged-failed", "dw:loop-consumer-launched",
                  "dw:iteration-instantiated-at-wakeup", "dw:kill-while-loop-active", "dw:kill-before-finishedCheck-of-condition",
                  "dw:stage-kept-active-by-placeholder-only"):
            if not cnt[w]:
                raise MachineryError("no real run witnesses %s: %s" % (w, dict(cnt)))
    h = next((x for x in runs if len(x.externals) >= 2 and not x.crash), runs[0])
    chk.sample(dict(shape=h.shape_name, outcomes=h.oa, start=h.start, memo=sorted(h.memo), schedule=list(h.sched), external=h.externals,
                    events=[[e["ev"], e["arg"]] for e in h.trace][:60], final={k: v["cs"] for k, v in h.final["comps"].items()},
                    verdict=h.final["verdict"]))
    chk.cov["rule"] = ("model case = (shape, exit-reason sequence per component, starting stage, set of memoizable components) with every "
                       "interleaving of the environment actions (kill, sleep, wake-up) by TLC; real case = (shape, outcomes, starting stage, "
                       "database answers, seeded schedule incl. the turns at which the environment kills / sleeps / wakes); every real run "
                       "is one trace validated by TLC against Scheduler.tla; non-trivial = every case (>= 2 components)")
    chk.cov["exhaustive"] = False
    chk.assumptions += ["the task below Engine.restart is replaced by a fake (exits injected), threads and time by harness/world.py; "
                        "killController / sleep / wake_up are called between two atomic steps of the deterministic world (they take "
                        "comp_lock in the code, so they cannot interleave with a scheduler pass or a finishedCheck)",
                        "the memoization database is a fake below the real can_memoize / _memoize_populate_component_workdir",
                        "TLC: exhaustive per model (see coverage.models); schedules of the real code are sampled (seeded)",
                        "postMortemCheck takes no lock in the code: the harness pre-empts it at two points (entry; inside the real "
                        "Engine.restart before the restart hook) with an external kill only - a finish() coming from a sibling's "
                        "finishedCheck at those points is modelled (LatePostMortem) but not injected"]
    return chk.finish()


def dw_cases(rnd, per_conds):
    out = []
    for sid, sn in enumerate(SS.G02_DW, 1):
        nodes = SS.expand(SS.BASE_SHAPES[sn])
        nstages = max(n["stage"] for n in nodes) + 1
        combos = list(itertools.product(*[n["outs"] for n in nodes]))
        allok = [c for c in combos if all(o in (1, 3) for o in c)]
        loop_stage = max(n["stage"] for n in nodes if n.get("loop"))
        for start in range(nstages):
            # a loop in a skipped stage does not run: what its condition would say is irrelevant (one representative)
            for conds in (CONDS if start <= loop_stage else CONDS[:1]):
                for j in range(per_conds):
                    oa = list(rnd.choice(allok if j % 2 == 0 and allok else combos))
                    out.append((sid, sn, oa, dict(start=start, conds=conds)))
    return out


DW_ENVS = [None, dict(kill_p=0.12), dict(sleep_p=0.3, wake_p=0.25, max_sleeps=2), None, dict(kill_p=0.3),
           dict(sleep_p=0.6, wake_p=0.15, max_sleeps=2, hold_asleep=True),
           dict(fc_kill_p=0.4),      # the kill gets comp_lock before the finishedCheck of a component that just finished
           # a long sleep that begins while a condition component runs: woken up when (almost) nothing else can happen
           dict(sleep_p=0.5, wake_p=0.04, max_sleeps=2, sleep_on_cond=True)]


def dw_runs(chk, runs, cnt, late):
    """Real runs of the shapes with a DoWhile: every run must reach quiescence and be a behaviour of the specification (the
    recorded finishedCheck / wake_up may follow the current code or the repaired design, see FcEffectX); the properties are
    evaluated on the logged real states."""
    ok_runs = [h for h in runs if not h.crash]
    results, tl = SC.validate_traces("g02dw" + chk.tier, SS.G02_DW, ok_runs, fixobs=FIXOBS, props=TRACE_PROPS)
    for t in tl:
        chk.add_tlc(t)
    resmap = {id(h): r for h, r in zip(ok_runs, results)}
    for h in runs:
        feat = "dowhile" + ("+" + feature_of(h) if feature_of(h) != "plain" else "")
        chk.evaluated((h.shape_name, tuple(h.oa), h.start, tuple(h.conds), json.dumps(h.sched)))
        cnt["runs:" + feat] += 1
        rp = dict(kind="real", shape=h.shape_name, oa=h.oa, sched=list(h.sched), extra=h.extra)
        what = "%s outcomes=%s start=%d conditions=%s schedule=%s external=%s" % (h.shape_name, h.oa, h.start, h.conds, h.sched, h.externals)
        if h.crash:
            chk.violation("crash:%s:%s" % (feat, h.crash.split(":")[0]), "%s: the stage loop raised %s\n%s" % (what, h.crash, h.crash_tb[-1500:]), rp)
            continue
        res = resmap[id(h)]
        after_stop = instantiated_after_stop(h)
        if after_stop is not None and (h.stuck or not h.quiescent or (res is not None and res.get("prop") == "KillReachesAll")):
            cnt["loop:iteration-instantiated-after-stop"] += 1
            late.append((LOOP_KEY, "%s: finishedCheck of %s instantiated the next iteration after the controller stopped executing; %s: %s" % (
                what, h.trace[after_stop]["arg"],
                "Controller.run() never ends (%s)" % h.stuck if (h.stuck or not h.quiescent) else "KillReachesAll is false on the real states",
                json.dumps(describe(h, after_stop - 1))[:1200]), rp))
            continue
        if h.stuck or not h.quiescent:
            chk.violation("stuck:%s:%s" % (feat, h.shape_name), "%s never reaches quiescence: %s; last events %s" % (
                what, h.stuck, json.dumps(describe(h, len(h.trace) - 2))[:1200]), rp)
            continue
        if res is not None:
            chk.violation(key_for_trace(h, res), "%s: %s at step %s: %s" % (what, res["kind"], res.get("step"),
                                                                           json.dumps(describe(h, res.get("step")))[:1500]), rp)
            continue
        chk.trace_validated()
        count_witnesses(h, cnt)
        dw_witnesses(h, cnt)


def instantiated_after_stop(h):
    """Index of the trace entry in which an iteration joined the graph although stop_executing was already set."""
    prev = None
    for i, e in enumerate(h.trace):
        if prev is not None and prev["stop"] and len(e["st"]["live"]) > len(prev["live"]):
            return i
        prev = e["st"]
    return None


def dw_witnesses(h, cnt):
    prev = None
    loop_refs = {h.ref(n) for n in h.nodes if n.get("loop")}
    consumers = {h.ref(n) for n in h.nodes if not n.get("loop") and any("#" in p for p in n["prods"])}
    for e in h.trace:
        st = e["st"]
        if prev is not None:
            if len(st["live"]) > len(prev["live"]):
                cnt["dw:iterations-instantiated"] += 1
                if st["curiter"] == 2:
                    cnt["dw:two-iterations-instantiated"] += 1
                if e["ev"] == "WakeUp":
                    cnt["dw:iteration-instantiated-at-wakeup"] += 1
            if e["ev"] == "FinishedCheck" and prev["comps"][e["arg"]]["cs"] == "finished" and st["comps"][e["arg"]]["cs"] == "failed":
                cnt["dw:garbage-condition-retagged-failed"] += 1
            if e["ev"] == "ExternalKill" and any(prev["comps"][r]["cs"] in ("running", "postmortem") for r in loop_refs if r in prev["live"]):
                cnt["dw:kill-while-loop-active"] += 1
            if e["ev"] == "ExternalKill" and any(n.get("cond") and prev["comps"][h.ref(n)]["cs"] == "finished" and h.ref(n) not in prev["done"]
                                                 for n in h.nodes):
                cnt["dw:kill-before-finishedCheck-of-condition"] += 1
        for c in e["calls"]:
            if c[0] == "Run" and c[1] in consumers:
                cnt["dw:loop-consumer-launched"] += 1
        if prev is not None and e["ev"] not in ("StageEnd", "Internal") and prev["phase"] == "running" and not prev["phdone"] and \
                all(r in prev["done"] for r in prev["live"] if h.nodes[h.refs.index(r)]["stage"] == prev["stage"]) and \
                any(n.get("loop") and n["stage"] == prev["stage"] for n in h.nodes):
            # every node of the stage was recorded done, yet run() did not end the stage: a placeholder was still running
            cnt["dw:stage-kept-active-by-placeholder-only"] += 1
        prev = st


def race_step(h, res):
    """The property is false on the step of the postMortemCheck the environment pre-empted."""
    st = res.get("step")
    if st is None or st >= len(h.trace):
        return False
    e = h.trace[st]
    return e["ev"] == "PostMortemCheck" and any(e["arg"] == ref and idx < st for _w, ref, idx in h.preempted)


def count_witnesses(h, cnt):
    """What the accepted run exercised (vacuity guards of the real side)."""
    nodes = {h.ref(n): n for n in h.nodes}
    byname = {n["node"]: h.ref(n) for n in h.nodes}
    prev = None
    for e in h.trace:
        st = e["st"]
        calls = e["calls"]
        if e["ev"] == "ExternalKill":
            cnt["kill:events"] += 1
            if any(c[0] in ("Finish", "FakeFinish") for c in calls):
                cnt["kill:something-alive"] += 1
            if prev and any(v["cs"] == "running" for v in prev["comps"].values()):
                cnt["kill:while-running"] += 1
            if prev and prev["sleepReq"]:
                cnt["kill:while-asleep"] += 1
        if e["ev"] == "FinishedCheck" and st["sleepReq"] and e["arg"] in st["postponed"]:
            cnt["sleep:finishedCheck-postponed"] += 1
            if st["comps"][e["arg"]]["cs"] == "failed":
                cnt["sleep:failure-postponed"] += 1
        if e["ev"] == "WakeUp":
            cnt["sleep:wakeups"] += 1
            if any(c[0] in ("Finish", "FakeFinish") for c in calls):
                cnt["sleep:postponed-failure-replayed"] += 1
        if e["ev"] == "Pass" and st["sleepReq"]:
            cnt["sleep:pass-while-asleep"] += 1
            if any(c[0] == "FakeFinish" for c in calls):
                cnt["sleep:shutdown-propagated-while-asleep"] += 1
        for c in calls:
            if c[0] == "Run":
                n = nodes[c[1]]
                if h.start and any(nodes[byname[p]]["stage"] < h.start for p in n["prods"]):
                    cnt["restart:consumer-of-skipped-launched"] += 1
                if any(byname[p] in h.memoized for p in n["prods"]):
                    cnt["memo:consumer-of-memoized-launched"] += 1
                if c[1] in h.nopop and prev is not None and prev["comps"][c[1]]["nrun"] == 0:
                    cnt["memo:unpopulated-ran"] += 1
            if c[0] == "FakeFinish" and c[1][1] == "finished":
                cnt["memo:memoized"] += 1
        prev = st
    if h.start:
        cnt["restart:runs"] += 1


def replay(path):
    from .. import ctl
    d = json.load(open(path))["replay"]
    chk = Check(PID, "quick")
    if d.get("kind") == "model":
        print("model-level finding: re-run ./check G02 to re-derive; case:", d)
        chk.evaluated(("m",)); chk.evaluated(("m2",))
        return chk.finish()
    sched = tuple(d["sched"])
    h = ctl.run_case(d["shape"], d["oa"], chk.scratch, SC.make_policy(sched), catch_crash=True, **(d.get("extra") or {}))
    h.sid = 1
    h.extra = d.get("extra") or {}
    for e in h.trace:
        print(e["ev"], e["arg"], e["calls"], {k: v["cs"] for k, v in e["st"]["comps"].items()},
              "done=%s staged=%s stop=%s sleepReq=%s asleep=%s postponed=%s" % (e["st"]["done"], e["st"]["staged"], e["st"]["stop"],
                                                                               e["st"]["sleepReq"], e["st"]["asleep"], e["st"]["postponed"]))
    print("final:", {k: v["cs"] for k, v in h.final["comps"].items()}, h.final["verdict"], "stuck:", h.stuck, "crash:", h.crash,
          "external:", h.externals)
    if h.crash:
        chk.violation("crash:%s:%s" % (feature_of(h), h.crash.split(":")[0]), "replayed: %s" % h.crash, d)
    else:
        # as in run(): a run in which the environment pre-empted postMortemCheck is matched against the current-code model
        results, tl = SC.validate_traces("g02replay", [d["shape"]], [h], fixobs=FIXOBS, props=TRACE_PROPS, fix_restart_race=not h.preempted)
        res = results[0]
        after_stop = instantiated_after_stop(h)
        if res is not None and res["kind"] == "property" and h.preempted and race_step(h, res):
            chk.violation(RACE_KEY, "replayed: %s false on the real states at step %s" % (res["prop"], res["step"]), d)
        elif after_stop is not None and (h.stuck or not h.quiescent or (res is not None and res.get("prop") == "KillReachesAll")):
            chk.violation(LOOP_KEY, "replayed: iteration instantiated after the controller stopped executing (step %d); stuck: %s" % (
                after_stop, h.stuck), d)
        elif h.stuck or not h.quiescent:
            chk.violation("stuck:%s:%s" % (feature_of(h), h.shape_name), "replayed: %s" % h.stuck, d)
        elif res is not None:
            chk.violation(key_for_trace(h, res), "replayed: %s" % res, d)
        else:
            chk.trace_validated()
    chk.evaluated(("replay",))
    chk.evaluated(("replay2",))
    return chk.finish()
