"""C04 -- Resolved component configuration follows the documented layering order.  Spec: spec/Layering.tla

1. TLC explores, for several families of constants, every subset of the places where a variable / an option of a
   component may be defined (built-in, default platform global/stage, selected platform global/stage, user variable
   files, the component itself, its per-platform override, plus decoy places: another platform, another stage, the
   override for another platform), checks the design invariants (sequential override in the documented order = value of
   the highest-priority defining layer, no decoy in any result, no reference left, decoy definitions never change a
   result) and emits every state with the result the specification demands for both queried platforms.
2. spec -> code: every emitted state is rendered to a FlowIR document + user variable YAML files, loaded with the real
   FlowIRExperimentConfiguration (active platform default and p1) and resolved with the real
   FlowIRConcrete.get_component_configuration / get_component_variables for both platforms; values, Python types,
   loader verdict and error classes are compared with the specification.
3. histories (families history-*): for documents with stage-level blueprints and a sibling component of the same stage, TLC
   enumerates every sequence of 2 (thorough 3) read-only calls -- query(platform, component, inject missing fields or not),
   instance(platform, inject or not), replicate(platform) -- on ONE object; the driver executes them on one FlowIRConcrete,
   requires the stored document to be unchanged after every call and every query to answer the pure layering (ResultV).
4. typed-option catalogue (Layering.tla: TypedOptions): every option that may take its value from a variable and has a
   declared non-string type is given its value through a variable (chain length 1 and 2, native and textual literals).
"""
import copy
import json
import os
import concurrent.futures

import yaml

from ..common import Check, MachineryError, SPEC
from .. import tlc

PID = "C04"

REAL = ["dg", "ds", "p1g", "p1s", "comp", "ovd", "ov1"]
USER = ["ug", "us"]
VDECOY = ["p2g", "p2s", "p2so", "ov2", "dso", "p1so", "uso"]
ODECOY = ["p2g", "p2s", "p2so", "ov2", "dso", "p1so"]

# option paths used for slot o / q per declared type (q only exists for "str"); "rep" = an int option without built-in value
OPT_PATH = {"list": "workflowAttributes.shutdownOn", "str": "resourceManager.lsf.queue", "int": "resourceRequest.numberProcesses",
            "float": "resourceManager.config.walltime", "bool": "workflowAttributes.isMigratable"}
OPT_PATH_NOBUILTIN = {"int": "workflowAttributes.replicate", "str": "resourceManager.lsf.reservation"}
Q_PATH = "resourceManager.lsf.resourceString"
PY_TYPE = {"str": str, "int": int, "float": float, "bool": bool, "list": list}


# the abstract variables v, w, x of the spec get names that are a prefix / a suffix of one another
VNAME = {"v": "alpha", "w": "alpha2", "x": "my-alpha"}
VORDER = ["v", "w", "x"]


def sset(xs):
    return "{" + ", ".join('"%s"' % x for x in xs) + "}"


def family_cfg(name, V=(), W=(), X=(), O=(), Q=(), vref=(), wref=(), xref=(), oref=(), block=True, obuiltin=True,
               kind="str", litform="native", sibling=False, histlen=0, oempty=(), vempty=(), replicated=True, splits=("auto",)):
    return {"name": name, "text": "CONSTANTS\n  VAllowed = %s\n  WAllowed = %s\n  XAllowed = %s\n  OAllowed = %s\n  QAllowed = %s\n"
            "  VRefAt = %s\n  WRefAt = %s\n  XRefAt = %s\n  ORefAt = %s\n  DecoyBlock = %s\n  OBuiltin = %s\n  OptKind = \"%s\"\n"
            "  LitForm = \"%s\"\n  Family = \"%s\"\n  Emit = TRUE\n  Sibling = %s\n  HistLen = %d\n  OEmptyAllowed = %s\n  VEmptyAllowed = %s\n  Replicated = %s\n  UserSplits = %s\n"
            "SPECIFICATION Spec\nINVARIANT TypeOK\nINVARIANT FoldIsTop\nINVARIANT NoDecoyInResult\nINVARIANT NoReferenceLeft\n"
            "INVARIANT AnswersAreLayering\nINVARIANT ViewsSeparate\n"
            "INVARIANT EmitCase\nPROPERTY DecoyIrrelevant\nPROPERTY HigherWins\nPROPERTY ReadsDoNotWrite\nCHECK_DEADLOCK FALSE\n" % (
                sset(V), sset(W), sset(X), sset(O), sset(Q), sset(vref), sset(wref), sset(xref), sset(oref),
                "TRUE" if block else "FALSE", "TRUE" if obuiltin else "FALSE", kind, litform, name,
                "TRUE" if sibling else "FALSE", histlen, sset(oempty), sset(vempty),
                "TRUE" if (replicated and not histlen and obuiltin) else "FALSE", sset(splits)),      # the no-built-in int option is `replicate` itself
            "histlen": histlen,
            "expect_empty": bool(oempty or vempty),
            "expect_decoys": block and bool(set(V) | set(W) | set(X) | set(O) | set(Q)) and bool((set(V) | set(O) | set(W) | set(X) | set(Q)) & set(VDECOY))}


def families(tier):
    th = tier == "thorough"
    fams = []
    # A: one variable, every subset of the nine places that can matter + decoys
    if th:
        fams.append(family_cfg("vars", V=REAL + USER + ["p2g", "ov2", "dso", "uso"], block=False, replicated=False))
        fams.append(family_cfg("vars-alldecoys", V=REAL + USER + VDECOY, block=True))
    else:
        fams.append(family_cfg("vars", V=REAL + USER + VDECOY, block=True))
    # B: options, literal values; sibling option q in the same dictionary defined independently
    fams.append(family_cfg("opts-str", O=REAL + ODECOY, Q=(["dg", "p1s", "ov1"] if th else ["ds", "ov1"]), block=True, kind="str"))
    for k in ("int", "float", "bool"):
        fams.append(family_cfg("opts-" + k, O=REAL + (ODECOY if th else []), block=True, kind=k))
    fams.append(family_cfg("opts-int-nobuiltin", O=REAL, obuiltin=False, kind="int"))
    if th:
        fams.append(family_cfg("opts-str-nobuiltin", O=REAL + ODECOY, obuiltin=False, kind="str"))
    # C: chains o -> v -> w -> x (-> v: cyclic), undefined links, overridden dangling references
    if th:
        fams.append(family_cfg("chain", O=["comp", "p1g"], oref=["comp", "p1g"], V=["dg", "p1s", "us", "comp", "p2g"], vref=["dg", "p1s", "us", "p2g"],
                               W=["ds", "p1g", "ug", "ov1", "uso"], wref=["ds", "ug", "uso"], X=["dg", "comp", "ovd"], xref=["comp"], block=False))
    else:
        fams.append(family_cfg("chain", O=["comp"], oref=["comp"], V=["dg", "p1s", "us", "comp"], vref=["dg", "p1s", "us"],
                               W=["ds", "p1g", "ug", "ov1"], wref=["ds", "ug"], X=["dg", "comp"], xref=["comp"], block=False))
    # D: typed option receives its value through a (layered) variable, literal written natively / as text
    vl = ["dg", "ds", "p1g", "ug", "comp", "ovd"] if th else ["ds", "p1g", "ug", "comp"]
    for k in ("int", "float"):
        for lf in ("native", "string"):
            fams.append(family_cfg("typed-%s-%s" % (k, lf), O=["dg", "comp", "ov1"], oref=["dg", "comp", "ov1"], V=vl, kind=k, litform=lf, block=False))
    fams.append(family_cfg("typed-int-nobuiltin", O=["ds", "comp", "ovd"], oref=["ds", "comp", "ovd"], V=vl, W=["dg"], vref=["ug"], kind="int",
                           litform="string", obuiltin=False, block=False))
    # U: the user-supplied layer comes from two variable files that mention the same scopes and the same stage with different names
    fams.append(family_cfg("user-files", V=["us", "ug", "p1s"] + (["ds"] if th else []), W=["us", "uso", "ug"] + (["comp"] if th else []), X=["us"],
                           block=False, splits=("one", "scope-gs", "scope-sg", "name-ab", "name-ba")))
    # E: definitions that CLEAR: an explicitly empty value ('' / []) at a layer is a value (it overrides), not an absence
    el = ["dg", "ds", "p1g", "p1s", "comp", "ov1"] + (["ovd"] if th else [])
    fams.append(family_cfg("empty-str", O=el, oempty=el, block=False, kind="str"))
    ll = ["dg", "p1s", "comp", "ovd", "ov1"] + (["ds"] if th else [])
    fams.append(family_cfg("empty-list", O=ll, oempty=ll, block=False, kind="list"))
    vl2 = ["dg", "ds", "p1s", "us", "comp"] + (["ov1"] if th else [])
    fams.append(family_cfg("empty-var", V=vl2, vempty=vl2, O=["comp"], oref=["comp"], block=False, kind="str"))
    # H: histories of read-only calls on one object (stage-level blueprints, a sibling component of the same stage):
    #    query / instance / replicate for either platform, with and without injected defaults, the last call a query
    hl = 3 if th else 2
    fams.append(family_cfg("history-opts", O=["ds", "p1g", "p1s", "comp"] + (["dg"] if th else []), Q=["ds"] + (["comp"] if th else []),
                           block=False, sibling=True, histlen=2))
    fams.append(family_cfg("history-refs", O=["ds", "p1s"], oref=["ds"], V=["dg", "p1g"] + (["ds"] if th else []), block=False, sibling=True, histlen=2))
    fams.append(family_cfg("history-typed", O=["ds", "p1g", "comp"], oref=["ds"], V=["dg", "p1s"], kind="int", block=False, sibling=True, histlen=2))
    if th:
        fams.append(family_cfg("history-long", O=["ds", "p1g", "comp"], Q=["ds"], block=False, sibling=True, histlen=3))
    return fams


# ----------------------------------------------------------------------------------------------------------------
# rendering an abstract case to documents

def lit_value(d, kind, litform, is_option):
    """literal written at definition d (a record of the spec: s, l, code)"""
    code = d["code"]
    if kind == "list":                                  # only option o is a list (of text); everything else is text
        if d["s"] == "o":
            return [] if d.get("empty") else ["%s@%s" % (d["s"], d["l"])]
        kind = "str"
    if d.get("empty"):
        return ""                                       # a definition that clears
    if kind == "str":
        return "%s@%s" % (d["s"], d["l"])
    native = is_option or litform == "native"          # options in blueprints must be written with their native type
    if kind == "int":
        return code if native else str(code)
    if kind == "float":
        return code + 0.5 if native else "%d.5" % code
    if kind == "bool":
        b = code % 2 == 1
        return b if native else ("true" if b else "false")
    raise MachineryError("unknown kind %r" % kind)


def ref_value(d, kind):
    if kind in ("str", "list"):
        return "%s@%s{%%(%s)s}" % (d["s"], d["l"], VNAME[d["next"]])       # no [..]: that would be an array access
    if kind in ("int", "float"):
        return "%d%%(%s)s" % (d["code"], VNAME[d["next"]])
    return "%%(%s)s" % VNAME[d["next"]]


def render_def(d, kind, litform):
    if d["ref"]:
        return ref_value(d, kind)
    return lit_value(d, kind, litform, d["s"] in ("o", "q"))


def expected_text(chain, kind, litform):
    """the string a fully substituted chain becomes"""
    if kind in ("str", "list"):
        e = chain[0]
        if e.get("empty"):
            return ""
        return "%s@%s%s" % (e["s"], e["l"], "{%s}" % expected_text(chain[1:], kind, litform) if len(chain) > 1 else "")
    last = chain[-1]
    lv = lit_value(last, kind, litform, last["s"] in ("o", "q"))
    tail = lv if isinstance(lv, str) else repr(lv)
    if kind == "bool":
        return tail
    return "".join(str(e["code"]) for e in chain[:-1]) + tail


def expected_variable(chain, kind, litform):
    """value of a resolved variable: a literal keeps the type it was written with, a substituted one is text"""
    if len(chain) == 1:
        return lit_value(chain[0], kind, litform, False)
    return expected_text(chain, kind, litform)


def typed(text_or_native, kind):
    if kind in ("str", "list"):
        return text_or_native
    if kind == "bool":
        if isinstance(text_or_native, bool):
            return text_or_native
        return {"true": True, "false": False}[text_or_native.lower()]
    return PY_TYPE[kind](text_or_native)


def set_path(root, path, value):
    ps = path.split(".")
    for p in ps[:-1]:
        root = root.setdefault(p, {})
    root[ps[-1]] = value


def get_path(root, path):
    for p in path.split("."):
        root = root[p]
    return root


def opt_paths(case):
    kind = case["kind"]
    o = OPT_PATH[kind] if case["obuiltin"] else OPT_PATH_NOBUILTIN[kind]
    return {"o": o, "q": Q_PATH}


def args_template(case):
    used = [s for s in VORDER if s in case["args"]]
    return " ".join("%%(%s)s" % VNAME[s] for s in used) if used else "x"


def decode(text, kind):
    """(slot, layer) pairs recognisable in a real value -- only used to name the class of a mismatch"""
    import re
    codes = {10: "builtin", 11: "dg", 12: "ds", 13: "p1g", 14: "p1s", 15: "ug", 16: "us", 17: "comp", 18: "ovd", 19: "ov1", 21: "p2g", 22: "p2s",
             23: "ov2", 24: "dso", 25: "p1so", 26: "uso", 27: "p2so", 99: "other-component"}
    slots = {"3": "o", "4": "q", "5": "v", "6": "w", "7": "x", "9": "?"}
    text = str(text)
    if kind in ("str", "list"):
        return re.findall(r"([oqvwx])@([a-z0-9]+)", text) + ([("?", "other-component")] if "other" in text else [])
    return [(slots.get(a, "?"), codes.get(int(b), "?")) for a, b in re.findall(r"([345679])(\d\d)", text.split(".")[0])]


def order_key(chains, got, kind):
    """class of a wrong value: the first definition that differs between the specified chain(s) and the real value"""
    want = [(e["s"], e["l"]) for ch in chains for e in ch]
    have = decode(got, kind)
    for i, w in enumerate(want):
        h = have[i] if i < len(have) else ("?", "?")
        if tuple(h) != tuple(w):
            if h[1] in ("p2g", "p2s", "ov2", "dso", "p1so", "uso", "p2so", "other-component"):
                return "leak:%s:%s" % ("var" if w[0] in VORDER else "opt", h[1])
            return "order:%s:exp=%s:got=%s" % ("var" if w[0] in VORDER else "opt", w[1], h[1])
    return "order:%s:exp=%s:got=?" % ("var" if want and want[0][0] in VORDER else "opt", want[0][1] if want else "?")


def build_doc(case):
    kind, litform = case["kind"], case["litform"]
    paths = opt_paths(case)
    c = {"name": "c", "stage": 0, "command": {"executable": "echo", "arguments": args_template(case)}, "variables": {}}
    # the other component defines everything itself: its values must never show up in c
    other_lit = {"str": "other", "int": 999, "float": 999.5, "bool": True, "list": "other"}[kind]
    d = {"name": "d", "stage": 1, "command": {"executable": "echo", "arguments": "y"},
         "variables": {VNAME[s]: other_lit for s in VORDER}}
    for s in ("o", "q"):
        if s in case["used"]:
            set_path(d, paths[s], "other" if s == "q" else (["other"] if kind == "list" else other_lit))
    comps = [c, d]
    if case.get("sibling"):
        # a second component of the same stage that defines nothing itself: it sees every layer but c's own ones
        comps = [c, {"name": "e", "stage": 0, "command": {"executable": "echo", "arguments": "y"}}, d]
    flowir = {"platforms": ["default", "p1", "p2"], "variables": {}, "blueprint": {}, "components": comps}
    user = {"global": {}, "stages": {}}
    plat = {"d": "default", "p1": "p1", "p2": "p2"}
    for df in sorted(case["defs"], key=lambda r: (r["s"], r["l"])):
        s, l = df["s"], df["l"]
        val = render_def(df, kind, litform)
        isvar = s in ("v", "w", "x")
        nm = VNAME.get(s, s)
        if l in ("ug", "us", "uso"):
            if l == "ug":
                user["global"][nm] = val
            else:
                user["stages"].setdefault(0 if l == "us" else 1, {})[nm] = val
            continue
        if l == "comp":
            tgt = c
        elif l in ("ovd", "ov1", "ov2"):
            tgt = c.setdefault("override", {}).setdefault({"ovd": "default", "ov1": "p1", "ov2": "p2"}[l], {})
        else:
            p = "default" if l.startswith("d") else l[:2]
            scope = l[len("d" if l.startswith("d") else "p1"):]                    # g | s | so
            top = flowir["variables" if isvar else "blueprint"].setdefault(p, {})
            if scope == "g":
                tgt = top.setdefault("global", {})
            else:
                tgt = top.setdefault("stages", {}).setdefault(0 if scope == "s" else 1, {})
            if isvar:
                tgt[nm] = val
                continue
        if isvar:
            tgt.setdefault("variables", {})[nm] = val
        else:
            set_path(tgt, paths[s], val)
    if not user["global"]:
        del user["global"]
    if not user["stages"]:
        del user["stages"]
    return flowir, user


# ----------------------------------------------------------------------------------------------------------------
# execution on the real code

_ENV = {}


def real_modules():
    if not _ENV:
        import logging
        logging.disable(logging.CRITICAL)
        import experiment.model.frontends.flowir as FL
        import experiment.model.conf as conf
        import experiment.model.errors as E
        _ENV.update(FL=FL, conf=conf, E=E)
    return _ENV["FL"], _ENV["conf"], _ENV["E"]


AUTO_SPLITS = ["one", "scope-gs", "scope-sg"]


def write_user_files(user, scratch, variant):
    """How the user-supplied definitions are distributed over variable files (the files define disjoint (scope, name) pairs, so
    neither the distribution nor the order matters): one file; by scope (global / stages, both orders); by name (the
    definitions of variable v in one file, those of w and x in another -- both may mention the same stage --, both orders)."""
    if not user:
        return []
    os.makedirs(scratch, exist_ok=True)
    variant = {0: "one", 1: "scope-gs", 2: "scope-sg"}.get(variant, variant)
    parts = [user]
    if variant in ("scope-gs", "scope-sg") and len(user) == 2:
        parts = [{"global": user["global"]}, {"stages": user["stages"]}]
    elif variant in ("name-ab", "name-ba"):
        def pick(keep):
            part = {}
            for nm, val in user.get("global", {}).items():
                if keep(nm):
                    part.setdefault("global", {})[nm] = val
            for st, d in user.get("stages", {}).items():
                for nm, val in d.items():
                    if keep(nm):
                        part.setdefault("stages", {}).setdefault(st, {})[nm] = val
            return part
        parts = [x for x in (pick(lambda nm: nm == VNAME["v"]), pick(lambda nm: nm != VNAME["v"])) if x] or [user]
    elif variant not in ("one", "scope-gs", "scope-sg"):
        raise MachineryError("unknown distribution of user variable files %r" % (variant,))
    if variant in ("scope-sg", "name-ba"):
        parts = parts[::-1]
    files = []
    for i, part in enumerate(parts):
        text = yaml.safe_dump(part, sort_keys=True)
        import hashlib
        path = os.path.join(scratch, "uv_%s.yaml" % hashlib.md5(text.encode()).hexdigest()[:16])
        if not os.path.exists(path):
            tmp = path + ".%d.tmp" % os.getpid()
            with open(tmp, "w") as f:
                f.write(text)
            os.replace(tmp, path)
        files.append(path)
    return files


def load(flowir, files, active, validate, primitive=True):
    FL, conf, E = real_modules()
    return conf.FlowIRExperimentConfiguration(
        path=None, platform=active, variable_files=list(files), system_vars={}, is_instance=False, createInstanceFiles=False,
        primitive=primitive, concrete=FL.FlowIRConcrete(copy.deepcopy(flowir), active, {}), updateInstanceFiles=False, validate=validate)


def check_query(case, concrete, Q, exp, where, rpq, comp="c", inject=True, raw_view=True):
    """One query on `concrete`: get_component_variables + get_component_configuration of component `comp` for platform Q,
    compared with the specification's answer `exp` (ResultV of the view (comp, inject))."""
    FL, conf, E = real_modules()
    kind, litform = case["kind"], case["litform"]
    paths = opt_paths(case)
    builtin = FL.FlowIR.default_component_structure()
    out = []
    cid = (0, comp)
    # raw view: which definition is on top for each variable
    try:
        raw = concrete.get_component_variables(cid, platform=Q) if raw_view else None
    except BaseException as e:
        out.append(("vars:unexpected-exception:%s" % type(e).__name__, "%s: get_component_variables raised %r" % (where, e), rpq))
        raw = None
    usedvars = [s for s in VORDER if s in case["used"]]
    if raw is not None:
        for s in usedvars:
            top = exp["tops"][s]
            nm = VNAME[s]
            if top == "none":
                if nm in raw:
                    out.append(("leak:var:%s" % (decode(raw[nm], kind) or [("?", "?")])[0][1],
                                "%s: variable %s should be undefined, real raw value %r" % (where, nm, raw[nm]), rpq))
                continue
            df = [d for d in case["defs"] if d["s"] == s and d["l"] == top][0]
            want = render_def(df, kind, litform)
            if nm not in raw or raw[nm] != want or type(raw[nm]) is not type(want):
                got = raw.get(nm, "<missing>")
                out.append((order_key([[df]], got, kind), "%s: raw value of %s should come from %s (%r), real %r" % (where, nm, top, want, got), rpq))
        extra = set(raw) - {VNAME[s] for s in usedvars if exp["tops"][s] != "none"}
        if extra:
            out.append(("leak:var:extra-name", "%s: unexpected variables %s" % (where, sorted(extra)), rpq))
    # resolved view
    err = None
    try:
        r = concrete.get_component_configuration(cid, raw=False, include_default=True, platform=Q, inject_missing_fields=inject)
    except BaseException as e:
        if isinstance(e, (KeyboardInterrupt, SystemExit)):
            raise
        err = e
    if exp["errs"]:
        if err is None:
            out.append(("undefined:not-reported:%s" % "+".join(sorted(exp["errs"])),
                        "%s: specification demands an error (%s), real resolver returned arguments=%r variables=%r" % (
                            where, exp["errs"], r["command"].get("arguments"), r.get("variables")), rpq))
        elif exp["errs"] == ["undefined"] and not isinstance(err, E.FlowIRVariableUnknown):
            out.append(("undefined:wrong-exception:%s" % type(err).__name__, "%s: undefined reference reported as %r" % (where, err), rpq))
        return out
    if err is not None:
        out.append(("defined:unexpected-exception:%s" % type(err).__name__, "%s: resolver raised %r" % (where, str(err)[:300]), rpq))
        return out
    vals = exp["vals"] if isinstance(exp["vals"], dict) else {}
    rv = r.get("variables", {})
    if set(rv) != {VNAME[s] for s in vals if s in VNAME}:
        out.append(("leak:var:extra-name", "%s: resolved variables %s, specification %s" % (where, sorted(rv), sorted(VNAME[s] for s in vals if s in VNAME)), rpq))
    for s, chain in sorted(vals.items()):
        if s in VNAME:
            want = expected_variable(chain, kind, litform)
            got = rv.get(VNAME[s], "<missing>")
            if got != want or type(got) is not type(want):
                out.append((order_key([chain], got, kind), "%s: resolved variable %s should be %r, real %r" % (where, VNAME[s], want, got), rpq))
        else:
            k = kind if s == "o" else "str"
            try:
                got = get_path(r, paths[s])
            except KeyError:
                out.append(("order:opt:exp=%s:got=missing" % chain[0]["l"], "%s: option %s is missing from the resolved configuration" % (where, paths[s]), rpq))
                continue
            if chain[0]["l"] == "builtin":
                want = get_path(builtin, paths[s])
                if got != want:
                    out.append(("order:opt:exp=builtin:got=%s" % (decode(got, k) or [("?", "?")])[0][1],
                                "%s: option %s should keep its built-in value %r, real %r" % (where, paths[s], want, got), rpq))
                continue
            text = expected_text(chain, k, litform) if len(chain) > 1 else lit_value(chain[0], k, litform, True)
            want = typed(text, k)
            if type(got) is not PY_TYPE[k]:
                out.append(("typed:%s:wrong-type" % k, "%s: option %s declared %s, real value %r (%s)" % (where, paths[s], k, got, type(got).__name__), rpq))
            elif got != want:
                if k == "bool" and want is False and len(chain) > 1:
                    key = "typed:bool-false-as-text"            # the value arrives as text (through a variable)
                elif k == "bool":
                    key = "order:opt:exp=%s:got=?" % chain[0]["l"]
                else:
                    key = order_key([chain], got, k)
                out.append((key, "%s: option %s should be %r, real %r" % (where, paths[s], want, got), rpq))
    argslots = [s for s in VORDER if s in case["args"]] if comp == "c" else []
    if argslots:
        wa = " ".join(expected_text(vals[s], kind, litform) for s in argslots)
        ga = r["command"]["arguments"]
        if ga != wa:
            out.append((order_key([vals[s] for s in argslots], ga, kind).replace("order:var", "order:args"),
                        "%s: command line should be %r, real %r" % (where, wa, ga), rpq))
    for s in exp["undef"]:
        try:
            got = get_path(r, paths[s])
        except KeyError:
            got = None                                  # without injected defaults the option is simply absent
        if got is not None:
            out.append(("leak:opt:%s" % (decode(got, "str") or [("?", "?")])[0][1], "%s: option %s is defined nowhere, real value %r" % (where, paths[s], got), rpq))
    return out


def run_case(case, scratch, idx=0, only=None):
    """Execute one emitted state on the real code.  Returns a list of (key, what, replay) mismatches."""
    FL, conf, E = real_modules()
    kind, litform = case["kind"], case["litform"]
    flowir, user = build_doc(case)
    paths = opt_paths(case)
    builtin = FL.FlowIR.default_component_structure()
    out = []
    combos = []
    for ai, active in enumerate(("default", "p1")):
        if only and only.get("active") not in (None, active):
            continue
        if only and only.get("variant") is not None:
            vs = [only["variant"]]
        else:
            # "auto": one distribution per (case, active platform), rotating; otherwise every distribution the spec lists
            vs = [AUTO_SPLITS[(idx + ai) % 3] if v == "auto" else v for v in sorted(case.get("splits") or ["auto"])]
        combos += [(active, v) for v in vs]
    for active, variant in combos:
        files = write_user_files(user, scratch, variant)
        rp = {"case": case, "active": active, "variant": variant}
        exp_active = case["exp"][active]
        loader_error = None
        try:
            cf = load(flowir, files, active, True)
        except E.ExperimentInvalidConfigurationError as e:
            loader_error = e
            cf = load(flowir, files, active, False)
        except BaseException as e:
            out.append(("loader:unexpected-exception:%s" % type(e).__name__, "family %s active %s: loader raised %r" % (case["family"], active, e), rp))
            continue
        if exp_active["errs"] and loader_error is None:
            out.append(("undefined:loader-accepts:%s" % "+".join(sorted(exp_active["errs"])),
                        "family %s active %s: the loader accepted a package whose component has %s references (defs %s)" % (
                            case["family"], active, exp_active["errs"], brief(case)), rp))
        if not exp_active["errs"] and loader_error is not None:
            out.append((classify_loader_reject(case, loader_error), "family %s active %s: the loader rejected a valid package: %s (defs %s)" % (
                case["family"], active, str(loader_error)[-400:].replace("\n", " | "), brief(case)), rp))
        concrete = cf._concrete
        for Q in ("default", "p1"):
            if only and only.get("query") not in (None, Q):
                continue
            exp = case["exp"][Q]
            rpq = dict(rp, query=Q)
            where = "family %s active %s query %s defs %s" % (case["family"], active, Q, brief(case))
            out.extend(check_query(case, concrete, Q, exp, where, rpq))
        if case.get("replicated") and not (only and only.get("query") not in (None, "replicated")):
            # the same question to the replicated description (built for the active platform; it only has the platform `default`)
            rpq = dict(rp, query="replicated")
            where = "family %s REPLICATED for %s defs %s" % (case["family"], active, brief(case))
            # a reference written in a scope (global / stage variable, blueprint option) that instance() binds before the component's
            # own variables are known: one class of input, one key
            scope_ref = any(d["ref"] and d["l"] not in ("comp", "ovd", "ov1", "ov2") for d in case["defs"])
            early = "replicated:scope-reference-bound-before-component-scope"
            try:
                try:
                    cfr = load(flowir, files, active, True, primitive=False)
                except E.ExperimentInvalidConfigurationError as e:
                    if not exp_active["errs"]:
                        out.append((early if scope_ref else "replicated:" + classify_loader_reject(case, e),
                                    "%s: the non-primitive loader rejected a valid package: %s" % (where, str(e)[-300:].replace("\n", " | ")), rpq))
                    cfr = load(flowir, files, active, False, primitive=False)
            except BaseException as e:
                if isinstance(e, (KeyboardInterrupt, SystemExit)):
                    raise
                out.append(("replicated:load:unexpected-exception:%s" % type(e).__name__, "%s: building the replicated configuration raised %r" % (where, str(e)[:300]), rpq))
            else:
                res = check_query(case, cfr._concrete, "default", case["exp"][active], where, rpq, raw_view=False)
                out.extend((early if scope_ref else "replicated:" + key, what, r) for key, what, r in res)
    return out


def run_history(case, only=None):
    """Execute one history of read-only calls on ONE FlowIRConcrete object holding the document of the case.  After every
    call the stored document must be unchanged, every query must answer the pure layering of the document."""
    FL, conf, E = real_modules()
    flowir, user = build_doc(case)
    if user:
        raise MachineryError("history families do not use user variable files")
    out = []
    concrete = FL.FlowIRConcrete(copy.deepcopy(flowir), "default", {})
    snapshot = copy.deepcopy(concrete._flowir)
    ops = case["hist"]
    names = [o["op"] if o["op"] != "query" else "query(%s,%s,%s)" % (o["plat"], o["comp"], "inject" if o["inject"] else "bare") for o in ops]
    modified = False
    for n, o in enumerate(ops):
        rp = {"case": case, "step": n}
        where = "family %s history %s step %d defs %s" % (case["family"], " > ".join(names), n + 1, brief(case))
        before = "+".join(x["op"] + ("" if x["inject"] else "-bare") for x in ops[:n]) or "fresh"
        if o["op"] == "query":
            res = check_query(case, concrete, o["plat"], o["exp"], where, rp, comp=o["comp"], inject=o["inject"])
            for key, what, r in res:
                out.append(("history:after-%s:%s" % (before, key), what, r))
        else:
            try:
                if o["op"] == "instance":
                    concrete.instance(platform=o["plat"], ignore_errors=True, inject_missing_fields=o["inject"])
                else:
                    concrete.replicate(platform=o["plat"], ignore_errors=True)
            except BaseException as e:
                if isinstance(e, (KeyboardInterrupt, SystemExit)):
                    raise
                # whether a package with dangling references can be developed is not the subject here
        if not modified and concrete._flowir != snapshot:
            modified = True
            diff = doc_diff(snapshot, concrete._flowir)
            out.append(("history:document-modified-by:%s%s" % (o["op"], "" if o["inject"] else "-bare"),
                        "%s: the read-only call changed the stored document: %s" % (where, diff), rp))
    return out


def doc_diff(a, b, prefix=""):
    if isinstance(a, dict) and isinstance(b, dict):
        outs = []
        for k in sorted(set(a) | set(b), key=str):
            if k not in a:
                outs.append("%s%s added (%r)" % (prefix, k, b[k]))
            elif k not in b:
                outs.append("%s%s removed" % (prefix, k))
            elif a[k] != b[k]:
                outs.append(doc_diff(a[k], b[k], "%s%s." % (prefix, k)))
        return "; ".join(outs)[:600]
    return "%s %r -> %r" % (prefix.rstrip("."), a, b)


def classify_loader_reject(case, e):
    """class of the input for which the validating loader refuses a package the specification considers valid"""
    if case["kind"] != "str" and any(d["s"] == "o" and d["ref"] and d["l"] in ("ovd", "ov1", "ov2") for d in case["defs"]) \
            and ".override." in str(e):
        return "typed:override-via-variable-rejected-by-loader"
    return "defined:loader-rejects:%s" % case["family"]


def brief(case):
    return ",".join("%s@%s%s" % (d["s"], d["l"], "*" if d["ref"] else ("=''" if d.get("empty") else "")) for d in sorted(case["defs"], key=lambda r: (r["s"], r["code"])))


# ----------------------------------------------------------------------------------------------------------------
# typed-option catalogue

def run_catalogue(cat_cases):
    """cat_cases: records of the spec: path, type, form, depth, text (what the variable holds), value (expected, as text)."""
    FL, conf, E = real_modules()
    out = []
    for cc in cat_cases:
        path, ty, form, depth = cc["path"], cc["type"], cc["form"], cc["depth"]
        native = {"int": lambda t: int(t), "float": lambda t: float(t), "bool": lambda t: t == "true"}[ty]
        held = native(cc["text"]) if form == "native" else (int(cc["text"]) if form == "nativeint" else cc["text"])
        want = native(cc["value"])
        c = {"name": "c", "stage": 0, "command": {"executable": "echo", "arguments": "x"}, "variables": {}}
        set_path(c, path, "%(t)s")
        if depth == 1:
            c["variables"]["t"] = held
        else:
            c["variables"]["t"] = "%(u)s"
        flowir = {"platforms": ["default", "p1"], "components": [c, {"name": "d", "stage": 1, "command": {"executable": "echo"}}]}
        if depth == 2:
            flowir["variables"] = {"default": {"global": {"u": held}}}
        rp = {"catalogue": cc}
        where = "option %s: \"%%(t)s\" with t%s = %r" % (path, " -> u" if depth == 2 else "", held)
        if ty == "bool" and want is False:
            key = "typed:bool-false-as-text"
        elif ty == "bool" and path.startswith("workflowAttributes.memoization"):
            key = "typed:bool-option-not-converted"
        else:
            key = "typed:%s:%s" % (ty, path)
        try:
            cf = load(flowir, [], "default", False)
            r = cf._concrete.get_component_configuration((0, "c"), raw=False, include_default=True, platform="default")
            got = get_path(r, path)
        except BaseException as e:
            if isinstance(e, (KeyboardInterrupt, SystemExit)):
                raise
            out.append((cc, key, "%s: resolver raised %r" % (where, str(e)[:300]), rp))
            continue
        if type(got) is not PY_TYPE[ty]:
            k = "typed:bool-option-not-converted" if ty == "bool" else key
            out.append((cc, k, "%s: declared type %s, resolved value %r (%s)" % (where, ty, got, type(got).__name__), rp))
        elif got != want:
            out.append((cc, key, "%s: should be %r, resolved value %r" % (where, want, got), rp))
        else:
            # a correctly typed value must also be accepted by the validating loader
            try:
                load(flowir, [], "default", True)
            except E.ExperimentInvalidConfigurationError as e:
                out.append((cc, key, "%s: resolves to %r but the loader rejects the package: %s" % (where, got, str(e)[-300:].replace("\n", " | ")), rp))
            continue
    return out


def schema_typed_paths():
    """options whose schema allows a variable reference next to int/float/bool (to detect drift of the spec's catalogue)"""
    FL, conf, E = real_modules()
    schema = FL.FlowIR.type_flowir_component("full")
    found = {}

    def keyname(k):
        return k.schema if isinstance(k, FL.ValidateOptional) else k

    def is_ref(x):
        return getattr(x, "__func__", None) is FL.FlowIR.is_var_reference.__func__

    def walk(node, prefix):
        if isinstance(node, dict):
            for k, v in node.items():
                kn = keyname(k)
                if not isinstance(kn, str) or kn in ("override", "variables"):
                    continue
                walk(v, prefix + [kn])
        elif isinstance(node, FL.ValidateOr):
            alts = node.schema
            if any(is_ref(a) for a in alts):
                tys = [a for a in alts if a in (int, float, bool)]
                if tys:
                    found[".".join(prefix)] = tys
    walk(schema, [])
    return found


# ----------------------------------------------------------------------------------------------------------------

def _worker(args):
    cases, scratch, base = args
    res = []
    for i, case in enumerate(cases):
        res.append(run_history(case) if case.get("hist") else run_case(case, scratch, base + i))
    return res


def execute(chk, cases):
    real_modules()
    nproc = int(os.environ.get("VERIF_PROCS", "0") or 0) or min(12, os.cpu_count() or 1)
    scratch = os.path.join(chk.scratch, "uservars")
    os.makedirs(scratch, exist_ok=True)
    chunk = 64
    jobs = [(cases[i:i + chunk], scratch, i) for i in range(0, len(cases), chunk)]
    results = []
    if nproc > 1 and len(jobs) > 1:
        import multiprocessing
        ctx = multiprocessing.get_context("fork")
        with ctx.Pool(nproc) as pool:
            for r in pool.imap(_worker, jobs):          # ordered: the outcome does not depend on the scheduling
                results.extend(r)
    else:
        for j in jobs:
            results.extend(_worker(j))
    return results


def run(tier):
    chk = Check(PID, tier)
    gen = os.path.join(SPEC, "gen")
    os.makedirs(gen, exist_ok=True)
    fams = families(tier)
    cat = {"name": "catalogue", "text": family_cfg("catalogue")["text"].replace("INVARIANT EmitCase", "INVARIANT EmitCatalogue")}

    def tlc_run(fam):
        cfg = os.path.join(gen, "Layering_%s_%s.cfg" % (fam["name"].replace("-", "_"), tier))
        with open(cfg, "w") as f:
            f.write(fam["text"])
        return tlc.run_tlc("Layering", cfg, workers=1, timeout=800, coverage=True, jvm=["-Xss64m"])

    with concurrent.futures.ThreadPoolExecutor(max_workers=8) as ex:        # the threads only wait for TLC subprocesses
        runs = list(ex.map(tlc_run, fams + [cat]))
    all_cases = []
    for fam, r in zip(fams, runs[:-1]):
        if not r["ok"]:
            raise MachineryError("Layering.tla (%s): %s fails on the model:\n%s" % (fam["name"], r["violated"], r["out"][-2000:]))
        if not r["coverage"].get("Define"):
            raise MachineryError("action Define never taken in family %s: %s" % (fam["name"], r["coverage"]))
        if fam["expect_empty"] and not r["coverage"].get("DefineEmpty"):
            raise MachineryError("action DefineEmpty never taken in family %s: %s" % (fam["name"], r["coverage"]))
        if fam["expect_decoys"] and not r["coverage"].get("DefineDecoys"):
            raise MachineryError("action DefineDecoys never taken in family %s: %s" % (fam["name"], r["coverage"]))
        seen, uniq = set(), []
        for c in r["cases"]:                      # TLC evaluates the invariants of the initial state twice
            if not isinstance(c, dict):
                continue
            k = json.dumps(c, sort_keys=True)
            if k not in seen:
                seen.add(k)
                uniq.append(c)
        r["cases"] = uniq
        if fam["histlen"]:
            for act in ("Query", "Instance", "Replicate"):
                if not r["coverage"].get(act):
                    raise MachineryError("action %s never taken in family %s: %s" % (act, fam["name"], r["coverage"]))
            if not r["cases"] or any(len(c["hist"]) != fam["histlen"] or c["hist"][-1]["op"] != "query" for c in r["cases"]):
                raise MachineryError("family %s: no or incomplete histories emitted (%d)" % (fam["name"], len(r["cases"])))
        elif len(r["cases"]) != r["distinct"]:
            raise MachineryError("family %s: %d states but %d emitted cases" % (fam["name"], r["distinct"], len(r["cases"])))
        chk.add_tlc(r)
        all_cases.extend(r["cases"])
    rc = runs[-1]
    rc["cases"] = [c for c in rc["cases"] if isinstance(c, list)]
    if not rc["ok"] or len(rc["cases"]) not in (1, 2):
        raise MachineryError("Layering.tla: catalogue run failed:\n%s" % rc["out"][-2000:])
    cat_cases = rc["cases"][0]
    # vacuity guards on the emitted family: errors, decoys, both platforms differing
    n_err = sum(1 for c in all_cases if c["exp"]["default"]["errs"] or c["exp"]["p1"]["errs"])
    n_cyc = sum(1 for c in all_cases if "cyclic" in c["exp"]["default"]["errs"] + c["exp"]["p1"]["errs"])
    n_diff = sum(1 for c in all_cases if c["exp"]["default"] != c["exp"]["p1"])
    if not (n_err and n_cyc and n_diff):
        raise MachineryError("emitted family is degenerate: errors %d cyclic %d platform-dependent %d" % (n_err, n_cyc, n_diff))
    # spec drift: the typed catalogue of the spec against the schema of the code
    have = {c["path"] for c in cat_cases}
    code = schema_typed_paths()
    missing = sorted(set(code) - have)
    if missing:
        raise MachineryError("Layering.tla TypedOptions does not know the typed options %s of the component schema (spec drift)" % missing)

    results = execute(chk, all_cases)
    for case, res in zip(all_cases, results):
        if case.get("hist"):
            chk.evaluated((case["family"], brief(case), json.dumps([(o["op"], o["plat"], o["comp"], o["inject"]) for o in case["hist"]])), n=len(case["hist"]))
            chk.trace_validated()
        else:
            chk.evaluated((case["family"], brief(case), case["kind"], case["litform"]), n=4 * len(case.get("splits") or [1]))
        for key, what, rp in res:
            chk.violation(key, what, rp)
    for cc, key, what, rp in run_catalogue(cat_cases):
        chk.violation(key, what, rp)
    for cc in cat_cases:
        chk.evaluated(("catalogue", cc["path"], cc["form"], cc["text"], cc["depth"]))
    hist = {}
    for key, what, path in chk.violations:
        hist[key] = hist.get(key, 0) + 1
    for key in sorted(hist):
        print("  violations with key %s: %d" % (key, hist[key]))
    chk.cov["violation_keys"] = hist
    for c in all_cases[5:2000:500]:
        chk.sample({"family": c["family"], "defs": brief(c), "expected_default": c["exp"]["default"]["tops"], "expected_p1": c["exp"]["p1"]["tops"],
                    "errs": [c["exp"]["default"]["errs"], c["exp"]["p1"]["errs"]]})
    chk.cov["rule"] = ("one case = one reachable state of Layering.tla (a set of places defining variable/option slots) x active platform "
                       "{default,p1} x queried platform {default,p1}; families: %s; plus the typed-option catalogue (%d cases). "
                       "distinct = distinct (family, definition set)" % (", ".join("%s=%d" % (f["name"], r["distinct"]) for f, r in zip(fams, runs)), len(cat_cases)))
    chk.cov["exhaustive"] = True
    chk.cov["families"] = {f["name"]: r["distinct"] for f, r in zip(fams, runs)}
    chk.assumptions += [
        "two user variable files defining the same variable in the same scope are not enumerated here (their order is the subject of C15); "
        "user files with disjoint scopes are given as one file and as two files",
        "values are literals or one reference with a tag; chains have length <= 4; array accesses and nested scopes are not modelled",
        "a cyclic chain may be reported by any exception (the property only demands that no value is returned)",
        "the built-in default values are read from FlowIR.default_component_structure(); only their position in the order is checked",
        "textual literals for typed options are only given through variables (the schema rejects them in blueprints)"]
    return chk.finish()


def replay(path):
    d = json.load(open(path))
    chk = Check(PID, "quick")
    rp = d["replay"]
    if "catalogue" in rp:
        for cc, key, what, r in run_catalogue([rp["catalogue"]]):
            chk.violation(key, what, r)
        chk.evaluated(("catalogue", rp["catalogue"]["path"]))
    elif rp["case"].get("hist"):
        chk.evaluated(("replay", brief(rp["case"])))
        for key, what, r in run_history(rp["case"]):
            chk.violation(key, what, r)
    else:
        os.makedirs(os.path.join(chk.scratch, "uservars"), exist_ok=True)
        res = run_case(rp["case"], os.path.join(chk.scratch, "uservars"), 0, only={"active": rp.get("active"), "query": rp.get("query"), "variant": rp.get("variant")})
        chk.evaluated(("replay", brief(rp["case"])))
        for key, what, r in res:
            chk.violation(key, what, r)
    return chk.finish()
