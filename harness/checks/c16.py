"""C16 -- Memoization hashes identify equivalent work and nothing else.  Spec: spec/Memo.tla

1. TLC: on the family (base worlds x single-aspect perturbations) the constructive identities Strong/Fuzzy of the
   spec agree with the classification of aspects taken from the property text (StrongExactly, FuzzyExactly,
   FuzzyIgnoresProducedContent, FuzzyFollowsProducer, NoHashWhileMissing, HashWhenComplete); every action of the
   pair generator must be covered.
   The family includes "naming" base worlds: a bystander component with its own executable/argument in the stage of the
   (replicated) deepest component, under replica-like naming schemes (replicas gen10, gen11 of `gen1` next to `gen`; `gen12`
   next to `gen1`; replicas of `gen` next to `gen7`), replicated or not; perturbations ChangeSiblingExecutable/-Literal move
   the bystander's hash only, ChangeExecutable of the replicated component moves the hashes of its replicas.
   "content" base worlds: the consumer reads its own input file and a produced file whose contents range over all pairs of
   RELATED contents (base text, proper prefix, NUL padded, trailing newline, > 4 KiB, > 64 KiB, empty; rendered to real bytes),
   with the own reference shorter or longer than the other (order of hashing); distinct ids are distinct identities.
2. spec -> code: every pair (a, b, aspect) emitted by TLC is rendered to two real packages, instantiated in two
   different directories (different instance names, time stamps, file times), the consumed files are written with
   the contents the worlds give, and ComponentSpecification.memoization_hash / memoization_hash_fuzzy of EVERY
   component of the chain are compared:   None <=> spec says undefined,   equal <=> spec says equal.
"""
import copy
import json
import os
import shutil

from ..common import Check, MachineryError, SPEC
from .. import tlc

PID = "C16"

INVARIANTS = ["TypeOK", "StrongExactly", "NoHashWhileMissing", "HashWhenComplete", "FuzzyIgnoresProducedContent",
              "FuzzyFollowsProducer", "FuzzyExactly", "BaseComplete", "SiblingExactly", "NoFuzzyWhileUpstreamInputMissing"]
ACTIONS = ["ChangeExecutable", "ChangeLiteral", "ChangeOwnContent", "ChangeOwnMethod", "ChangeProducedContent",
           "ChangeUpMethod", "ChangeImage", "LiteralViaVariable", "ExecutableViaVariable", "RenameOwnFile", "RenameProducedFile",
           "RespellReference", "ChangeBackendOnly", "ChangeResources", "ChangeEnvironment", "MoveInstance",
           "RenameComponents", "RenameStages", "ShiftStages", "ChangeTime", "Replicate", "Identity",
           "ChangeSiblingExecutable", "ChangeSiblingLiteral",
           "RemoveOwnFile", "RemoveProducedFile", "FlickerOwnFile"]

# how the opaque values of the spec are rendered
NAMES = {"plain": ("cons", "prod", "src"), "renamed": ("xx", "yy", "zz"),
         "affix": ("aba", "ba", "a"),          # every producer's name is a suffix of its consumer's name
         "affix2": ("a", "ba", "aba"),         # every consumer's name is a suffix of its producer's name
         "digits": ("cons1", "prod2", "src10"), "digitmid": ("c1ons", "p2rod", "s10rc")}
SIBLING = {"plain": "other", "renamed": "ww", "affix": "cba", "affix2": "b", "digits": "sib3", "digitmid": "o4ther"}
# replica-like names: (name of the deepest component c[n] -- the one that is replicated --, name of its sibling)
#   repldigit : replicas gen10, gen11 of `gen1` next to `gen`  (digit-stripped name of the blueprint is another component)
#   repldigit2: replicas gen120, gen121 of `gen12` next to `gen1` (a partly stripped name is another component)
#   replsib   : replicas gen0, gen1 of `gen` next to `gen7`     (a component that looks like a replica of another)
REPLICA_LIKE = {"repldigit": ("gen1", "gen"), "repldigit2": ("gen12", "gen1"), "replsib": ("gen", "gen7")}


def names_of(w):
    """-> (names of c[1..n] ..., name of the sibling)"""
    scheme, n = w["where"]["scheme"], w["n"]
    if scheme in REPLICA_LIKE:
        chain = list(NAMES["plain"])
        chain[n - 1] = REPLICA_LIKE[scheme][0]
        return tuple(chain), REPLICA_LIKE[scheme][1]
    return NAMES[scheme], SIBLING[scheme]


EXE = {"e1": "cat", "e2": "ls", "e3": "sort", "e4": "wc"}
LIT = {"l1": "-n", "l2": "-v", "l3": "-r", "l4": "-u"}
# renamed files get names of a different length: the code orders references by the length of their string
FNAME = {"f1": "f1", "f2": "f2", "o1": "o1", "g1": "a_much_longer_file_name_g1", "g2": "another_quite_long_name_g2"}
IMG = {"img1": "registry.example.com/tools/img:1", "img2": "registry.example.com/tools/img:2"}

TIERS = {
    "quick": dict(MaxChain=3, OwnShapes=["none", "input-ref", "data-copy", "appdep-ref"],
                  UpShapes=["pfile-ref", "pfile-copy", "pdir-ref"], Up2Shapes=["pfile-ref", "pdir-ref"],
                  ImageShapes=["local", "k8s-img1"], MaxFeatures=1, NamingChain=2, nproc=6,
                  ContentIds=["B", "B.prefix", "B.nul", "B.big64k", "empty"]),
    "thorough": dict(MaxChain=3, OwnShapes=["none", "input-ref", "input-copy", "data-ref", "data-copy", "appdep-ref", "appdep-link"],
                     UpShapes=["pfile-ref", "pfile-copy", "pfile-output", "pdir-ref"], Up2Shapes=["pfile-ref", "pdir-ref"],
                     ImageShapes=["local", "lsf-img1", "k8s-img1"], MaxFeatures=2, NamingChain=3, nproc=8,
                     ContentIds=["B", "B.prefix", "B.nul", "B.nl", "B.big4k", "B.big64k", "empty"]),
}
SCHEMES = ["plain", "renamed", "affix", "affix2", "digits", "digitmid", "repldigit", "repldigit2", "replsib"]
NAMING = ["repldigit", "repldigit2", "replsib"]


def _set(xs):
    return "{" + ", ".join('"%s"' % x for x in xs) + "}"


def write_cfg(path, t, emit, invariants):
    body = "CONSTANTS\n  MaxChain = %d\n  OwnShapes = %s\n  UpShapes = %s\n  Up2Shapes = %s\n  ImageShapes = %s\n" \
           "  MaxFeatures = %d\n  Schemes = %s\n  NamingSchemes = %s\n  NamingChain = %d\n  ContentIds = %s\n  Emit = %s\nSPECIFICATION Spec\n" % (
               t["MaxChain"], _set(t["OwnShapes"]), _set(t["UpShapes"]), _set(t["Up2Shapes"]), _set(t["ImageShapes"]),
               t["MaxFeatures"], _set(SCHEMES), _set(NAMING), t["NamingChain"], _set(t["ContentIds"]), "TRUE" if emit else "FALSE")
    body += "".join("INVARIANT %s\n" % i for i in invariants) + "CHECK_DEADLOCK FALSE\n"
    tmp = "%s.%d.tmp" % (path, os.getpid())          # atomic: a concurrent run of the same tier may be reading it
    with open(tmp, "w") as f:
        f.write(body)
    os.replace(tmp, path)
    return path


# ---------------------------------------------------------------------------------------------------------------
# world (JSON from TLC) -> real package, instance, files

def stage_of(w, i):
    """stage index of c[i] (1-based i): the deepest producer first, the consumer last"""
    n, shift = w["n"], w["where"]["shift"]
    pos = {}
    s = shift
    for k in range(n, 0, -1):
        pos[k] = s
        if not (k == 2 and w["same"]):      # c[1] shares the stage of c[2]
            s += 1
    return pos[i]


def file_rel(kind, fname, i):
    folder = {"input": "input", "data": "data", "appdep": "app"}[kind]
    return "%s/%s_%d.txt" % (folder, FNAME[fname], i)


def render(w, appdir):
    names, sibname = names_of(w)
    n = w["n"]
    comps, envs = [], {}
    gvars, pvars = {}, {}          # global variables of the default platform / of the platform "plat"
    if w["where"]["shift"]:
        comps.append({"name": "filler", "stage": 0, "command": {"executable": "true", "arguments": ""}})
    uses_app = False
    for i in range(1, n + 1):
        c = w["c"][i - 1]
        lit = LIT[c["lit"]]
        variables = {}
        if c["viaVar"]:
            variables["flag"] = lit
            lit = "%(flag)s"
        args, refs = [lit], []
        own = c["own"]
        if own["kind"] != "none":
            r = "%s:%s" % (file_rel(own["kind"], own["fname"], i), own["method"])
            refs.append(r)
            uses_app = uses_app or own["kind"] == "appdep"
            if own["method"] in ("ref", "output"):
                args.extend([r] * w.get("mentions", 1))
        up = c["up"]
        if i < n and up["kind"] != "none":
            prod = names[i] if up["rel"] else "stage%d.%s" % (stage_of(w, i + 1), names[i])
            r = "%s/%s.txt:%s" % (prod, FNAME[up["fname"]], up["method"]) if up["kind"] == "pfile" else "%s:%s" % (prod, up["method"])
            refs.append(r)
            if up["method"] in ("ref", "output"):
                args.extend([r] * w.get("mentions", 1))
        exe = EXE[c["exe"]]
        if c["exeVia"] == "comp":
            variables["tool"] = exe
            exe = "%(tool)s"
        elif c["exeVia"] == "global":
            gvars["tool%d" % i] = exe
            exe = "%%(tool%d)s" % i
        elif c["exeVia"] == "platform":       # the default platform names another program, the active platform the right one
            gvars["tool%d" % i] = "false"
            pvars["tool%d" % i] = exe
            exe = "%%(tool%d)s" % i
        comp = {"name": names[i - 1], "stage": stage_of(w, i),
                "command": {"executable": exe, "arguments": " ".join(args), "environment": "env%d" % i},
                "references": refs, "resourceRequest": {"numberThreads": c["res"]}}
        envs["env%d" % i] = {"VERIF_VALUE": c["envvar"]}
        if variables:
            comp["variables"] = variables
        if c["backend"] == "lsf":
            comp["resourceManager"] = {"config": {"backend": "lsf"}, "lsf": {"queue": "normal"}}
            if c["image"] != "none":
                comp["resourceManager"]["lsf"]["dockerImage"] = IMG[c["image"]]
        elif c["backend"] == "kubernetes":
            comp["resourceManager"] = {"config": {"backend": "kubernetes"}, "kubernetes": {"image": IMG[c["image"]]}}
        elif c["image"] != "none":
            raise MachineryError("the local back-end has no image: %r" % (c,))
        if w["where"]["replicated"] and i == n:
            comp["workflowAttributes"] = {"replicate": 2}
        comps.append(comp)
    if w["sib"]["present"]:
        comps.append({"name": sibname, "stage": stage_of(w, n),
                      "command": {"executable": EXE[w["sib"]["exe"]], "arguments": LIT[w["sib"]["lit"]]}})
    nstages = max(c["stage"] for c in comps) + 1
    doc = {"components": comps, "environments": {"default": envs},
           "variables": {"default": {"stages": {k: {"stage-name": "%s%d" % (w["where"]["stageNames"], k)} for k in range(nstages)}}}}
    if gvars:
        doc["variables"]["default"]["global"] = gvars
    if pvars:
        doc["variables"]["plat"] = {"global": pvars}
        doc["platforms"] = ["default", "plat"]
    if uses_app:
        doc["application-dependencies"] = {"default": [appdir]}
    return doc


BASE_TEXT = b"content of the base file\nsecond line: base base base\nthird line\n"


def content_bytes(cid):
    """content id of the spec -> bytes.  The related ids stand in prefix / padding / block-size relations (Memo.tla)."""
    if cid == "B":
        return BASE_TEXT
    if cid == "B.prefix":
        return BASE_TEXT[:29]
    if cid == "B.nul":
        return BASE_TEXT + b"\0" * 64
    if cid == "B.nl":
        return BASE_TEXT + b"\n"
    if cid == "B.big4k":
        return (BASE_TEXT * (5000 // len(BASE_TEXT) + 1))[:5000]
    if cid == "B.big64k":
        return (BASE_TEXT * (70000 // len(BASE_TEXT) + 1))[:70000]
    if cid == "empty":
        return b""
    return ("content of %s\nsecond line %s\n" % (cid, cid * 3)).encode()


def content_text(cid):
    return content_bytes(cid).decode("latin-1")


class Built:
    def __init__(self, w, root, tag, realenv):
        self.w = w
        loc = os.path.join(root, "A", tag) if w["where"]["loc"] == "A" else os.path.join(root, "B-elsewhere", "deeper", tag)
        self.dir = loc
        os.makedirs(loc)
        appdir = os.path.join(loc, "deps", "app.application")
        n = w["n"]
        inputs, extra = [], {}
        self.own_paths = {}
        self.flicker_path = None
        self.flickered = None
        for i in range(1, n + 1):
            own = w["c"][i - 1]["own"]
            if own["kind"] == "none":
                continue
            rel = file_rel(own["kind"], own["fname"], i)
            text = content_text(own["content"])
            if own["kind"] == "input":
                p = os.path.join(loc, "src-inputs", os.path.basename(rel))
                os.makedirs(os.path.dirname(p), exist_ok=True)
                with open(p, "wb") as f:
                    f.write(content_bytes(own["content"]))
                inputs.append(p)
            elif own["kind"] == "data":
                extra[rel] = text
            else:
                p = os.path.join(appdir, os.path.basename(rel))
                os.makedirs(appdir, exist_ok=True)
                with open(p, "w") as f:
                    f.write(text)
        self.doc = render(w, appdir)
        platform = "plat" if any(c["exeVia"] == "platform" for c in w["c"][:n]) else None
        self.exp = realenv.experiment_from_flowir(self.doc, loc, inputs=inputs, extra_files=extra, validate=True, platform=platform)
        inst = self.exp.instanceDirectory.location
        t = 1_000_000_000 + 86400 * 365 * w["where"]["time"]
        names, sibname = names_of(w)
        self.nodes = {}
        self.sibnode = "stage%d.%s" % (stage_of(w, n), sibname) if w["sib"]["present"] else None
        if self.sibnode and self.sibnode not in self.exp.graph.nodes:
            raise MachineryError("rendered world has no node %s (nodes: %s)" % (self.sibnode, sorted(self.exp.graph.nodes)))
        for i in range(1, n + 1):
            base = "stage%d.%s" % (stage_of(w, i), names[i - 1])
            if w["where"]["replicated"]:
                self.nodes[i] = [base + "0", base + "1"]
            else:
                self.nodes[i] = [base]
            for nd in self.nodes[i]:
                if nd not in self.exp.graph.nodes:
                    raise MachineryError("rendered world has no node %s (nodes: %s)" % (nd, sorted(self.exp.graph.nodes)))
        for i in range(1, n + 1):
            c = w["c"][i - 1]
            own = c["own"]
            if own["kind"] != "none":
                p = os.path.join(inst, file_rel(own["kind"], own["fname"], i))
                if not os.path.isfile(p):
                    raise MachineryError("consumed file %s was not created by the instantiation" % p)
                os.utime(p, (t, t))
                if not own["present"]:
                    os.remove(os.path.realpath(p))
                if w.get("flicker") == i:
                    self.flicker_path = os.path.realpath(p)
            up = c["up"]
            if i < n and up["kind"] == "pfile" and up["present"]:
                for nd in self.nodes[i + 1]:
                    wd = self.exp.graph.nodes[nd]["componentInstance"].directory
                    p = os.path.join(wd, "%s.txt" % FNAME[up["fname"]])
                    with open(p, "wb") as f:
                        f.write(content_bytes(up["content"]))
                    os.utime(p, (t, t))

    def hashes(self, i, reset=True):
        out = []
        for nd in self.nodes[i]:
            spec = self.exp.graph.nodes[nd]["componentSpecification"]
            if reset:
                spec.memoization_reset()
            out.append((spec.memoization_hash, spec.memoization_hash_fuzzy))
        return out

    def flicker(self):
        """the file disappears, every hash is asked for (consumers first, as a controller polling its components would), the file
        comes back with the same bytes; from here on nobody calls memoization_reset()"""
        with open(self.flicker_path, "rb") as f:
            data = f.read()
        st = os.stat(self.flicker_path)
        os.remove(self.flicker_path)
        self.flickered = {i: self.hashes(i, reset=False) for i in range(1, self.w["n"] + 1)}
        with open(self.flicker_path, "wb") as f:
            f.write(data)
        os.utime(self.flicker_path, (st.st_atime, st.st_mtime))

    def all_hashes(self):
        if self.flicker_path:
            self.flicker()
            out = {i: self.hashes(i, reset=False) for i in range(1, self.w["n"] + 1)}
            if self.sibnode:
                spec = self.exp.graph.nodes[self.sibnode]["componentSpecification"]
                out["sib"] = [(spec.memoization_hash, spec.memoization_hash_fuzzy)]
            return out
        # producers first: the fuzzy hash of a consumer asks its producer
        for i in range(self.w["n"], 0, -1):
            for nd in self.nodes[i]:
                self.exp.graph.nodes[nd]["componentSpecification"].memoization_reset()
        out = {i: self.hashes(i) for i in range(1, self.w["n"] + 1)}
        if self.sibnode:
            spec = self.exp.graph.nodes[self.sibnode]["componentSpecification"]
            spec.memoization_reset()
            out["sib"] = [(spec.memoization_hash, spec.memoization_hash_fuzzy)]
        return out

    def close(self):
        shutil.rmtree(self.dir, ignore_errors=True)


def aspect_name(pair):
    k = pair["asp"]["kind"]
    if k == "rename":
        return "rename=%s" % pair["b"]["where"]["scheme"]
    if k in ("ownMethod", "upMethod"):
        f = "own" if k == "ownMethod" else "up"
        at = pair["asp"]["at"] - 1
        return "%s=%s->%s" % (k, pair["a"]["c"][at][f]["method"], pair["b"]["c"][at][f]["method"])
    if k in ("ownContent", "upContent") and pair["a"]["focus"] == "content":
        return "%s->%s" % (k, pair["b"]["c"][0]["own" if k == "ownContent" else "up"]["content"])
    if k == "exeVia":
        at = pair["asp"]["at"] - 1
        return "exeVia=%s->%s" % (pair["a"]["c"][at]["exeVia"], pair["b"]["c"][at]["exeVia"])
    if k == "image":
        at = pair["asp"]["at"] - 1
        return "image=%s/%s->%s/%s" % (pair["a"]["c"][at]["backend"], pair["a"]["c"][at]["image"],
                                      pair["b"]["c"][at]["backend"], pair["b"]["c"][at]["image"])
    if k == "backendOnly":
        at = pair["asp"]["at"] - 1
        return "backendOnly=%s->%s" % (pair["a"]["c"][at]["backend"], pair["b"]["c"][at]["backend"])
    return k


def position(pair, i):
    at = pair["asp"]["at"]
    if at == 0:
        pos = "world"
    elif at == 9:
        pos = "of-sibling"
    elif at == i:
        pos = "self"
    else:
        pos = "upstream%d" % (at - i) if at > i else "downstream"
    if pair["a"]["sib"]["present"] or pair["a"]["focus"] in ("content", "exe"):   # the class of the input includes the naming / content relation
        pos += "@" + base_class(pair["a"], i)
    return pos


def compare(chk, pair, ha, hb, replay):
    """ha/hb: {i: [(strong, fuzzy) per node]} of the two worlds"""
    asp = aspect_name(pair)
    for ob in pair["obs"]:
        i = ob["i"]
        pos = position(pair, i)
        sa, fa = ha[i][0]
        # the base world is complete: both hashes exist, and all replicas of it agree
        if any(x is None for h in ha[i] for x in h):
            chk.violation("no-hash:base:%s" % base_class(pair["a"], i),
                          "complete world, component %d of the chain has (strong, fuzzy) = %s" % (i, ha[i]), replay)
            continue
        if len(set(ha[i])) > 1:
            chk.violation("replicas-differ:base:%s" % base_class(pair["a"], i),
                          "replicas of component %d of the chain consume equal files but have (strong, fuzzy) = %s" % (i, ha[i]), replay)
            continue
        for (sb, fb) in hb[i]:
            # --- strong
            if (sb is not None) != ob["sdefB"]:
                chk.violation("%s:%s:%s" % ("no-hash" if sb is None else "hash-while-missing", asp, pos),
                              "aspect %s at c[%d], observed c[%d]: strong hash is %s, specification says %s" % (
                                  asp, pair["asp"]["at"], i, sb, "defined" if ob["sdefB"] else "undefined (input missing)"), replay)
            elif sb is not None:
                if (sa == sb) != (ob["srel"] == "eq"):
                    chk.violation("strong:%s:%s:%s" % ("false-reuse" if sa == sb else "spurious-miss", asp, pos),
                                  "aspect %s at c[%d], observed c[%d]: strong hashes %s / %s, specification says %s" % (
                                      asp, pair["asp"]["at"], i, sa, sb, ob["srel"]), replay)
            # --- fuzzy
            if ob["fdefClaimed"] and (fb is not None) != ob["fdefB"]:
                if not (sb is None and ob["sdefB"]):       # already reported as no-hash above
                    chk.violation("fuzzy-%s:%s:%s" % ("no-hash" if fb is None else "hash-while-missing", asp, pos),
                                  "aspect %s at c[%d], observed c[%d]: fuzzy hash is %s, specification says %s" % (
                                      asp, pair["asp"]["at"], i, fb, "defined" if ob["fdefB"] else "undefined"), replay)
            elif fb is not None and ob["fclaimed"] and ob["fdefB"]:
                if (fa == fb) != (ob["frel"] == "eq"):
                    chk.violation("fuzzy:%s:%s:%s" % ("false-reuse" if fa == fb else "spurious-miss", asp, pos),
                                  "aspect %s at c[%d], observed c[%d]: fuzzy hashes %s / %s, specification says %s" % (
                                      asp, pair["asp"]["at"], i, fa, fb, ob["frel"]), replay)


def compare_sibling(chk, pair, ha, hb, replay):
    if not pair["sib"]["present"]:
        return
    asp = aspect_name(pair)
    (sa, fa), (sb, fb) = ha["sib"][0], hb["sib"][0]
    if None in (sa, fa, sb, fb):
        chk.violation("no-hash:%s:sibling" % asp, "the sibling (no references) has hashes %s / %s" % ((sa, fa), (sb, fb)), replay)
        return
    for which, x, y in (("strong", sa, sb), ("fuzzy", fa, fb)):
        if (x == y) != (pair["sib"]["rel"] == "eq"):
            chk.violation("%s:%s:%s:sibling" % (which, "false-reuse" if x == y else "spurious-miss", asp),
                          "aspect %s, observed the sibling of c[%d]: %s hashes %s / %s, specification says %s" % (
                              asp, pair["a"]["n"], which, x, y, pair["sib"]["rel"]), replay)


def base_class(w, i):
    c = w["c"][i - 1]
    if w["focus"] == "exe":
        return "executable-via(%s)" % ",".join(c["exeVia"] for c in w["c"][:w["n"]])
    if w["focus"] == "content":
        c1 = w["c"][0]
        return "contents(own=%s,produced=%s,%s)" % (c1["own"]["content"], c1["up"]["content"],
                                                   "own-reference-longer" if c1["own"]["fname"] == "g1" else "own-reference-shorter")
    if w["sib"]["present"]:
        return "naming=%s%s" % (w["where"]["scheme"], ",replicated" if w["where"]["replicated"] else "")
    return "own=%s-%s,up=%s-%s,%s" % (c["own"]["kind"], c["own"]["method"], c["up"]["kind"], c["up"]["method"], c["backend"])


def execute_pairs(chk, pairs, realenv):
    groups = {}
    for p in pairs:
        groups.setdefault(json.dumps(p["a"], sort_keys=True), []).append(p)
    nb = 0
    for gi, key in enumerate(sorted(groups)):
        ps = groups[key]
        try:
            A = Built(ps[0]["a"], chk.scratch, "a%d" % gi, realenv)
        except MachineryError:
            raise
        except Exception as e:
            raise MachineryError("base world cannot be instantiated (%s: %s): %s" % (type(e).__name__, str(e)[:300], key))
        ha = A.all_hashes()
        for pi, p in enumerate(sorted(ps, key=lambda q: json.dumps([q["asp"], q["b"]], sort_keys=True))):
            replay = {"pair": p}
            nb += 1
            try:
                B = Built(p["b"], chk.scratch, "b%d_%d" % (gi, pi), realenv)
            except MachineryError:
                raise
            except Exception as e:
                chk.violation("cannot-instantiate:%s" % aspect_name(p), "world b cannot be instantiated: %s: %s" % (type(e).__name__, str(e)[:300]), replay)
                continue
            hb = B.all_hashes()
            compare(chk, p, ha, hb, replay)
            compare_sibling(chk, p, ha, hb, replay)
            chk.evaluated(("pair", key, json.dumps(p["asp"], sort_keys=True), json.dumps(p["b"], sort_keys=True)))
            chk.sample({"aspect": aspect_name(p), "at": p["asp"]["at"], "n": p["a"]["n"],
                        "a": {i: ha[i] for i in ha}, "b": {i: hb[i] for i in hb},
                        "expected": [{k: ob[k] for k in ("i", "sdefB", "srel", "fdefB", "frel", "fclaimed")} for ob in p["obs"]]}, limit=4)
            B.close()
        # replicas of one definition inside one experiment must agree as well (the names differ only in the replica index)
        A.close()
    return nb


class Recorder:
    """what a worker process needs of a Check: it records, the parent replays the records in a fixed order"""

    def __init__(self, scratch):
        self.scratch = scratch
        self.calls = []

    def violation(self, key, what, replay=None):
        self.calls.append(["violation", key, what, replay])

    def evaluated(self, case_key=None, nontrivial=True, n=1):
        self.calls.append(["evaluated", case_key])

    def sample(self, s, limit=5):
        if sum(1 for c in self.calls if c[0] == "sample") < limit:
            self.calls.append(["sample", s])


def execute_parallel(chk, pairs, nproc):
    """the pairs are split by base world over nproc worker processes (python -m harness.checks.c16 job out); the
    result does not depend on the scheduling: records are merged in the order of the slices"""
    import subprocess
    import sys
    from ..common import VERIF
    bases = sorted({json.dumps(p["a"], sort_keys=True) for p in pairs})
    owner = {b: i % nproc for i, b in enumerate(bases)}
    procs = []
    for k in range(nproc):
        mine = [p for p in pairs if owner[json.dumps(p["a"], sort_keys=True)] == k]
        jp = os.path.join(chk.scratch, "job%d.json" % k)
        with open(jp, "w") as f:
            json.dump({"scratch": os.path.join(chk.scratch, "w%d" % k), "pairs": mine}, f)
        procs.append((k, jp, subprocess.Popen([sys.executable, "-W", "ignore", "-m", "harness.checks.c16", jp, jp + ".out"], cwd=VERIF,
                                              stdout=subprocess.PIPE, stderr=subprocess.STDOUT, text=True)))
    n = 0
    for (k, jp, p) in procs:
        out, _ = p.communicate(timeout=3000)
        if p.returncode != 0 or not os.path.exists(jp + ".out"):
            raise MachineryError("C16 worker %d failed (rc=%s):\n%s" % (k, p.returncode, out[-3000:]))
        rec = json.load(open(jp + ".out"))
        if rec.get("machinery"):
            raise MachineryError(rec["machinery"])
        n += rec["n"]
        for c in rec["calls"]:
            if c[0] == "violation":
                chk.violation(c[1], c[2], c[3])
            elif c[0] == "evaluated":
                chk.evaluated(c[1])
            else:
                chk.sample(c[1], limit=4)
    return n


def worker_main(job_path, out_path):
    import logging
    import warnings
    warnings.simplefilter("ignore")
    job = json.load(open(job_path))
    os.makedirs(job["scratch"], exist_ok=True)
    rec = Recorder(job["scratch"])
    res = {"calls": rec.calls, "n": 0}
    try:
        from .. import realenv
        res["n"] = execute_pairs(rec, job["pairs"], realenv)
    except MachineryError as e:
        res["machinery"] = str(e)
    with open(out_path + ".tmp", "w") as f:
        json.dump(res, f, default=str)
    os.replace(out_path + ".tmp", out_path)
    shutil.rmtree(job["scratch"], ignore_errors=True)


def run(tier):
    chk = Check(PID, tier)
    gen = os.path.join(SPEC, "gen")
    os.makedirs(gen, exist_ok=True)
    t = TIERS[tier]
    # 1. the design: both formulations of the property agree on the family; no vacuous action
    c1 = write_cfg(os.path.join(gen, "Memo_mc_%s.cfg" % tier), t, False, INVARIANTS)
    r = tlc.run_tlc("Memo", c1, workers=8, timeout=600, coverage=True)
    if not r["ok"]:
        raise MachineryError("Memo.tla: %s fails on the model:\n%s" % (r["violated"], r["out"][-3000:]))
    for act in ACTIONS:
        if not r["coverage"].get(act):
            raise MachineryError("action %s of Memo.tla never taken (vacuous run): %s" % (act, r["coverage"]))
    chk.add_tlc(r)
    for witness in ("NoAspectMatters", "EveryAspectMatters", "FuzzyIsStrong", "NeverUndefined"):
        cw = write_cfg(os.path.join(gen, "Memo_witness_%s_%s.cfg" % (witness, tier)), t, False, [witness])
        rw = tlc.run_tlc("Memo", cw, workers=4, timeout=600, expect_violation=True)
        if rw["violated"] != witness:
            raise MachineryError("vacuity guard: %s is not violated by the family of Memo.tla (%s)" % (witness, rw["violated"]))
    # 2. the pairs
    c2 = write_cfg(os.path.join(gen, "Memo_emit_%s.cfg" % tier), t, True, ["EmitPair"])
    r2 = tlc.run_tlc("Memo", c2, workers=1, timeout=600)
    pairs = r2["cases"]
    if len(pairs) != r["distinct"] - len({json.dumps(p["a"], sort_keys=True) for p in pairs}):
        raise MachineryError("TLC emitted %d pairs but explored %d states" % (len(pairs), r["distinct"]))
    if len(pairs) < 500:
        raise MachineryError("TLC emitted only %d pairs" % len(pairs))
    n = execute_parallel(chk, pairs, t["nproc"])
    chk.cov["rule"] = ("pairs = base worlds (chain length <= %d; shapes of the consumed own/produced file, back-end/image, same-stage; at most "
                       "%d non-default features) x every applicable single-aspect perturbation of Memo.tla at every component of the chain; "
                       "both worlds instantiated as real experiments, strong and fuzzy hash of every chain component compared; "
                       "distinct = distinct (base, aspect, perturbed world)" % (t["MaxChain"], t["MaxFeatures"]))
    chk.cov["exhaustive"] = True
    chk.cov["pairs"] = n
    chk.assumptions += [
        "content of a produced DIRECTORY reference is identified with the strong (fuzzy) identity of the producer, as the code does; "
        ":copy/:link of a producer directory is outside the model",
        "for the fuzzy hash the role of file NAMES and the existence of a hash while a produced file is missing are not claimed (property is silent)",
        "independence of the fuzzy hash from location/names/time is claimed (title: 'and nothing else')",
        "custom embeddingFunction (JavaScript) fuzzy hashes are outside the model",
        "one perturbation per pair; file contents are short text files (< 4 KiB)"]
    return chk.finish()


def replay(path):
    from .. import realenv
    d = json.load(open(path))
    chk = Check(PID, "quick")
    execute_pairs(chk, [d["replay"]["pair"]], realenv)
    return chk.finish()


if __name__ == "__main__":
    import sys
    worker_main(sys.argv[1], sys.argv[2])
