"""C19 -- The legacy configuration format (DOSINI) round-trips an instance.   Spec: spec/Dosini.tla
(+ spec/gen/DosiniCatalogue.tla generated from the hand-written table in harness/c19_catalogue.py)

1. drift guard: the catalogue is compared with the code (FlowIR.default_component_structure(), the keyword list of the
   Dosini frontend): an option / keyword the spec does not know is a machinery error (exit 2), never a violation.
2. TLC: for every family of instances (options x backends x layers, variables, environments, status, output) the state
   machine Dump;Load;Redump;Reload keeps RoundTrip, FixedPoint, NoKeywordClash, StageFilesSelfContained; every action is
   covered; three named faults of the translation (Fault constant) must violate RoundTrip (the invariant has teeth).
3. spec -> code: every instance TLC emits is rendered to a FlowIR document, turned into an instance exactly as
   DOSINIExperimentConfiguration does (FlowIRConcrete.instance), written with the real Dosini().dump(..., is_instance=True)
   (+ _dump_status/_dump_output), read with the real Dosini().load_from_directory(..., is_instance=True), and the resolved
   view (per component get_component_configuration(raw=False), environments, status, output) of the loaded description is
   compared with the view of the description that was written and with the spec's expected view.  The description read
   back is written and read a second time (the property applies to it as well).
"""
import copy
import json
import os
import shutil
import traceback
from concurrent.futures import ThreadPoolExecutor

from ..common import Check, MachineryError, SPEC
from .. import tlc
from .. import c19_catalogue as CAT

PID = "C19"
GEN = os.path.join(SPEC, "gen")
FAMILIES = ("options", "variables", "environments", "status", "output", "names", "history")
INVARIANTS = ("TypeOK", "RoundTrip", "FixedPoint", "NoKeywordClash", "StageFilesSelfContained")
FAULTS = {"parse-drops-max-restarts": "options", "two-options-one-keyword": "options", "no-migration": "variables",
          "env-name-cut-at-hyphen": "names", "component-variable-equal-to-global-not-written": "variables",
          "stale-stage-files-kept": "history"}
ABSENT = "<absent>"


# ---------------------------------------------------------------------------------------------------------------
# 1. drift guard

def check_drift(chk, FL, D):
    paths = {row[0] for row in CAT.CATALOGUE} | {CAT.BACKEND[0]}
    keys = {row[1] for row in CAT.CATALOGUE} | {CAT.BACKEND[1]}
    if len(keys) != len(paths):
        raise MachineryError("catalogue: keywords are not unique")
    code_paths = CAT.leaf_paths_of_default_structure(FL.FlowIR.default_component_structure())
    unknown = sorted(p for p in code_paths if p not in paths and p not in CAT.UNSUPPORTED and p not in CAT.STRUCTURAL
                     and not any(q.startswith(p + ".") for q in paths))
    if unknown:
        raise MachineryError("spec drift: FlowIR.default_component_structure() has options the catalogue of spec/Dosini.tla does not "
                             "know (add them to harness/c19_catalogue.py as supported or unsupported-with-reason): %s" % unknown)
    gone = sorted(p for p in CAT.UNSUPPORTED if p not in code_paths)
    if gone:
        raise MachineryError("spec drift: options listed as unsupported no longer exist in FlowIR: %s" % gone)
    for pool in (CAT.ENV_NAME_POOL, CAT.COMP_NAME_POOL, CAT.OUT_NAME_POOL):
        clash = [n for n in pool if n.lower() in CAT.RESERVED_SECTION_NAMES]
        if clash:
            raise MachineryError("catalogue: the name alphabet uses names the legacy format reserves: %s" % clash)
    if set(CAT.VAR_NAME_POOL) & keys:
        raise MachineryError("catalogue: the name alphabet names variables like legacy keywords: %s" % sorted(set(CAT.VAR_NAME_POOL) & keys))
    code_keys = set(D.Dosini.known_flowir_options())
    extra = sorted(code_keys - keys)
    if extra:
        raise MachineryError("spec drift: the Dosini frontend knows legacy keywords the catalogue does not list: %s" % extra)
    # defaults of the table are only used to pick non-default values: make sure they still are the defaults
    dflt = CAT.flatten(FL.FlowIR.default_component_structure())
    for path, key, typ, section, default, classes in CAT.CATALOGUE:
        if path in dflt and typ in ("bool", "int", "float", "float01", "enum") and dflt[path] != default:
            raise MachineryError("spec drift: default of %s is %r in FlowIR, %r in the catalogue" % (path, dflt[path], default))
    chk.assumptions.append("options of the FlowIR component schema without a legacy keyword (outside the property's quantifier): " +
                           "; ".join("%s -- %s" % (p, r) for p, r in sorted(CAT.UNSUPPORTED.items())))
    return sorted(keys - code_keys)


# ---------------------------------------------------------------------------------------------------------------
# 2. TLC

def write_cfg(name, family, tier, emit, fault="none", invariants=INVARIANTS, extra=""):
    path = os.path.join(GEN, name)
    with open(path, "w") as f:
        f.write('CONSTANTS\n  Family = "%s"\n  Tier = "%s"\n  Emit = %s\n  Fault = "%s"\nSPECIFICATION Spec\n' % (
            family, tier, "TRUE" if emit else "FALSE", fault))
        for inv in invariants:
            f.write("INVARIANT %s\n" % inv)
        if emit:
            f.write("INVARIANT EmitCase\n")
        f.write(extra)
        f.write("CHECK_DEADLOCK FALSE\n")
    return path


LIB = ["-DTLA-Library=%s" % GEN]


def run_models(chk, tier):
    """Returns {family: [cases]}"""
    jobs = []
    for fam in FAMILIES:
        ftier = tier if fam in ("options", "names") else "quick"       # the other families are already exhaustive for their constants
        jobs.append(("emit", fam, write_cfg("Dosini_%s_%s.cfg" % (fam, tier), fam, ftier, True)))
    for fault, fam in sorted(FAULTS.items()):
        jobs.append(("fault", fault, write_cfg("Dosini_fault_%s.cfg" % fault, fam, "quick", False, fault=fault, invariants=("RoundTrip",))))
    jobs.append(("coverage", "variables", write_cfg("Dosini_cov.cfg", "variables", "quick", False)))

    def one(job):
        kind, what, cfg = job
        try:
            if kind == "emit":
                return job, tlc.run_tlc("Dosini", cfg, workers=1, timeout=1500, jvm=LIB)
            if kind == "coverage":
                return job, tlc.run_tlc("Dosini", cfg, workers=4, timeout=600, jvm=LIB, coverage=True)
            return job, tlc.run_tlc("Dosini", cfg, workers=2, timeout=600, jvm=LIB, expect_violation=True)
        except Exception as e:         # re-raised in the main thread
            return job, e

    with ThreadPoolExecutor(max_workers=8) as ex:
        results = list(ex.map(one, jobs))
    cases = {}
    for (kind, what, cfg), r in results:
        if isinstance(r, Exception):
            raise r if isinstance(r, MachineryError) else MachineryError("TLC driver failed for %s: %r" % (cfg, r))
        if kind == "emit":
            if not r["ok"]:
                raise MachineryError("Dosini.tla (%s): %s fails on the model:\n%s" % (what, r["violated"], r["out"][-3000:]))
            if not r["cases"]:
                raise MachineryError("TLC emitted no case for family %s" % what)
            cases[what] = r["cases"]
            chk.add_tlc(r)
        elif kind == "coverage":
            if not r["ok"]:
                raise MachineryError("Dosini.tla: %s fails on the model:\n%s" % (r["violated"], r["out"][-3000:]))
            for act in ("Dump", "Load", "Redump", "Reload"):
                if not r["coverage"].get(act):
                    raise MachineryError("action %s of Dosini.tla never taken (vacuous run): %s" % (act, r["coverage"]))
            chk.add_tlc(r)
        elif kind == "fault":
            if r["violated"] != "RoundTrip":
                raise MachineryError("Dosini.tla: fault %s does not violate RoundTrip (the invariant is vacuous): %s" % (what, r["out"][-1500:]))
            chk.cov.setdefault("faults_detected_on_model", []).append(what)
    # reachability witnesses: the interesting shapes are among the states TLC reached (every emitted case is a reached state
    # "loaded" in which all invariants were evaluated)
    def has(fam, pred):
        return any(pred(c) for c in cases.get(fam, []))

    witnesses = {
        "pair of options folded into one component": has("options", lambda c: len(c["opts"]) == 2 and c["layer"] == "component"),
        "global variable overridden by stage 1": has("variables", lambda c: any(x["scope"] == "global" and any(
            y["scope"] == "stage1" and y["name"] == x["name"] for y in c["vars"]) for x in c["vars"])),
        "global = component # stage": has("variables", lambda c: {(v["scope"], v["val"]) for v in c["vars"]} >= {("global", "A"), ("stage1", "B"), ("comp:c", "A")}),
        "environment names gcc and gcc-7 together": has("names", lambda c: sorted(e["name"] for e in c["envs"]) == ["gcc", "gcc-7"]),
        "stage index >= 10 with status": has("names", lambda c: c["nstages"] == CAT.MANY_STAGES and len(c["status"]) == CAT.MANY_STAGES),
        "rewrite with fewer stages": has("history", lambda c: c["previous"]["nstages"] > c["nstages"]),
        "rewrite with more stages": has("history", lambda c: c["previous"]["nstages"] < c["nstages"]),
    }
    missing = sorted(k for k, v in witnesses.items() if not v)
    if missing:
        raise MachineryError("Dosini.tla: reachability witnesses not found among the reached states: %s" % missing)
    chk.cov["witnesses_reached"] = sorted(witnesses)
    return cases


# ---------------------------------------------------------------------------------------------------------------
# 3. rendering of abstract cases

VAR_TEXT = {"punct": "%s|%s = a:b \"q r\" $X", "plain": "%s-%s", "empty": "", "ref": "<%%(V)s> of %s %s", "percent": "%s %s 100%% at +%%H"}
ENV_TEXT = {"dollar": "/opt/%s/bin:$PATH", "plain": "/opt/%s/bin:/usr/bin", "empty": "", "percent": "%%n@%s 100%%"}
DESC_TEXT = {"plain": "energies of %s", "punct": 'a: b = c "q r" ; # x', "percent": "yield in % (+%Y)"}


def var_value(scope, name, cls):
    t = VAR_TEXT[cls]
    return t % (scope, name) if t.count("%s") == 2 else t


def resolved_var_value(scope, name, cls):
    v = var_value(scope, name, cls)
    if cls == "ref":
        v = v.replace("%(V)s", var_value("global", "V", "punct"))
    return v


def base_document(backend):
    prod = {"name": "prod", "stage": 0, "command": {"executable": "echo", "arguments": "produce"}}
    c = {"name": "c", "stage": 1, "command": {"executable": "echo", "arguments": "consume"},
         "resourceManager": {"config": {"backend": backend}}}
    if backend == "simulator":
        # the simulator's options are plain variables for the legacy format
        c["variables"] = {"sim_range_execution_time": "1:2", "sim_range_schedule_overhead": "0.5", "sim_expected_exit_code": "0"}
    return {"components": [prod, c], "variables": {"default": {"global": {}, "stages": {}}},
            "environments": {"default": {}}, "blueprint": {"default": {"global": {}, "stages": {}}}}


def render_case(case, atoms):
    """-> (FlowIR document, expectations)"""
    doc = base_document(case["backend"])
    c = doc["components"][1]
    by_name = {"prod": doc["components"][0], "c": c}
    for comp in sorted(case["expected"]["comps"], key=lambda x: (x["stage"], x["name"])):
        if comp["name"] not in by_name:
            # further components of the names family / one filler per additional stage: the name is part of the command
            extra = {"name": comp["name"], "stage": comp["stage"], "command": {"executable": "echo", "arguments": "run <%s>" % comp["name"]}}
            doc["components"].append(extra)
            by_name[comp["name"]] = extra
    exp = {"opts": {n: {} for n in by_name}, "vars": {n: {} for n in by_name},
           "stage": {x["name"]: x["stage"] for x in case["expected"]["comps"]}}
    if case["backend"] == "simulator":
        exp["vars"]["c"].update(c["variables"])
    gvars = doc["variables"]["default"]["global"]
    target = {"component": c, "global": doc["blueprint"]["default"]["global"],
              "stage": doc["blueprint"]["default"]["stages"].setdefault(1, {})}[case["layer"]]
    resolved = {}
    extra_envs = []
    for idx in case["opts"]:
        a = atoms[idx]
        value, gv, want = CAT.render_atom(a)
        CAT.set_path(target, a["path"], copy.deepcopy(value))
        gvars.update(gv)
        resolved[idx] = want
        if case["layer"] != "component":
            # the base components must not override what the blueprint sets
            for comp in (doc["components"] if case["layer"] == "global" else [c]):
                leaf = a["path"].split(".")[-1]
                if a["path"].startswith("command.") and leaf in comp["command"]:
                    del comp["command"][leaf]
        if a["type"] == "envname":
            doc["environments"]["default"]["MyEnv"] = {"PATH": "/opt/my/bin:$PATH", "K": "v w"}
            extra_envs = ["myenv"]
    if not doc["blueprint"]["default"]["stages"].get(1):
        doc["blueprint"]["default"]["stages"].pop(1, None)
    for e in case["expected"]["explicit"]:
        if e["src"] == "atom":
            exp["opts"][e["comp"]][e["path"]] = resolved[e["n"]]
        elif e["src"] == "backend":
            exp["opts"][e["comp"]][e["path"]] = e["a"]
        else:
            raise MachineryError("unexpected expected-value source %r" % (e,))
    exp["isRepeat"] = {n: n in case["expected"]["isRepeat"] for n in by_name}
    # variables
    for v in case["vars"]:
        scope, name, cls = v["scope"], v["name"], v["cls"]
        val = var_value(v["val"], name, cls)        # `val` identifies the text (= the scope, or A / B in the layering cases)
        if scope == "global":
            gvars[name] = val
        elif scope.startswith("stage"):
            doc["variables"]["default"]["stages"].setdefault(int(scope[5:]), {})[name] = val
        else:
            by_name[scope[len("comp:"):]].setdefault("variables", {})[name] = val
    cls_of = {(v["val"], v["name"]): v["cls"] for v in case["vars"]}
    for e in case["expected"]["vars"]:
        if e["src"] == "var":
            exp["vars"][e["comp"]][e["name"]] = resolved_var_value(e["scope"], e["name"], cls_of[(e["scope"], e["name"])])
        elif e["src"] == "refvar":
            a = atoms[e["n"]]
            _, gv, _ = CAT.render_atom(a)
            exp["vars"][e["comp"]].update(gv)
    # environments
    for e in case["envs"]:
        env = {}
        for n in e["vars"]:
            env[n] = ENV_TEXT[e["cls"]].replace("%s", e["name"]) if n == "PATH" else 'a=b c:d "q" of %s in %s' % (n, e["name"])
        doc["environments"]["default"][e["name"]] = env
    exp["envs"] = sorted(set(case["expected"]["envs"]) | set(extra_envs))
    if case["apps"]:
        doc["application-dependencies"] = {"default": ["CAF.application", "Tools-v2.application"][:case["apps"]]}
    if case["venvs"]:
        doc["virtual-environments"] = {"default": ["pycaf", "py-venv.2"][:case["venvs"]]}
    # status
    if case["status"]:
        st = {}
        for k, s in enumerate(case["status"]):
            e = {"stage-weight": s["w"] / 10000.0}
            form = s["form"]
            if form != "weight":
                e["executable"] = "bin/status tool.sh"
            if form in ("exeArgs", "exeArgsRefs2"):
                e["arguments"] = "stage%d --key=value a:b \"q r\"" % k
            nrefs = {"exeRefs1": 1, "exeArgsRefs2": 2}.get(form, 0)
            if nrefs:
                e["references"] = ["stage0.prod:ref", "stage0.prod/out.txt:copy"][:nrefs]
            st[k] = e
        doc["status-report"] = st
    # output
    if case["output"]:
        out = {}
        for o in case["output"]:
            e = {"data-in": "prod/out.csv:ref" if o["datain"] == "rel" else "stage1.c/out.csv:copy"}
            if o["desc"] != "absent":
                e["description"] = DESC_TEXT[o["desc"]].replace("%s", o["name"]) if o["desc"] == "plain" else DESC_TEXT[o["desc"]]
            if o["type"] != "absent":
                e["type"] = o["type"]
            if o["stages"] != "absent":
                e["stages"] = {"idx0": [0], "idx01": [0, 1], "name0": ["stage0"], "idxLast": [case["nstages"] - 1]}[o["stages"]]
            out[o["name"]] = e
        doc["output"] = out
    return doc, exp


# ---------------------------------------------------------------------------------------------------------------
# execution on the real frontend

class Env:
    def __init__(self):
        import logging
        logging.disable(logging.CRITICAL)
        import experiment.model.frontends.dosini as D
        import experiment.model.frontends.flowir as FL
        self.D, self.FL = D, FL


def to_instance(env, doc, inject):
    conc = env.FL.FlowIRConcrete(copy.deepcopy(doc), "default", {})
    # exactly what DOSINIExperimentConfiguration passes (conf.py); inject=True is what tests/test_dosini.py:test_dump_instance uses
    return conc.instance(ignore_errors=True, inject_missing_fields=inject, fill_in_all=False, is_primitive=True)


def write_and_read(env, instance, directory, previous=None):
    # dump(update_existing=True) removes stale stage files itself; the other files of a previous case are removed here
    # (cheaper than removing the directory for every case)
    for name in ("status.conf", "output.conf", "variables.conf", "experiment.instance.conf"):
        try:
            os.remove(os.path.join(directory, name))
        except OSError:
            pass
    for name in os.listdir(os.path.join(directory, "stages.d")) if os.path.isdir(os.path.join(directory, "stages.d")) else []:
        os.remove(os.path.join(directory, "stages.d", name))
    dos = env.D.Dosini()
    if previous is not None:
        # family "history": an older description was written into the same directory before (nothing is cleaned in between)
        dos.dump(previous, directory, update_existing=True, is_instance=True)
        dos._dump_status(previous, directory)
        dos._dump_output(previous, directory)
    dos.dump(instance, directory, update_existing=True, is_instance=True)
    dos._dump_status(instance, directory)
    dos._dump_output(instance, directory)
    errors = []
    loaded = env.D.Dosini().load_from_directory(directory, [], {}, is_instance=True, out_errors=errors)
    return loaded


def stage_index(env, x):
    return env.FL.FlowIR.stage_identifier_to_stage_index(x)


def view_of(env, flowir):
    """The resolved view the property talks about."""
    conc = env.FL.FlowIRConcrete(copy.deepcopy(flowir), "default", {})
    view = {"components": {}, "environments": {}, "status": {}, "output": {}}
    for cid in sorted(conc.get_component_identifiers(True)):
        cfg = conc.get_component_configuration(cid, raw=False, include_default=True)
        flat = CAT.flatten(cfg)
        view["components"]["stage%d.%s" % cid] = flat
    for name in sorted(conc.get_environments("default")):
        view["environments"][name] = {k: str(v) for k, v in conc.get_environment(name, "default").items()}
    view["applications"] = list(conc.get_application_dependencies("default"))
    view["virtualenvs"] = list(conc.get_virtual_environments("default"))
    for k, e in conc.get_status().items():
        e = e or {}
        # M6: arguments/references only exist next to an executable; absent = empty
        has_exe = bool(e.get("executable"))
        view["status"][stage_index(env, k)] = {
            "stage-weight": None if e.get("stage-weight") is None else float(e.get("stage-weight")),
            "executable": e.get("executable") or None,
            "arguments": (e.get("arguments") or "") if has_exe else "",
            "references": list(e.get("references") or []) if has_exe else []}
    for name, e in conc.get_output().items():
        view["output"][name] = {"data-in": e.get("data-in"), "description": e.get("description"), "type": e.get("type"),
                                "stages": [stage_index(env, s) for s in (e.get("stages") or [])]}
    return view


def same(a, b):
    if isinstance(a, bool) or isinstance(b, bool):
        return isinstance(a, bool) and isinstance(b, bool) and a == b
    if isinstance(a, (int, float)) and isinstance(b, (int, float)):
        return abs(a - b) <= 1e-9 * max(1.0, abs(a), abs(b))
    if isinstance(a, (list, tuple)) and isinstance(b, (list, tuple)):
        return len(a) == len(b) and all(same(x, y) for x, y in zip(a, b))
    if isinstance(a, dict) and isinstance(b, dict):
        return set(a) == set(b) and all(same(a[k], b[k]) for k in a)
    return type(a) == type(b) and a == b


def diff_views(written, loaded):
    """-> list of (where, path, written value, loaded value)"""
    out = []
    for comp in sorted(set(written["components"]) | set(loaded["components"])):
        fa, fb = written["components"].get(comp), loaded["components"].get(comp)
        if fa is None or fb is None:
            out.append(("component", comp, "present" if fa else ABSENT, "present" if fb else ABSENT))
            continue
        for k in sorted(set(fa) | set(fb)):
            va, vb = fa.get(k, ABSENT), fb.get(k, ABSENT)
            if k.startswith("variables."):
                # the legacy format carries text: variables are compared as text
                if str(va) != str(vb):
                    out.append((comp, k, va, vb))
            elif not same(va, vb):
                out.append((comp, k, va, vb))
    for sec in ("environments", "status", "output"):
        for name in sorted(set(written[sec]) | set(loaded[sec]), key=str):
            ea, eb = written[sec].get(name, ABSENT), loaded[sec].get(name, ABSENT)
            if ea is ABSENT or eb is ABSENT:
                out.append((sec, str(name), ea, eb))
                continue
            for k in sorted(set(ea) | set(eb)):
                if not same(ea.get(k, ABSENT), eb.get(k, ABSENT)):
                    out.append((sec, "%s.%s" % (name, k), ea.get(k, ABSENT), eb.get(k, ABSENT)))
    for sec in ("applications", "virtualenvs"):
        if written[sec] != loaded[sec]:
            out.append(("environments", "SANDBOX.%s" % sec, written[sec], loaded[sec]))
    return out


def check_against_spec(view, exp):
    """The spec's expected explicit options / variables hold in a view -> list of mismatches"""
    bad = []
    want_comps = {"stage%d.%s" % (k, n) for n, k in exp["stage"].items()}
    for extra in sorted(set(view["components"]) - want_comps):
        bad.append(("component", extra, ABSENT, "present"))
    if sorted(view["environments"]) != exp["envs"]:
        bad.append(("environments", "names", exp["envs"], sorted(view["environments"])))
    for comp in sorted(exp["stage"]):
        flat = view["components"].get("stage%d.%s" % (exp["stage"][comp], comp))
        if flat is None:
            bad.append(("component", "stage%d.%s" % (exp["stage"][comp], comp), "present", ABSENT))
            continue
        for path, want in exp["opts"][comp].items():
            if path.startswith("executors.main."):
                main = [e for e in flat.get("executors.main", []) or [] if e.get("name") == "docker"]
                got = main[0].get(path.split(".")[-1], ABSENT) if main else ABSENT
            else:
                got = flat.get(path, ABSENT)
            if not same(got, want):
                bad.append((comp, path, want, got))
        if flat.get("workflowAttributes.isRepeat", False) != exp["isRepeat"][comp]:
            bad.append((comp, "workflowAttributes.isRepeat", exp["isRepeat"][comp], flat.get("workflowAttributes.isRepeat")))
        got_vars = {k[len("variables."):]: v for k, v in flat.items() if k.startswith("variables.")}
        want_vars = exp["vars"][comp]
        for n in sorted(set(got_vars) | set(want_vars)):
            if str(got_vars.get(n, ABSENT)) != str(want_vars.get(n, ABSENT)):
                bad.append((comp, "variables." + n, want_vars.get(n, ABSENT), got_vars.get(n, ABSENT)))
    return bad


def execute_case(env, case, atoms, scratch, second_round=True):
    """-> dict(stage = where it stopped, error, diffs, diffs2, spec_bad)"""
    res = {"stage": "done", "error": None, "diffs": [], "diffs2": [], "spec_bad": [], "machinery": None}
    try:
        doc, exp = render_case(case, atoms)
        instance = to_instance(env, doc, case["inject"])
        written = view_of(env, instance)
        previous = None
        if case.get("previous"):
            previous = to_instance(env, render_case(case["previous"], atoms)[0], case["previous"]["inject"])
    except Exception as e:
        res["machinery"] = "the harness built an instance the real FlowIR cannot resolve (case %s): %r" % (case_label(case, atoms), e)
        return res
    bad = check_against_spec(written, exp)
    if bad:
        res["machinery"] = "the rendered instance is not the one the spec describes (case %s): %s" % (case_label(case, atoms), bad[:3])
        return res
    d1 = os.path.join(scratch, "rt1")
    try:
        loaded = write_and_read(env, instance, d1, previous=previous)
    except Exception as e:
        tb = traceback.extract_tb(e.__traceback__)
        site = [f.name for f in tb if f.filename.endswith("dosini.py")]
        res.update(stage="write-read", error="%s: %s (in %s)" % (type(e).__name__, e, "/".join(site[-2:]) or "?"), exc=type(e).__name__)
        return res
    try:
        got = view_of(env, loaded)
    except Exception as e:
        res.update(stage="resolve-loaded", error="resolving the loaded description raised %s: %s" % (type(e).__name__, str(e)[:300]), exc=type(e).__name__)
        return res
    res["diffs"] = diff_views(written, got)
    res["spec_bad"] = check_against_spec(got, exp)
    if second_round and not res["diffs"]:
        d2 = os.path.join(scratch, "rt2")
        try:
            inst2 = env.FL.FlowIRConcrete(loaded, "default", {}).instance(
                ignore_errors=True, inject_missing_fields=case["inject"], fill_in_all=False, is_primitive=True)
            loaded2 = write_and_read(env, inst2, d2)
            got2 = view_of(env, loaded2)
            res["diffs2"] = diff_views(got, got2)
        except Exception as e:
            res.update(stage="second-round", error="second round raised %s: %s" % (type(e).__name__, str(e)[:300]), exc=type(e).__name__)
    return res


def is_layering(case):
    return case["fam"] == "variables" and any(v["val"] in ("A", "B") for v in case["vars"])


def one_chain(case):
    """layering cases that touch the chain of a single component (global/stage1/comp:c or global/stage0/comp:prod): 2 x 3^3 assignments"""
    scopes = {v["scope"] for v in case["vars"]}
    return scopes <= {"global", "stage1", "comp:c"} or scopes <= {"global", "stage0", "comp:prod"}


def layering_pattern(case, comp):
    """global/stage/component texts of the variable as the component sees them, first text renamed to A ('-' = not defined)"""
    stage = "stage0" if comp == "prod" else "stage1"
    chain = []
    for scope in ("global", stage, "comp:" + comp):
        vals = [v["val"] for v in case["vars"] if v["scope"] == scope]
        chain.append(vals[0] if vals else "-")
    first = next((x for x in chain if x != "-"), "A")
    return "/".join("-" if x == "-" else ("A" if x == first else "B") for x in chain)


def failed(res):
    return bool(res["error"] or res["diffs"] or res["diffs2"] or res["spec_bad"])


def case_label(case, atoms):
    fam = case["fam"]
    if fam == "options":
        return "options[%s] backend=%s layer=%s inject=%s" % (
            ", ".join("%s=%s" % (atoms[i]["path"], atoms[i]["cls"]) for i in case["opts"]), case["backend"], case["layer"], case["inject"])
    if fam == "variables":
        return "variables[%s]" % ", ".join("%s.%s=%s" % (v["scope"], v["name"], v["val"] if is_layering(case) else v["cls"])
                                            for v in sorted(case["vars"], key=lambda v: (v["scope"], v["name"])))
    if fam == "environments":
        return "environments[%s] apps=%d venvs=%d" % (", ".join("%s{%s}:%s" % (e["name"], ",".join(sorted(e["vars"])), e["cls"])
                                                                for e in sorted(case["envs"], key=lambda e: e["name"])), case["apps"], case["venvs"])
    if fam == "status":
        return "status[%s]" % ", ".join("%s@%s" % (s["form"], s["w"]) for s in case["status"])
    if fam == "history":
        def shape(c):
            return "%d stages%s%s" % (c["nstages"], " +" + ",".join(c["comps"]) if c["comps"] else "", " +env,vars,status,output" if c["status"] else "")
        return "history[written first: %s; then into the same directory: %s]" % (shape(case["previous"]), shape(case))
    if fam == "names":
        what = {"env": sorted(e["name"] for e in case["envs"]), "envvar": sorted(n for e in case["envs"] for n in e["vars"]),
                "comp": sorted(case["comps"]), "var": sorted("%s@%s" % (v["name"], v["scope"]) for v in case["vars"]),
                "out": sorted(o["name"] for o in case["output"]),
                "stages": ["%d stages" % case["nstages"]] + (["status"] if case["status"] else []) + (["variables"] if case["vars"] else []) +
                          (["output"] if case["output"] else [])}[case["kind"]]
        return "names[%s: %s]" % (case["kind"], ", ".join(what))
    return "output[%s]" % ", ".join("%s:%s/desc=%s/type=%s/stages=%s" % (o["name"], o["datain"], o["desc"], o["type"], o["stages"])
                                     for o in sorted(case["output"], key=lambda o: o["name"]))


def describe(res):
    if res["error"]:
        return res["error"]
    parts = []
    for comp, path, a, b in (res["diffs"] or res["diffs2"])[:4]:
        parts.append("%s %s: written %r, read back %r" % (comp, path, a, b))
    if not parts:
        for comp, path, a, b in res["spec_bad"][:4]:
            parts.append("%s %s: specified %r, read back %r" % (comp, path, a, b))
    if res["diffs2"] and not res["diffs"]:
        parts.insert(0, "second write/read of the description read back")
    return "; ".join(parts)


# ---------------------------------------------------------------------------------------------------------------
# keys: canonical class of the failing INPUT

def atom_class_key(a):
    """root causes that belong to a value class, whatever the option"""
    if a["cls"] == "percent":
        return "roundtrip:value:lone-percent"
    if a["type"] == "bool" and a["cls"] == "varrefMixed":
        return "roundtrip:bool-option:varref-mixed-case-name"
    return None


def signature(res):
    """what went wrong, as a set: used only to ATTRIBUTE a failure to the part of the input that causes it"""
    if not res or not failed(res):
        return frozenset()
    if res["error"]:
        return frozenset([("error", res["stage"], res.get("exc"))])
    if res["diffs"]:
        return frozenset((c, p) for c, p, a, b in res["diffs"])
    if res["diffs2"]:
        return frozenset(("2", c, p) for c, p, a, b in res["diffs2"])
    return frozenset((c, p) for c, p, a, b in res["spec_bad"])


def round_suffix(res):
    return ":second-round" if (res["diffs2"] or res["stage"] == "second-round") and not res["diffs"] else ""


def option_keys(results, atoms):
    """results: list of (case, res) of the options family -> ({id(case): [keys]}, base signatures)

    A failure is attributed, in this order, to (1) the context when the same case WITHOUT any option fails the same way,
    (2) the option when its primary value class fails the same way, (3) the value class."""
    primary_of = {a["path"]: a["idx"] for a in atoms.values() if a["primary"]}
    base = {}              # (backend, inject) -> signature of the case without options
    single = {}            # (idx, backend, layer, inject) -> signature
    for case, res in results:
        if not case["opts"]:
            base[(case["backend"], case["inject"])] = signature(res)
        elif len(case["opts"]) == 1:
            single[(case["opts"][0], case["backend"], case["layer"], case["inject"])] = signature(res)

    def base_sig(case):
        return base.get((case["backend"], case["inject"]), frozenset())

    def contexts_failing(idx):
        return sorted((b, l, i) for (j, b, l, i), sg in single.items() if j == idx and sg - base.get((b, i), frozenset()))

    def context_suffix(idx):
        ctxs = contexts_failing(idx)
        plain = [b for b, l, i in ctxs if l == "component" and not i]
        tested = [b for (j, b, l, i) in single if j == idx and l == "component" and not i]
        if plain:
            return "" if len(plain) == len(tested) else "@backend=" + "+".join(plain)
        layers = sorted({l for b, l, i in ctxs if l != "component"})
        if layers:
            return "@layer=" + "+".join(layers)
        return "@all-fields-injected" if ctxs else ""

    def atom_key(idx, case, own):
        a = atoms[idx]
        prim = primary_of[a["path"]]
        if idx != prim:
            psig = single.get((prim, case["backend"], case["layer"], case["inject"]))
            if psig is None:     # the primary class is always enumerated in the same contexts; be safe
                psig = frozenset().union(*[sg for (j, b, l, i), sg in single.items() if j == prim and l == case["layer"] and i == case["inject"]] or [frozenset()])
            if own & (psig - base_sig(case)):
                return "roundtrip:%s%s" % (a["path"], context_suffix(prim))       # the option, not this value class
            return (atom_class_key(a) or "roundtrip:%s:%s" % (a["path"], a["cls"])) + context_suffix(idx)
        return "roundtrip:%s%s" % (a["path"], context_suffix(idx))

    def context_key(case):
        ctx = []
        if case["backend"] != "local" and not base.get(("local", case["inject"])):
            ctx.append("backend=" + case["backend"])
        if case["inject"] and not base.get((case["backend"], False)):
            ctx.append("all-fields-injected")
        return "roundtrip:no-option-set" + ("@" + "+".join(ctx) if ctx else "")

    keys = {}
    for case, res in results:
        if not failed(res):
            continue
        sg, bs = signature(res), base_sig(case)
        own = sg - bs
        opts = case["opts"]
        if not opts or not own:
            keys[id(case)] = [context_key(case) + round_suffix(res)]
        elif len(opts) == 1:
            keys[id(case)] = [atom_key(opts[0], case, own) + round_suffix(res)]
        else:
            alone = {i: single.get((i, case["backend"], case["layer"], case["inject"]), frozenset()) - bs for i in opts}
            culprits = [i for i in opts if own & alone[i]]
            rest = own - frozenset().union(*alone.values())
            ks = [atom_key(i, case, own & alone[i]) + round_suffix(res) for i in culprits]
            if rest or not culprits:
                ks.append("roundtrip:pair:%s+%s%s" % (atoms[opts[0]]["path"], atoms[opts[1]]["path"], round_suffix(res)))
            keys[id(case)] = ks
    return keys, base


def name_traits(name):
    """character classes / relations of a name of the alphabet (what the section or keyword syntax could mangle)"""
    t = []
    if "-" in name:
        t.append("hyphen")
    if "." in name:
        t.append("dot")
    if "_" in name:
        t.append("underscore")
    if ":" in name or "=" in name:
        t.append("delimiter")
    if name[:1].isdigit():
        t.append("leading-digit")
    if name != name.lower():
        t.append("upper-case")
    if name.lower().startswith("env") or name.lower().startswith("stage") or name.lower().startswith("meta") or name.lower().startswith("default") \
            or name.lower().startswith("sandbox"):
        t.append("starts-like-a-section")
    return t or ["plain"]


def names_of(case):
    return {"env": [e["name"] for e in case["envs"]], "envvar": [n for e in case["envs"] for n in e["vars"]], "comp": list(case["comps"]),
            "var": [v["name"] for v in case["vars"]], "out": [o["name"] for o in case["output"]], "stages": []}[case["kind"]]


def names_keys(results):
    """results: (case, res) of the names family -> {id(case): [keys]}.
    roundtrip:names:<kind>:<character classes of the name that does not survive>; a pair of names is attributed to the name(s)
    that fail alone, otherwise to the relation between the two names (prefix / case / two names)."""
    alone = {}                     # (kind, name) -> traits, for names that fail on their own
    for case, res in results:
        ns = names_of(case)
        if failed(res) and len(ns) == 1:
            alone[(case["kind"], ns[0])] = frozenset(name_traits(ns[0]))

    def single_key(kind, name):
        mine = alone[(kind, name)]
        # the smallest set of character classes that already fails on its own explains this name as well
        smaller = sorted((t for (k, n), t in alone.items() if k == kind and t <= mine), key=lambda t: (len(t), sorted(t)))
        return "roundtrip:names:%s:%s" % (kind, "+".join(sorted(smaller[0])))

    keys = {}
    for case, res in results:
        if not failed(res):
            continue
        kind, suffix = case["kind"], round_suffix(res)
        if kind == "stages":
            parts = sorted({c if c in ("status", "output", "component") else "components" for c, p, a, b in (res["diffs"] or res["diffs2"] or res["spec_bad"])})
            keys[id(case)] = ["roundtrip:names:stage-index>=10:%s%s" % ("+".join(parts) or "write-read", suffix)]
            continue
        ns = names_of(case)
        culprits = [n for n in ns if (kind, n) in alone]
        if culprits:
            keys[id(case)] = sorted({single_key(kind, n) + suffix for n in culprits})
            continue
        a, b = sorted(ns, key=len) if len(ns) == 2 else (ns[0], ns[0])
        if a.lower() == b.lower():
            rel = "names-differ-by-case"
        elif b.lower().startswith(a.lower()):
            rel = "one-name-prefix-of-the-other"
        else:
            rel = "two-names"
        traits = sorted({t for n in ns for t in name_traits(n)})
        keys[id(case)] = ["roundtrip:names:%s:%s:%s%s" % (kind, rel, "+".join(traits), suffix)]
    return keys


def other_key(case, res, neutral_sig):
    fam = case["fam"]
    suffix = round_suffix(res)
    if neutral_sig and not (signature(res) - neutral_sig):
        return "roundtrip:no-option-set" + suffix        # the instance without anything in this section fails the same way
    if fam == "history":
        a, b = case["previous"]["nstages"], case["nstages"]
        rel = "fewer-stages" if b < a else ("more-stages" if b > a else "same-stages")
        wrong = sorted({("component" if c in ("component",) or c.startswith("stage") else c) for c, p, x, y in (res["diffs"] or res["diffs2"] or res["spec_bad"])})
        return "roundtrip:rewrite-into-same-directory:%s:%s%s" % (rel, "+".join(wrong) or "write-read", suffix)
    if fam == "variables":
        if any(v["cls"] == "percent" for v in case["vars"]):
            return "roundtrip:value:lone-percent"
        if is_layering(case):
            comps = sorted({c.split(".", 1)[1] for c, p, a, b in (res["diffs"] or res["diffs2"] or res["spec_bad"]) if c.startswith("stage")}) or ["c"]
            pats = sorted({layering_pattern(case, c) for c in comps if c in ("prod", "c")}) or [layering_pattern(case, "c")]
            return "roundtrip:variables:layering:global/stage/component=%s%s" % (pats[0], suffix)
        special = sorted({v["cls"] for v in case["vars"]} - {"punct"})
        if special:
            return "roundtrip:variables:value-%s%s" % (special[0], suffix)
        names = sorted({p.split("variables.")[-1] for c, p, a, b in (res["diffs"] or res["diffs2"] or res["spec_bad"]) if "variables." in p})
        scopes = sorted({v["scope"].split(":")[0].rstrip("01") for v in case["vars"] if not names or v["name"] in names})
        return "roundtrip:variables:%s%s" % ("+".join(scopes) or "none", suffix)
    if fam == "environments":
        if any(e["cls"] == "percent" and e["vars"] for e in case["envs"]):
            return "roundtrip:value:lone-percent"
        wrong = {p for c, p, a, b in (res["diffs"] or res["diffs2"])}
        if any(p.startswith("SANDBOX.") for p in wrong):
            return "roundtrip:sandbox:%s%s" % (sorted(p for p in wrong if p.startswith("SANDBOX."))[0].split(".")[1], suffix)
        special = sorted({e["cls"] for e in case["envs"]} - {"dollar"})
        if special:
            return "roundtrip:environment:value-%s%s" % (special[0], suffix)
        names = {p.split(".")[0] for p in wrong}
        bad = [e for e in case["envs"] if not names or e["name"].lower() in names]
        shapes = sorted({"%d-vars" % len(e["vars"]) for e in bad})
        trait = ""
        if bad and all(e["name"] != e["name"].lower() for e in bad):
            trait = ":mixed-case-name"
        elif bad and all(e["name"] == "environment" for e in bad):
            trait = ":name-environment"
        return "roundtrip:environment:%s%s%s" % ("+".join(shapes) or "none", trait, suffix)
    if fam == "status":
        wrong = sorted({p.split(".", 1)[1] for c, p, a, b in (res["diffs"] or res["diffs2"]) if "." in p})
        forms = sorted({s["form"] for s in case["status"]})
        return "roundtrip:status:%s%s" % ("+".join(wrong) if wrong else "forms-" + "+".join(forms), suffix)
    if fam == "output":
        if any(o["desc"] == "percent" for o in case["output"]):
            return "roundtrip:value:lone-percent"
        if any(o["stages"] == "name0" for o in case["output"]):
            return "roundtrip:output.stages:stage-name-identifier"
        wrong = sorted({p.split(".", 1)[1] for c, p, a, b in (res["diffs"] or res["diffs2"]) if "." in p})
        if suffix and wrong and set(wrong) <= {"description", "type"}:
            # the entry read back carries description/type = null; that is the input of the second write
            return "roundtrip:output:null-description-or-type" + suffix
        return "roundtrip:output:%s%s" % ("+".join(wrong) if wrong else "entry", suffix)
    return "roundtrip:%s" % fam


# ---------------------------------------------------------------------------------------------------------------

def case_key(case):
    return (case["fam"], case["backend"], case["layer"], case["inject"], tuple(case["opts"]),
            json.dumps([case["vars"], case["envs"], case["apps"], case["venvs"], case["status"], case["output"], case["comps"], case["nstages"]],
                       sort_keys=True)) + ((case_key(case["previous"]),) if case.get("previous") else ())


def order_key(case):
    """simplest cases first: the first failing case of a key becomes its replay file"""
    return (FAMILIES.index(case["fam"]), len(case["opts"]), case["backend"] != "local", case["layer"] != "component", case["inject"],
            len(case["vars"]) + len(case["envs"]) + len(case["output"]) + len(case["comps"]) + case["nstages"]
            + (case["previous"]["nstages"] + len(case["previous"]["comps"]) + len(case["previous"]["status"]) if case.get("previous") else 0), case_key(case))


def normalise_case(case):
    case["opts"] = sorted(case["opts"])
    case["vars"] = sorted(case["vars"], key=lambda v: (v["scope"], v["name"]))
    case["envs"] = sorted(case["envs"], key=lambda e: e["name"])
    for e in case["envs"]:
        e["vars"] = sorted(e["vars"])
    case["output"] = sorted(case["output"], key=lambda o: o["name"])
    case["comps"] = sorted(case.get("comps", []))
    case.setdefault("nstages", 2)
    case.setdefault("kind", "")
    if case.get("previous"):
        normalise_case(case["previous"])
    return case


_W = {}


def _work(item):
    """Runs in a forked worker process: cases are independent, results are collected in the order of the sorted case list."""
    case, second = item
    scratch = os.path.join(_W["scratch"], "w%d" % os.getpid())
    os.makedirs(scratch, exist_ok=True)
    try:
        return execute_case(_W["env"], case, _W["atoms"], scratch, second_round=second)
    except Exception:
        return {"stage": "?", "error": None, "diffs": [], "diffs2": [], "spec_bad": [], "machinery": "harness failure: " + traceback.format_exc()[-1500:]}


def run_cases(chk, env, cases_by_family, atoms):
    import multiprocessing
    scratch = os.path.join(chk.scratch, "rt")
    os.makedirs(scratch, exist_ok=True)
    all_results = {}
    work = []
    for fam in FAMILIES:
        cases = sorted((normalise_case(c) for c in cases_by_family.get(fam, [])), key=order_key)
        for case in cases:
            # quick tier: the second write/read is done for single options and for the section families; thorough: always
            second = chk.tier == "thorough" or fam != "options" or len(case["opts"]) <= 1
            work.append((case, second))
    _W.update(env=env, atoms=atoms, scratch=scratch)
    nproc = max(1, min(8, (os.cpu_count() or 2) // 2))
    with multiprocessing.get_context("fork").Pool(nproc) as pool:
        outcomes = pool.map(_work, work, chunksize=16)
    for (case, second), res in zip(work, outcomes):
        if res.get("machinery"):
            raise MachineryError(res["machinery"])
        all_results.setdefault(case["fam"], []).append((case, res))
        chk.evaluated(case_key(case))
        if not failed(res):
            chk.trace_validated(2 if second else 1)       # Dump;Load (and Redump;Reload) followed by the code
    # keys + reporting
    okeys, base = option_keys(all_results.get("options", []), atoms)
    neutral = base.get(("local", False), frozenset())
    nkeys = names_keys(all_results.get("names", []))
    reported = {}
    for fam in FAMILIES:
        for case, res in all_results.get(fam, []):
            if not failed(res):
                continue
            if fam == "options":
                keys = okeys.get(id(case))
            elif fam == "names" and (not neutral or signature(res) - neutral):
                keys = nkeys[id(case)]
            else:
                keys = [other_key(case, res, neutral)]
            for key in keys:
                n = reported.get(key, 0)
                reported[key] = n + 1
                # one replay file per key is enough (the first, i.e. smallest, case); all are counted
                if n == 0 or key in chk.known_keys:
                    chk.violation(key, "%s: %s" % (case_label(case, atoms), describe(res)), {"case": case})
    if chk.tier == "thorough":
        run_other_hash_seeds(chk, all_results, atoms, reported)
    chk.cov["failing_cases_per_key"] = reported
    return all_results


def seed_worker(path_in, path_out):
    """Entry point of a helper process started with another PYTHONHASHSEED (the loader iterates over sets of option names)."""
    data = json.load(open(path_in))
    env = Env()
    atoms = {a["idx"]: a for a in CAT.atoms()}
    out = []
    for case in data["cases"]:
        out.append(execute_case(env, case, atoms, data["scratch"], second_round=False))
    with open(path_out, "w") as f:
        json.dump(out, f, default=str)


def run_other_hash_seeds(chk, all_results, atoms, reported):
    """thorough: the single options and the pairs inside a section once more under PYTHONHASHSEED 1 and 2"""
    import subprocess
    import sys
    from ..common import VERIF
    cases = [c for c, r in all_results.get("options", []) if c["layer"] == "component" and not c["inject"]
             and (len(c["opts"]) == 0 or all(atoms[i]["primary"] for i in c["opts"]))
             and (len(c["opts"]) < 2 or len({atoms[i]["section"] for i in c["opts"]}) == 1)
             and c["backend"] in ("local", "lsf", "kubernetes")]
    for seed in (1, 2):
        pin, pout = os.path.join(chk.scratch, "seed%d_in.json" % seed), os.path.join(chk.scratch, "seed%d_out.json" % seed)
        with open(pin, "w") as f:
            json.dump({"cases": cases, "scratch": os.path.join(chk.scratch, "seed%d" % seed)}, f)
        e = dict(os.environ, PYTHONHASHSEED=str(seed))
        p = subprocess.run([sys.executable, "-W", "ignore", "-c",
                            "import sys; sys.path.insert(0, %r); from harness.checks import c19; c19.seed_worker(%r, %r)" % (VERIF, pin, pout)],
                           env=e, capture_output=True, text=True, timeout=1200)
        if p.returncode != 0:
            raise MachineryError("helper process for PYTHONHASHSEED=%d failed: %s" % (seed, (p.stdout + p.stderr)[-1500:]))
        outcomes = json.load(open(pout))
        results = list(zip(cases, outcomes))
        for case, res in results:
            if res.get("machinery"):
                raise MachineryError(res["machinery"])
            chk.evaluated(("seed", seed) + case_key(case))
        keys, _ = option_keys(results, atoms)
        for case, res in results:
            if not failed(res):
                chk.trace_validated()
                continue
            for key in keys[id(case)]:
                if key in reported:
                    continue            # same class already reported under the default hash seed
                key = "%s@hashseed" % key
                n = reported.get(key, 0)
                reported[key] = n + 1
                if n == 0 or key in chk.known_keys:
                    chk.violation(key, "PYTHONHASHSEED=%d %s: %s" % (seed, case_label(case, atoms), describe(res)), {"case": case, "hashseed": seed})


def observe_inexpressible(chk, env, atoms):
    """Values without a legacy text: executed, reported as observations, never as violations."""
    for a in atoms.values():
        if a["expr"]:
            continue
        case = {"fam": "options", "backend": "local", "layer": "component", "inject": False, "opts": [a["idx"]], "vars": [], "envs": [],
                "apps": 0, "venvs": 0, "status": [], "output": [], "comps": [], "nstages": 2, "kind": "",
                "expected": {"comps": [{"name": "prod", "stage": 0}, {"name": "c", "stage": 1}],
                             "explicit": [{"comp": "c", "path": CAT.BACKEND[0], "src": "backend", "a": "local", "n": 0},
                                          {"comp": "c", "path": a["path"], "src": "atom", "a": a["path"], "n": a["idx"]}],
                             "isRepeat": [], "vars": [], "envs": []}}
        res = execute_case(env, case, atoms, os.path.join(chk.scratch, "inexpr"), second_round=False)
        if res.get("machinery"):
            raise MachineryError(res["machinery"])
        chk.assumptions.append("value without a legacy text (outside the quantifier): %s=%s -- %s; observed: %s" % (
            a["path"], a["cls"], CAT.INEXPRESSIBLE[(a["path"], a["cls"])], describe(res) if failed(res) else "round-trips"))


def check_configuration_class(chk, env, atoms, cases, layering=()):
    """conf.py anchor: DOSINIExperimentConfiguration writes the instance files when it is created from a legacy package
    (FlowIRConcrete.instance of the unreplicated description + Dosini.dump(is_instance=True)) and a second one reads them
    (is_instance=True).  The property is applied to exactly these two objects: the description the first one wrote against the
    description the second one loaded.  Done for the single-option cases of the primary classes (component layer)."""
    import experiment.model.conf as conf
    import experiment.model.errors as errors
    n, unusable, seen = 0, [], {}
    root = os.path.join(chk.scratch, "pkg")
    for case in list(cases) + list(layering):
        if is_layering(case):
            # the layering of one variable over global / stage / component scope, through the configuration class
            key = "configuration-class:roundtrip:variables:layering"
        else:
            if len(case["opts"]) != 1 or case["layer"] != "component" or case["inject"]:
                continue
            a = atoms[case["opts"][0]]
            if not a["primary"] or case["backend"] != {"resourceManager.lsf": "lsf", "resourceManager.kubernetes": "kubernetes"}.get(a["section"], "local"):
                continue
            if a["type"] in ("envname", "reflist", "docker"):
                # the configuration class validates the package: undefined producers/environments and the legacy docker executor
                # (rejected by the FlowIR schema: executors.main must be empty) cannot be instantiated
                continue
            key = "configuration-class:" + ("roundtrip:%s" % a["path"])
        doc, exp = render_case(case, atoms)
        if case["backend"] == "kubernetes":
            doc["components"][1]["resourceManager"].setdefault("kubernetes", {}).setdefault("image", "registry.example/img:1")
        shutil.rmtree(root, ignore_errors=True)
        os.makedirs(os.path.join(root, "conf"))
        try:
            package = env.FL.FlowIRConcrete(copy.deepcopy(doc), "default", {}).instance(ignore_errors=True, inject_missing_fields=False,
                                                                                       fill_in_all=False, is_primitive=True)
            env.D.Dosini().dump(package, os.path.join(root, "conf"), update_existing=True, is_instance=False)
        except Exception as e:
            raise MachineryError("cannot prepare the legacy package for %s: %r" % (case_label(case, atoms), e))
        chk.evaluated(("conf",) + case_key(case))
        try:
            c1 = conf.DOSINIExperimentConfiguration(root, "default", [], {}, is_instance=False, createInstanceFiles=True, primitive=True)
        except errors.ExperimentInvalidConfigurationError as e:
            # the PACKAGE (not the instance) was refused: nothing was written, the property says nothing; counted, not judged
            unusable.append("%s: %s" % (case_label(case, atoms), str(e)[:200].replace("\n", " ")))
            continue
        except Exception as e:
            chk.violation(key, "%s: writing the instance files from the legacy package raised %s: %s" % (case_label(case, atoms), type(e).__name__, str(e)[:300]),
                          {"case": case, "via": "configuration-class"})
            continue
        try:
            c2 = conf.DOSINIExperimentConfiguration(root, "default", [], {}, is_instance=True, createInstanceFiles=False, primitive=True)
        except Exception as e:
            chk.violation(key, "%s: reading the instance files just written raised %s: %s" % (case_label(case, atoms), type(e).__name__, str(e)[:300]),
                          {"case": case, "via": "configuration-class"})
            continue
        bad = []
        for cid in sorted(c1._concrete.get_component_identifiers(True)):
            f1 = CAT.flatten(c1._concrete.get_component_configuration(cid, raw=False, include_default=True))
            f2 = CAT.flatten(c2._concrete.get_component_configuration(cid, raw=False, include_default=True))
            for k in sorted(set(f1) | set(f2)):
                va, vb = f1.get(k, ABSENT), f2.get(k, ABSENT)
                if (str(va) != str(vb)) if k.startswith("variables.") else (not same(va, vb)):
                    bad.append("stage%d.%s %s: package configuration %r, instance configuration %r" % (cid[0], cid[1], k, va, vb))
        n += 1
        if bad:
            if is_layering(case):
                comp = "prod" if ".prod " in bad[0] else "c"
                key += ":global/stage/component=" + layering_pattern(case, comp)
            seen[key] = seen.get(key, 0) + 1
            if seen[key] == 1 or key in chk.known_keys:        # one replay file per key; every case is counted
                chk.violation(key, "%s via DOSINIExperimentConfiguration: %s" % (case_label(case, atoms), "; ".join(bad[:3])),
                              {"case": case, "via": "configuration-class"})
        else:
            chk.trace_validated()
    chk.cov["configuration_class_packages_refused"] = unusable[:5]
    chk.cov["configuration_class_failing_cases_per_key"] = seen
    return n, len(unusable)


def check_configuration_class_history(chk, env, atoms, cases):
    """conf.py anchor, histories: a legacy package is instantiated (instance files written), the package is replaced by one with
    fewer / more / the same number of stages and instantiated again in the same directory (updateInstanceFiles=True), then the
    instance is loaded.  Compared: the configuration that wrote the instance files the second time against the one that read them."""
    import experiment.model.conf as conf
    import experiment.model.errors as errors
    root = os.path.join(chk.scratch, "pkg_history")
    n, refused, seen = 0, 0, {}

    def package(case):
        doc, _ = render_case(case, atoms)
        return env.FL.FlowIRConcrete(copy.deepcopy(doc), "default", {}).instance(ignore_errors=True, inject_missing_fields=False,
                                                                                fill_in_all=False, is_primitive=True)

    for case in cases:
        prev = case["previous"]
        if case["comps"] or prev["comps"] or bool(case["status"]) != bool(prev["status"]):
            continue
        confdir = os.path.join(root, "conf")
        shutil.rmtree(root, ignore_errors=True)
        os.makedirs(confdir)
        a, b = prev["nstages"], case["nstages"]
        key = "configuration-class:roundtrip:rewrite-into-same-directory:%s" % ("fewer-stages" if b < a else ("more-stages" if b > a else "same-stages"))
        chk.evaluated(("conf-history",) + case_key(case))
        try:
            env.D.Dosini().dump(package(prev), confdir, update_existing=True, is_instance=False)
            conf.DOSINIExperimentConfiguration(root, "default", [], {}, is_instance=False, createInstanceFiles=True, primitive=True)
            # the package is replaced (only the instance files of the first instantiation stay in the directory)
            for base, _, files in os.walk(confdir):
                for f in files:
                    if not f.endswith(".instance.conf"):
                        os.remove(os.path.join(base, f))
            env.D.Dosini().dump(package(case), confdir, update_existing=True, is_instance=False)
        except errors.ExperimentInvalidConfigurationError:
            refused += 1
            continue
        except Exception as e:
            raise MachineryError("cannot prepare the legacy packages for %s: %r" % (case_label(case, atoms), e))
        try:
            c1 = conf.DOSINIExperimentConfiguration(root, "default", [], {}, is_instance=False, createInstanceFiles=True, primitive=True,
                                                    updateInstanceFiles=True)
            c2 = conf.DOSINIExperimentConfiguration(root, "default", [], {}, is_instance=True, createInstanceFiles=False, primitive=True)
        except errors.ExperimentInvalidConfigurationError as e:
            bad = ["loading the instance files raised %s" % str(e)[:300].replace("\n", " ")]
            c1 = c2 = None
        else:
            bad = []
            ids1, ids2 = set(c1._concrete.get_component_identifiers(True)), set(c2._concrete.get_component_identifiers(True))
            for cid in sorted(ids1 ^ ids2):
                bad.append("component stage%d.%s: %s in the configuration that wrote the files, %s in the one that read them" % (
                    cid[0], cid[1], "present" if cid in ids1 else "absent", "present" if cid in ids2 else "absent"))
            for cid in sorted(ids1 & ids2):
                f1 = CAT.flatten(c1._concrete.get_component_configuration(cid, raw=False, include_default=True))
                f2 = CAT.flatten(c2._concrete.get_component_configuration(cid, raw=False, include_default=True))
                for k in sorted(set(f1) | set(f2)):
                    va, vb = f1.get(k, ABSENT), f2.get(k, ABSENT)
                    if (str(va) != str(vb)) if k.startswith("variables.") else (not same(va, vb)):
                        bad.append("stage%d.%s %s: written %r, read %r" % (cid[0], cid[1], k, va, vb))
            if c1._concrete.get_stage_number() != c2._concrete.get_stage_number():
                bad.append("number of stages: written %d, read %d" % (c1._concrete.get_stage_number(), c2._concrete.get_stage_number()))
        n += 1
        if bad:
            seen[key] = seen.get(key, 0) + 1
            if seen[key] == 1 or key in chk.known_keys:
                chk.violation(key, "%s via DOSINIExperimentConfiguration: %s" % (case_label(case, atoms), "; ".join(bad[:3])),
                              {"case": case, "via": "configuration-class-history"})
        else:
            chk.trace_validated()
    chk.cov["configuration_class_history"] = {"cases": n, "packages_refused": refused, "failing_cases_per_key": seen}
    return n, refused


def run(tier):
    chk = Check(PID, tier)
    try:
        return _run(chk, tier)
    except BaseException:
        shutil.rmtree(chk.scratch, ignore_errors=True)       # a machinery error must not leave scratch files behind
        raise


def _run(chk, tier):
    os.makedirs(GEN, exist_ok=True)
    atoms = {a["idx"]: a for a in CAT.generate_tla(os.path.join(GEN, "DosiniCatalogue.tla"))}
    env = Env()
    missing_keywords = check_drift(chk, env.FL, env.D)
    cases = run_models(chk, tier)
    if missing_keywords:
        chk.assumptions.append("keywords of the catalogue the frontend does not list as known (their cases decide): %s" % missing_keywords)
    results = run_cases(chk, env, cases, atoms)
    observe_inexpressible(chk, env, atoms)
    nconf, refused = check_configuration_class(chk, env, atoms, [c for c, r in results.get("options", [])],
                                               layering=[c for c, r in results.get("variables", []) if is_layering(c) and one_chain(c)])
    nh, rh = check_configuration_class_history(chk, env, atoms, [c for c, r in results.get("history", [])])
    nconf, refused = nconf + nh, refused + rh
    for fam in FAMILIES:
        for case, res in results.get(fam, [])[:1]:
            chk.sample({"family": fam, "case": case_label(case, atoms), "result": "round-trips" if not failed(res) else describe(res)}, limit=8)
    chk.cov["cases_per_family"] = {fam: len(results.get(fam, [])) for fam in FAMILIES}
    chk.cov["cases_via_configuration_class"] = nconf
    chk.cov["rule"] = ("options: every (option, value class) atom of the catalogue alone x {5 backends at component level; global / stage blueprint; "
                       "all-fields-injected instance}, every pair of options inside a section x 5 backends (thorough: every pair of options across "
                       "sections, every pair of value classes inside a section, all layers x injection); variables: every subset of "
                       "{global, stage0, stage1, comp} x {v, V} + value classes + the layering of one name over global/stage0/stage1/comp:prod/comp:c with "
                       "texts absent/A/B in every scope (3^5 assignments: equal and different values between scopes; also through DOSINIExperimentConfiguration); environments: {absent, empty, 1, 2 variables}^3 names x "
                       "application-dependencies 0..2 x virtual-environments 0..2 + value classes; status: 4 weight pairs x 5 forms^2; output: every "
                       "well-formed entry + pairs of entries whose names differ by case; names: every single name and every pair of names of the explicit alphabet "
                       "of the catalogue (hyphen, dot, underscore, digits, mixed case, prefix pairs gcc/gcc-7 env/env-2, names containing the ENV prefix, "
                       "':' '=' in section headers, keywords in another case) as environment, environment variable, component, variable (x scopes) and output "
                       "name, and an instance with 11 stages (STAGE10, stage10.instance.conf); history: every ordered pair of 16 shapes ({2,3,4,11} stages x extra component x "
                       "with/without environments+variables+status+output) written one after the other into the SAME directory (update_existing) and then "
                       "loaded, also through DOSINIExperimentConfiguration(updateInstanceFiles=True). Quick tier: option pairs on their native backend only. "
                       "Every case is written and read twice by the real frontend.")
    chk.cov["exhaustive"] = True
    chk.assumptions += [
        "legitimate differences (tests/test_dosini.py:test_dump_instance): global variables migrate into the stage variables, the loaded instance has no "
        "blueprint and only the default platform; the comparison is made on the RESOLVED component configuration, where these are invisible",
        "variables and environment values are text in the legacy format: they are compared as text (an int 5 and '5' are the same variable value)",
        "values are whitespace-stripped single- or continuation-line texts; leading/trailing blanks, indentation of continuation lines and "
        "empty collections (= absent) have no legacy representation and are not generated",
        "names reserved by the legacy format are not used for components / environments: %s; variables are not named like legacy keywords" % (CAT.RESERVED_SECTION_NAMES,),
        "names come from the explicit alphabet of the catalogue; not generated because the INI syntax has no way to write them: names that start "
        "with '#', ';' or '[' , ':' or '=' inside option names (variables, environment variables), two environment names that differ only by case",
        "status: arguments/references exist only next to an executable; output: absent description/type = null, stage identifiers stageN = N",
        "the instance is produced by FlowIRConcrete.instance() with the flags conf.py uses (inject_missing_fields=False) and the ones the project's test uses (True)",
    ]
    rc = chk.finish()
    if rc == 0 and refused > nconf:
        raise MachineryError("the configuration class refused most generated legacy packages (%d of %d): the harness no longer builds valid packages" % (refused, refused + nconf))
    return rc


def replay(path):
    d = json.load(open(path))
    chk = Check(PID, "quick")
    atoms = {a["idx"]: a for a in CAT.atoms()}
    env = Env()
    case = normalise_case(d["replay"]["case"])
    if d["replay"].get("via") == "configuration-class-history":
        check_configuration_class_history(chk, env, atoms, [case])
        return chk.finish()
    if d["replay"].get("via") == "configuration-class":
        check_configuration_class(chk, env, atoms, [case])
        return chk.finish()
    seed = d["replay"].get("hashseed")
    if seed is not None and os.environ.get("PYTHONHASHSEED") != str(seed):
        import subprocess
        import sys
        e = dict(os.environ, PYTHONHASHSEED=str(seed), VERIF_NO_REEXEC="1")
        shutil.rmtree(chk.scratch, ignore_errors=True)
        return subprocess.run([sys.executable, os.path.join(os.path.dirname(SPEC), "check"), PID, "--replay", path], env=e).returncode
    res = execute_case(env, case, atoms, os.path.join(chk.scratch, "rt"))
    if res.get("machinery"):
        raise MachineryError(res["machinery"])
    chk.evaluated(case_key(case))
    print("case: %s" % case_label(case, atoms))
    if failed(res):
        chk.violation(d["key"], "%s: %s" % (case_label(case, atoms), describe(res)), {"case": case})
    else:
        print("round-trips")
    return chk.finish()
