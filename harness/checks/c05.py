"""C05 -- DoWhile unrolling is wired correctly for any number of iterations.  Spec: spec/DoWhile.tla

1. TLC checks the clauses of C05 (and that the controller's inspections, action Inspect, leave the workflow unchanged) (ExactInstances, CarriedFromPrevious, OthersFromOriginal, SameIterationInside,
   NoStageDrift, LatestIsHighest, AggregateInOrder, OutsideResolution, ConditionFromNewest) on every reachable state of the unrolling state
   machine for every document shape of the family (import stage, 1-2 looped components, body stages, with/without
   loopBindings and which component carries them, the binding naming the producer's stdout or a FILE of it with
   :output / :ref / :copy (the path written in the binding values or in the consumer's reference `inp/state.txt:<method>`), condition producer (a looped component or a separate one, in either
   document stage), replication inside the loop, names one of which
   ends in the other, the same document imported twice) up to MaxK >= 12 iterations; coverage guard on Iterate; the
   named deviation LexAgreesWithNumeric is run with the expectation of a violation (witness that the model reaches
   the region where string order and numeric order of iteration numbers differ).
2. spec -> code, history replay: TLC emits every reachable state (shape, k, instances with their references, latest,
   order, cond).  For every shape a real package (conf/flowir_package.yaml + conf/dowhile.yaml) is written, a real
   instance directory and Experiment are created, and WorkflowGraph.instantiate_dowhile_next_iteration is called
   k times.  After EACH call the real graph is projected and compared with the TLC state for that (shape, k):
   node set, references / command line / predecessors of every instance, placeholder 'latest' and 'represents',
   DataReference.resolve() of :ref/:output/:loopref/:loopoutput references from outside the loop (paths and file
   contents), their dependency on the current condition producer, ComponentSpecification.producers of the outside consumers, the DoWhile 'state', the returned names.
"""
import json
import os
import shutil
import sys

from ..common import Check, MachineryError, SPEC
from .. import tlc

PID = "C05"
INVARIANTS = ["TypeOK", "ExactInstances", "CarriedFromPrevious", "OthersFromOriginal", "SameIterationInside",
              "NoStageDrift", "LatestIsHighest", "AggregateInOrder", "OutsideResolution", "ConditionFromNewest", "ConditionExists"]
METHS = ["ref", "output", "loopref", "loopoutput"]
AGG = ("loopref", "loopoutput")


# ----------------------------------------------------------------------------------------------------------------
# abstract shape -> real package
def names_of(sh):
    """role -> component name.  plain names are the ones of the repository's own tests (one is a suffix of the other);
    replicated shapes use unrelated names (replication next to a name that ends in the replicated one is C03's subject)"""
    if sh["repl"]:
        n = {"W": "work", "A": "gather"}
    else:
        n = {"W": "add", "A": "fake_add"}
    n["gen"], n["src"], n["fix"], n["S"] = "gen", "src", "fix", "stop"
    if sh["names"] == "tricky":
        n["W"] = "src"      # same name as the outside producer the binding `fix` points to (different stage)
    return n


def off(sh, d):
    return sh["off"] + 2 * (d - 1)


def body(sh, r):
    return sh["sw"] if r == "W" else sh["sa"] if r == "A" else sh["sc"]


def loops(sh):
    return [1, 2] if sh["twin"] else [1]


def consumed(sh):
    return ["W", "A"] if sh["aux"] else ["W"]


def roles(sh):
    return consumed(sh) + (["S"] if sh["cond"] == "S" else [])


def cond_ref(sh, stage, producer):
    """the condition: the stdout of W, a file of the others; always spelled with its stage"""
    return "stage%d.%s%s:output" % (stage, producer, "" if sh["cond"] == "W" else "/flag.txt")


def s_target(sh):
    """what the separate condition producer looks at (spec RefsOf, role S)"""
    if sh["aux"] and sh["sc"] >= sh["sa"]:
        return "A"
    if not sh["repl"] and sh["sc"] >= sh["sw"]:
        return "W"
    return None


def fixmeth(sh):
    return "output" if sh["names"] == "tricky" else "ref"


def cstage(sh):
    return off(sh, loops(sh)[-1]) + 2


def dowhile_doc(sh):
    n = names_of(sh)
    fm = fixmeth(sh)
    fixref = "%s:%s" % (n["fix"], fm)
    im = sh.get("meth", "output")
    cfile = "/state.txt" if sh.get("cfile") else ""                       # the path is part of the consumer's reference ...
    ifile = "/state.txt" if (sh.get("file") and not cfile) else ""        # ... or of the binding values
    doc = {"type": "DoWhile", "inputBindings": {"inp": {"type": im}, n["fix"]: {"type": fm}}}
    if sh["carry"] != "none":
        b = body(sh, sh["carry"])
        # the value of a loop binding may name a file of the looped component; spelled without its stage in document stage 0
        doc["loopBindings"] = {"inp": "%s%s%s:%s" % ("stage%d." % b if (b or not ifile) else "", n[sh["carry"]], ifile, im)}
    cr = sh["cond"]
    doc["condition"] = cond_ref(sh, body(sh, cr), n[cr])
    w = {"name": n["W"], "stage": sh["sw"], "command": {"executable": "echo", "arguments": "%s %s" % ("state.txt" if im == "copy" else "inp%s:%s" % (cfile, im), fixref)},      # a :copy reference is staged, not substituted
         "references": ["inp%s:%s" % (cfile, im), fixref]}
    if sh["repl"]:
        w["workflowAttributes"] = {"replicate": sh["repl"]}
    comps = [w]
    if sh["aux"]:
        wref = ("%s:output" % n["W"]) if sh["sa"] == sh["sw"] else "stage%d.%s:output" % (sh["sw"], n["W"])
        a = {"name": n["A"], "stage": sh["sa"], "command": {"executable": "echo", "arguments": "%s %s" % (fixref, wref)},
             "references": [fixref, wref]}
        if sh["repl"]:
            a["workflowAttributes"] = {"aggregate": True}
        comps.append(a)
    if cr == "S":
        t = s_target(sh)
        s = {"name": n["S"], "stage": sh["sc"], "command": {"executable": "echo", "arguments": "hello"}}
        if t:
            tref = ("%s:output" % n[t]) if body(sh, t) == sh["sc"] else "stage%d.%s:output" % (body(sh, t), n[t])
            s["command"]["arguments"] = tref
            s["references"] = [tref]
        comps.append(s)
    doc["components"] = comps
    return doc


def consumer_refs(sh, d, m):
    """references of the outside consumer c<d>-<m>: the placeholders of loop d with method m"""
    n = names_of(sh)
    rs = []
    for r in consumed(sh):
        if sh["repl"] and r == "W" and m in AGG:
            continue        # aggregate references go to the aggregating component when W replicates
        rs.append((r, "stage%d.%s:%s" % (off(sh, d) + body(sh, r), n[r], m)))
    return rs


def main_doc(sh):
    n = names_of(sh)

    def echo(name, stage, args="x", refs=None):
        c = {"name": name, "stage": stage, "command": {"executable": "echo", "arguments": args}}
        if refs:
            c["references"] = refs
        return c
    comps = [echo("gen", 0), echo("src", 0)]
    for s in range(1, cstage(sh) + 1):
        comps.append(echo("pad%d" % s, s))          # no empty stage
    for d in loops(sh):
        comps.append({"name": "loop%d" % d, "stage": off(sh, d), "$import": "dowhile.yaml",
                      "bindings": {"inp": "stage0.gen%s:%s" % ("/state.txt" if (sh.get("file") and not sh.get("cfile")) else "", sh.get("meth", "output")),
                                   n["fix"]: "stage0.src:%s" % fixmeth(sh)}})
    for d in loops(sh):
        for m in METHS:
            refs = [x[1] for x in consumer_refs(sh, d, m)]
            comps.append(echo("c%d-%s" % (d, m), cstage(sh), " ".join(refs), refs))
    return {"components": comps}


# ----------------------------------------------------------------------------------------------------------------
# rendering of the spec's state
def inst_name(sh, x):
    n = names_of(sh)
    return "stage%d.%d#%s%s" % (off(sh, x["loop"]) + body(sh, x["role"]), x["iter"], n[x["role"]],
                                "" if x["rep"] < 0 else str(x["rep"]))


def ref_producer(sh, q):
    n = names_of(sh)
    if q["iter"] < 0:
        return "stage%d.%s" % (q["stage"], n[q["prod"]])
    return "stage%d.%d#%s%s" % (q["stage"], q["iter"], n[q["prod"]], "" if q["rep"] < 0 else str(q["rep"]))


def ref_str(sh, q):
    return "%s%s:%s" % (ref_producer(sh, q), "/state.txt" if q.get("file") else "", q["meth"])


def expected_args(sh, x):
    """command line of instance x: the template's tokens in order, each rewritten as the spec's wire says"""
    # the binding `inp` resolves either to gen (original) or to the carrier; `fix` always to src
    inp = [q for q in x["refs"] if q["prod"] == "gen" or (x["role"] == "W" and q["iter"] >= 0)]
    fix = [q for q in x["refs"] if q["prod"] == "src"]
    ws = sorted([q for q in x["refs"] if x["role"] == "A" and q["prod"] == "W"], key=lambda q: q["rep"])
    if x["role"] == "S":
        return " ".join(ref_str(sh, q) for q in x["refs"]) or "hello"
    if x["role"] == "W":
        if sh.get("meth") == "copy":
            return "state.txt " + " ".join(ref_str(sh, q) for q in fix)
        toks = inp + fix
    else:
        toks = fix + ws
    return " ".join(ref_str(sh, q) for q in toks)


def key_of(sh, site, kmax):
    """canonical class of a failing case: observation site x what is special about the document x iteration range"""
    order_sites = ("placeholder-latest", "aggregate-order", "outside-resolve", "outside-producer")
    if site in order_sites and kmax >= 10:
        return "iteration-order:k>=10"
    if sh["twin"] and site == "state":
        return "state:document-imported-twice"
    if sh["names"] == "tricky" and site in ("args", "load-rejected"):
        return "args:looped-name-equals-bound-producer-name"
    cls = "twin" if sh["twin"] else "tricky-names" if sh["names"] == "tricky" else "replicated" if sh["repl"] else "plain"
    return "%s:%s:%s" % (site, cls, "k>=10" if kmax >= 10 else "k<10")


# ----------------------------------------------------------------------------------------------------------------
# the real thing
KINDS = ["init", "report", "preds", "state"]


class FakeStatus:
    def monitorComponent(self, *args, **kwargs):
        pass


class RealLoop:
    def __init__(self, sh, scratch):
        import yaml
        import experiment.model.data
        import experiment.model.storage
        self.sh = sh
        self.root = scratch
        os.makedirs(scratch, exist_ok=True)
        pk = os.path.join(scratch, "p.package")
        os.makedirs(os.path.join(pk, "conf"))
        with open(os.path.join(pk, "conf", "dowhile.yaml"), "w") as f:
            yaml.safe_dump(dowhile_doc(sh), f, sort_keys=False)
        with open(os.path.join(pk, "conf", "flowir_package.yaml"), "w") as f:
            yaml.safe_dump(main_doc(sh), f, sort_keys=False)
        pkg = experiment.model.storage.ExperimentPackage.packageFromLocation(pk)
        self.inst = experiment.model.storage.ExperimentInstanceDirectory.newInstanceDirectory(scratch, package=pkg)
        self.exp = experiment.model.data.Experiment(self.inst, is_instance=True)
        self.validation_error = None
        try:
            self.exp.validateExperiment(checkExecutables=False)
        except Exception as e:           # a valid document of the family must load; reported by the caller
            self.validation_error = e
        self.wg = self.exp.experimentGraph
        self.stdout_done = set()
        self.controller = None
        self.components = []          # the graph only keeps weak references to the ComponentState objects
        self.content = {}             # node -> what its stdout holds when it is not its own name (a condition answer)
        self.k_of_loop = {d: 0 for d in loops(sh)}
        self.unrecognised = None

    def doc_id(self, d):
        return "stage%d.loop%d" % (off(self.sh, d), d)

    def build_controller(self):
        """a real Controller on the experiment (as tests/test_control.py:new_controller); it is never run()"""
        import networkx
        import experiment.runtime.control
        import experiment.runtime.workflow
        exp = self.exp
        for job_name in networkx.topological_sort(exp.graph):
            data = exp.graph.nodes[job_name]
            stage = exp._stages[data["stageIndex"]]
            job = stage.jobWithName(data["componentSpecification"].identification.componentName)
            self.components.append(experiment.runtime.workflow.ComponentState(job, self.wg, create_engine=True))
        self.controller = experiment.runtime.control.Controller(exp)
        self.controller.initialise(exp._stages[0], FakeStatus())

    def iterate(self, d, i):
        """one more iteration of loop d.  With a controller: the runtime's own entry point (it numbers the iteration from the
        DoWhile state, creates the jobs / ComponentStates and re-parses the graph); without: the WorkflowGraph call alone."""
        meta = self.wg._documents["DoWhile"][self.doc_id(d)]
        if self.controller is None:
            return self.wg.instantiate_dowhile_next_iteration(meta["document"], i, True)
        before = set(self.wg.graph.nodes)
        if not self.answer(d, "True"):
            # the controller did not take the answer for the loop's condition: reported by the caller; go on with its entry point
            self.unrecognised = self.cond_node(d, i - 1)
            self.controller._instantiate_next_dowhile_iteration(meta)
        return sorted(set(self.wg.graph.nodes) - before)

    def cond_node(self, d, i):
        sh = self.sh
        return "stage%d.%d#%s" % (off(sh, d) + body(sh, sh["cond"]), i, names_of(sh)[sh["cond"]])

    def answer(self, d, text):
        """the condition producer of the newest iteration of loop d finishes with `text` as its condition: what
        Controller.finishedCheck does for it (lookup of the component among the registered conditions, then
        _handle_condition_component_finished, which reads the condition and unrolls on "true").  -> was it recognised"""
        import experiment.model.codes
        state = self.wg._documents["DoWhile"][self.doc_id(d)]["state"]
        spec_k = self.k_of_loop[d]
        node = self.cond_node(d, spec_k)
        cs = self.wg.graph.nodes[node]["componentSpecification"]
        wdir = self.inst.workingDirectoryForComponent(cs.identification.stageIndex, cs.identification.componentName)
        os.makedirs(wdir, exist_ok=True)
        with open(os.path.join(wdir, "out.stdout" if self.sh["cond"] == "W" else "flag.txt"), "w") as f:
            f.write(text + "\n")
        if self.sh["cond"] == "W":
            self.content[node] = text
            self.stdout_done.add(node)
        comp = self.wg.graph.nodes[node]["component"]()
        comp.controllerState = experiment.model.codes.FINISHED_STATE       # as initialise() marks finished components
        dw_name = self.controller.comp_condition_to_dowhile.get(node)
        if dw_name is None:
            return False
        self.controller._handle_condition_component_finished(comp, dw_name)
        return True

    def inspect(self, kind):
        """the read-only entry points of the controller (spec action Inspect)"""
        ctl, wg = self.controller, self.wg
        if kind == "init":
            ctl.initialise(self.exp._stages[0], FakeStatus())
        elif kind == "report":
            ctl.generate_status_report_for_nodes(None)
            ctl.generate_status_report_for_nodes(None, filter_done=True)
        elif kind == "preds":
            for p in sorted(wg._placeholders):
                ctl._comp_get_active_predecessors(p)
            for n in sorted(wg.graph.nodes):
                if "#" not in n:
                    ctl._comp_get_active_predecessors(n)
        elif kind == "state":
            for p in sorted(wg._placeholders):
                ctl.get_node_state(p)
                ctl.node_is_active(p)
        else:
            raise MachineryError("unknown inspection %s" % kind)

    def write_stdouts(self):
        """every looped instance 'has run': its stdout (and the condition file) holds its own node name"""
        for n in self.wg.graph.nodes:
            if "#" not in n or n in self.stdout_done:
                continue
            spec = self.wg.graph.nodes[n]["componentSpecification"]
            cid = spec.identification
            d = self.inst.workingDirectoryForComponent(cid.stageIndex, cid.componentName)
            os.makedirs(d, exist_ok=True)
            with open(os.path.join(d, "out.stdout"), "w") as f:
                f.write(n + "\n")
            self.stdout_done.add(n)

    def close(self):
        shutil.rmtree(self.root, ignore_errors=True)


def compare(real, st, new_names, step, every_instance=True):
    """-> list of (site, message).  st: the TLC state (shape, k, inst, latest, order, cond).
    every_instance=False: the wiring is only compared for the newest two iterations of every loop (the other clauses always)"""
    import experiment.model.graph as G
    sh, wg = st["sh"], real.wg
    n = names_of(sh)
    out = []
    g = wg.graph
    real.write_stdouts()
    # (a) node set
    exp_nodes = {"stage0.gen", "stage0.src"} | {"stage%d.pad%d" % (s, s) for s in range(1, cstage(sh) + 1)}
    for d in loops(sh):
        for m in METHS:
            if sh["repl"] and m not in AGG:
                exp_nodes |= {"stage%d.c%d-%s%d" % (cstage(sh), d, m, j) for j in range(sh["repl"])}
            else:
                exp_nodes.add("stage%d.c%d-%s" % (cstage(sh), d, m))
    inst_names = {inst_name(sh, x): x for x in st["inst"]}
    exp_nodes |= set(inst_names)
    got_nodes = set(g.nodes)
    if got_nodes != exp_nodes:
        out.append(("nodes", "node set differs: missing %s, unexpected %s" % (sorted(exp_nodes - got_nodes), sorted(got_nodes - exp_nodes))))
        return out
    # (f) names returned by the call
    if step is not None:
        d, i = step
        want_new = {nm for nm, x in inst_names.items() if x["loop"] == d and x["iter"] == i}
        if set(new_names) != want_new:
            out.append(("nodes", "iteration %d of loop %d returned %s, specified %s" % (i, d, sorted(new_names), sorted(want_new))))
    # (b) wiring of every instance (old ones must not change either)
    for nm, x in sorted(inst_names.items()):
        if not every_instance and x["iter"] < st["k"][x["loop"] - 1] - 1:
            continue
        spec = g.nodes[nm]["componentSpecification"]
        got = sorted(r.absoluteReference for r in spec.dataReferences)
        want = sorted(ref_str(sh, q) for q in x["refs"])
        if got != want:
            out.append(("wiring", "%s has references %s, specified %s" % (nm, got, want)))
        gp = sorted(g.predecessors(nm))
        wp = sorted({ref_producer(sh, q) for q in x["refs"]})
        if gp != wp:
            out.append(("edges", "%s has predecessors %s, specified %s" % (nm, gp, wp)))
        args = wg.configurationForNode(nm, raw=True)["command"]["arguments"]
        wa = expected_args(sh, x)
        if args != wa:
            out.append(("args", "%s has the command line %r, specified %r" % (nm, args, wa)))
        li = wg.configurationForNode(nm, raw=True).get("variables", {}).get("loopIteration")
        if li != x["iter"]:
            out.append(("wiring", "%s has loopIteration %r" % (nm, li)))
    # (c) placeholders, (d) state
    for d in loops(sh):
        kd = st["k"][d - 1]
        for r in roles(sh):
            reps = range(sh["repl"]) if (sh["repl"] and r == "W") else [-1]
            for j in reps:
                suffix = "" if j < 0 else str(j)
                p = "stage%d.%s%s" % (off(sh, d) + body(sh, r), n[r], suffix)
                ph = wg._placeholders.get(p)
                if ph is None:
                    out.append(("placeholder-latest", "placeholder %s is missing" % p))
                    continue

                def nm_of(i):
                    return "stage%d.%d#%s%s" % (off(sh, d) + body(sh, r), i, n[r], suffix)
                if ph["latest"] != nm_of(st["latest"][d - 1][r]):
                    out.append(("placeholder-latest", "after %d iterations placeholder %s has latest %s, specified %s" % (
                        kd, p, ph["latest"], nm_of(st["latest"][d - 1][r]))))
                want_rep = sorted(nm_of(i) for i in st["order"][d - 1][r])
                if sorted(ph["represents"]) != want_rep:
                    out.append(("placeholder-represents", "placeholder %s represents %s, specified %s" % (p, sorted(ph["represents"]), want_rep)))
        state = wg._documents["DoWhile"][real.doc_id(d)].get("state") or {}
        cr = sh["cond"]
        want_cond = cond_ref(sh, off(sh, d) + body(sh, cr), "%d#%s" % (st["cond"][d - 1], n[cr]))
        if state.get("currentIteration") != st["cond"][d - 1] or state.get("currentCondition") != want_cond:
            out.append(("state", "loop %d (k=%s of %s): state %s, specified currentIteration %d, currentCondition %s" % (
                d, kd, st["k"], state, st["cond"][d - 1], want_cond)))
    # (e) the consumers outside the loop
    stages_dir = os.path.join(real.inst.location, "stages")
    all_inst = set(inst_names)
    for d in loops(sh):
        for m in METHS:
            reps = range(sh["repl"]) if (sh["repl"] and m not in AGG) else [-1]
            for j in reps:
                cn = "stage%d.c%d-%s%s" % (cstage(sh), d, m, "" if j < 0 else str(j))
                spec = g.nodes[cn]["componentSpecification"]
                preds = set(g.predecessors(cn))
                if not preds <= all_inst:
                    out.append(("edges", "%s has predecessors outside the loops: %s" % (cn, sorted(preds - all_inst))))
                cnode = "stage%d.%d#%s" % (off(sh, d) + body(sh, sh["cond"]), st["cond"][d - 1], n[sh["cond"]])
                if cnode not in preds:
                    out.append(("condition-edge", "%s does not wait for the current condition producer %s of loop %d (predecessors %s)" % (
                        cn, cnode, d, sorted(preds))))
                drefs = {r.absoluteReference: r for r in spec.dataReferences}
                for r, _ in consumer_refs(sh, d, m):
                    suffix = str(j) if (r == "W" and j >= 0) else ""
                    ref = "stage%d.%s%s:%s" % (off(sh, d) + body(sh, r), n[r], suffix, m)
                    if ref not in drefs:
                        out.append(("wiring", "%s lost its reference %s: %s" % (cn, ref, sorted(drefs))))
                        continue

                    def nm_of(i):
                        return "%d#%s%s" % (i, n[r], suffix)

                    def full(i):
                        return "stage%d.%s" % (off(sh, d) + body(sh, r), nm_of(i))
                    sdir = os.path.join(stages_dir, "stage%d" % (off(sh, d) + body(sh, r)))
                    hi = st["latest"][d - 1][r]
                    seq = st["order"][d - 1][r]
                    try:
                        got = drefs[ref].resolve(wg)
                    except Exception as e:
                        out.append(("outside-resolve", "%s: resolving %s raised %r" % (cn, ref, e)))
                        continue
                    want = {"ref": os.path.join(sdir, nm_of(hi)), "output": real.content.get(full(hi), full(hi)),
                            "loopref": " ".join(os.path.join(sdir, nm_of(i)) for i in seq),
                            "loopoutput": " ".join(real.content.get(full(i), full(i)) for i in seq)}[m]
                    if got != want:
                        short = got.replace(stages_dir, "").split() if isinstance(got, str) else got
                        out.append(("aggregate-order" if m in AGG else "outside-resolve",
                                    "after %d iterations %s of %s resolves to %s, specified %s" % (
                                        st["k"][d - 1], ref, cn, short, want.replace(stages_dir, "").split())))
                    need = {full(i) for i in seq} if m in AGG else {full(hi)}
                    if not need <= preds:
                        out.append(("edges", "%s does not depend on %s (reference %s)" % (cn, sorted(need - preds), ref)))
                    if m not in AGG:
                        try:
                            prod = spec.producers[drefs[ref]].identification.identifier
                        except Exception as e:
                            prod = "raised %r" % (e,)
                        if prod != full(hi):
                            out.append(("outside-producer", "after %d iterations the producer of %s for %s is %s, specified %s" % (
                                st["k"][d - 1], ref, cn, prod, full(hi))))
    return out


def paths_for(sh, kmax, kmax2, tier):
    """histories (sequences of loop numbers) to execute; every state on them is compared with TLC's state"""
    if not sh["twin"]:
        return [[1] * kmax]
    ps = [[1, 2, 1, 2] + [1] * max(0, min(kmax, 3) - 2)]
    if tier == "thorough" or (sh["off"] == 1 and sh["aux"] and sh["carry"] == "A" and sh["cond"] == "A" and sh["sw"] == 0):
        ps.append([1] * kmax + [2] * kmax2)
        ps.append([2] * kmax2 + [1] * 2)
    return [[d for d in p] for p in ps]


def shape_key(sh):
    return json.dumps(sh, sort_keys=True)


def raised_by_real_code(exc):
    """did the exception come out of the code under test and not out of the
    harness (below the last harness frame the traceback runs through the `experiment` package)?  Real code that raises on a document the spec calls valid is a violation; a harness failure is a machinery error."""
    files, tb = [], exc.__traceback__
    while tb is not None:
        files.append(tb.tb_frame.f_code.co_filename)
        tb = tb.tb_next
    sep = os.sep
    harness = [i for i, f in enumerate(files) if (sep + "harness" + sep) in f]
    below = files[(harness[-1] + 1) if harness else 0:]      # what the harness called last
    return any((sep + "experiment" + sep) in f for f in below)


def run_history(args):
    """worker: one (shape, path).  Returns dict(viol=[(key, what, replay)], steps, states)"""
    sh, path, states, scratch, label = args[:5]
    via = args[5] if len(args) > 5 else "controller"
    from .. import realenv  # noqa: F401  (disables logging, imports the package)
    res = {"viol": [], "steps": 0, "label": label, "inspections": 0}
    real = None
    def raises(site, e, upto):
        if isinstance(e, MachineryError) or not raised_by_real_code(e):
            raise e
        res["viol"].append(("raises:%s:%s" % (site, type(e).__name__),
                            "shape %s path %s: %s of a valid document raised %s: %s" % (label, path[:upto], site, type(e).__name__, str(e)[:300]),
                            {"sh": sh, "path": path[:upto], "via": via}))
    try:
        try:
            real = RealLoop(sh, scratch)
        except Exception as e:
            raises("load", e, 0)
            return res
        if via == "controller":
            try:
                real.build_controller()
            except Exception as e:
                raises("controller-build", e, 0)
                real.controller = None          # go on with the graph alone
        k = {d: 0 for d in loops(sh)}
        seen = set()

        def check(step, new, after=None):
            """compare with the TLC state; after: the inspections performed since the comparison before"""
            kk = tuple(k[d] for d in loops(sh))
            st = states.get(kk)
            if st is None:
                raise MachineryError("TLC emitted no state for shape %s k=%s" % (sh, kk))
            try:
                # the wiring of every instance (old ones must not change) initially, every 4th unrolling and at the end of the history
                n_un = sum(kk)
                found = compare(real, st, new, step, every_instance=(after is None and (n_un % 4 == 0 or n_un == len(path))))
            except Exception as e:
                raises("observe", e, sum(kk))
                found = []
            if after is None:
                check.before = set(found)
            for site, msg in found:
                if after is not None:
                    if (site, msg) in check.before:
                        continue        # already wrong before the controller looked
                    key = "%s:after-controller-inspection" % site
                    msg = "after the read-only controller calls %s: %s" % (after, msg)
                else:
                    key = key_of(sh, site, max(kk))
                if (key, site) in seen and len(res["viol"]) > 6:
                    continue
                seen.add((key, site))
                res["viol"].append((key, "shape %s path %s: %s" % (label, path[:sum(kk)], msg),
                                    {"sh": sh, "path": path[:sum(kk)], "via": via}))
            res["steps"] += 1
        check.before = set()

        def inspections():
            """spec action Inspect: every kind once, the order rotates with the number of unrollings"""
            if real.controller is None:
                return
            n = sum(k.values())
            order = KINDS[n % 4:] + KINDS[:n % 4]
            for kind in order:
                try:
                    real.inspect(kind)
                except Exception as e:
                    raises("inspect-%s" % kind, e, n)
                res["inspections"] += 1
            check(None, None, after=order)
        if real.validation_error is not None:
            res["viol"].append((key_of(sh, "load-rejected", 0), "shape %s: the valid document is rejected by validateExperiment: %s" % (
                label, str(real.validation_error)[:400]), {"sh": sh, "path": []}))
        check(None, None)
        inspections()
        aborted = False
        for d in path:
            k[d] += 1
            try:
                new = real.iterate(d, k[d])
            except Exception as e:
                raises("unroll", e, sum(k.values()))
                aborted = True
                break
            real.k_of_loop[d] = k[d]
            if real.unrecognised:
                res["viol"].append(("controller-condition:not-recognised", "shape %s path %s: the condition producer %s of the newest iteration finished "
                                    "with 'True' but the Controller does not treat it as the condition of loop %d (registered: %s): no further "
                                    "iteration would be created" % (label, path[:sum(k.values())], real.unrecognised, d,
                                                                    sorted(real.controller.comp_condition_to_dowhile)),
                                    {"sh": sh, "path": path[:sum(k.values())], "via": via}))
                real.unrecognised = None
            check((d, k[d]), new)
            inspections()
        if real.controller is not None and not aborted:
            # spec action Finish: the newest condition of every loop answers "false": the loop is over, nothing is unrolled
            for d in loops(sh):
                before = set(real.wg.graph.nodes)
                try:
                    ok = real.answer(d, "False")
                except Exception as e:
                    raises("finish", e, len(path))
                    continue
                if not ok:
                    res["viol"].append(("controller-condition:not-recognised", "shape %s path %s: the Controller does not treat %s as the condition of "
                                        "loop %d (registered: %s)" % (label, path, real.cond_node(d, k[d]), d, sorted(real.controller.comp_condition_to_dowhile)),
                                        {"sh": sh, "path": path, "via": via}))
                extra = set(real.wg.graph.nodes) - before
                if extra:
                    res["viol"].append(("loop-end:unrolled-after-false", "shape %s path %s: the condition of loop %d answered 'False' but %s were created" % (
                        label, path, d, sorted(extra)), {"sh": sh, "path": path, "via": via}))
            check(None, None, after=["Finish"])
    except MachineryError:
        raise
    except Exception as e:
        import traceback
        res["error"] = "shape %s: %s\n%s" % (sh, e, traceback.format_exc())
    finally:
        if real is not None:
            real.close()
    return res


def label_of(sh):
    return "off%d%s-sw%d-sa%d-carry%s-cond%s%s%s%s%s" % (sh["off"], "-aux" if sh["aux"] else "", sh["sw"], sh["sa"], sh["carry"], sh["cond"],
                                                         "-sc%d" % sh["sc"] if sh["cond"] == "S" else "",
                                                       "-repl%d" % sh["repl"] if sh["repl"] else "", "-tricky" if sh["names"] == "tricky" else "",
                                                       "-twin" if sh["twin"] else "") + (
        "-inp_%s%s" % (sh.get("meth"), "_pathinreference" if sh.get("cfile") else "_file" if sh.get("file") else "") if (sh.get("file") or sh.get("meth", "output") != "output") else "")


def cfg_text(maxk, maxk2, offsets, names, repls, twins, emit, invariants=True, extra=""):
    def s(xs):
        return "{" + ", ".join(xs) + "}"
    body_ = ("CONSTANTS\n  MaxK = %d\n  MaxK2 = %d\n  Offsets = %s\n  NameKinds = %s\n  Repls = %s\n  Twins = %s\n  Emit = %s\n"
             "SPECIFICATION Spec\nCHECK_DEADLOCK FALSE\n") % (
        maxk, maxk2, s(str(o) for o in offsets), s('"%s"' % x for x in names), s(str(r) for r in repls),
        s("TRUE" if t else "FALSE" for t in twins), "TRUE" if emit else "FALSE")
    if invariants:
        body_ += "".join("INVARIANT %s\n" % i for i in INVARIANTS) + "PROPERTY InspectReadOnly\nPROPERTY FinishedLoopsStay\n"
    return body_ + extra


def _cfg(path, text):
    with open(path, "w") as f:
        f.write(text)
    return path


def execute(chk, jobs, procs):
    import multiprocessing as mp
    results = []
    if procs <= 1 or len(jobs) < 4:
        results = [run_history(j) for j in jobs]
    else:
        ctx = mp.get_context("fork")
        with ctx.Pool(procs) as pool:
            results = pool.map(run_history, jobs, chunksize=1)
    for job, res in zip(jobs, results):
        if res.get("error"):
            raise MachineryError("history could not be executed: " + res["error"])
        chk.trace_validated(1)
        chk.evaluated(("hist", shape_key(job[0]), tuple(job[1])), n=res["steps"])
        for key, what, rp in res["viol"]:
            chk.violation(key, what, rp)
    return results


def run(tier):
    chk = Check(PID, tier)
    gen = os.path.join(SPEC, "gen")
    os.makedirs(gen, exist_ok=True)
    thorough = tier == "thorough"
    maxk = 21 if thorough else 12          # thorough also crosses 19 -> 20 ('2' > '19' as strings)
    maxk2 = 2
    dims = dict(offsets=[0, 1, 2], names=["plain", "tricky"], repls=[0, 2], twins=[False, True])
    # 1. the design: invariants on every reachable state, coverage guard
    c1 = _cfg(os.path.join(gen, "DoWhile_mc_%s.cfg" % tier), cfg_text(maxk, maxk2, emit=False, **dims))
    r = tlc.run_tlc("DoWhile", c1, timeout=600, coverage=True)
    if not r["ok"]:
        raise MachineryError("DoWhile.tla: %s fails on the model:\n%s" % (r["violated"], r["out"][-2000:]))
    for act in ("Iterate", "Inspect", "Finish"):
        if not r["coverage"].get(act):
            raise MachineryError("action %s of DoWhile.tla never taken: %s" % (act, r["coverage"]))
    chk.add_tlc(r)
    # witness: the model reaches the region where numeral order and numeric order differ (expected violation)
    c2 = _cfg(os.path.join(gen, "DoWhile_lex_%s.cfg" % tier),
              cfg_text(maxk, 0, [0], ["plain"], [0], [False], False, invariants=False, extra="INVARIANT LexAgreesWithNumeric\n"))
    r2 = tlc.run_tlc("DoWhile", c2, workers=1, timeout=300, expect_violation=True)
    if r2["violated"] != "LexAgreesWithNumeric":
        raise MachineryError("vacuity guard: the model never reaches k >= 10 (LexAgreesWithNumeric was expected to fail): %s" % r2["out"][-1500:])
    chk.add_tlc(r2)
    # 2. states for the replay
    c3 = _cfg(os.path.join(gen, "DoWhile_emit_%s.cfg" % tier),
              cfg_text(maxk, maxk2, emit=True, invariants=False, extra="INVARIANT EmitState\nCONSTRAINT NoInspect\n", **dims))
    r3 = tlc.run_tlc("DoWhile", c3, workers=1, timeout=900)
    if not r3["ok"]:
        raise MachineryError("DoWhile.tla emission failed: %s" % r3["out"][-2000:])
    by_shape = {}
    for st in r3["cases"]:
        by_shape.setdefault(shape_key(st["sh"]), {})[tuple(st["k"])] = st
    if len(by_shape) < 150 or len(r3["cases"]) < 2 * len(by_shape):
        raise MachineryError("TLC emitted %d states of %d shapes, model has %d states" % (len(r3["cases"]), len(by_shape), r["distinct"]))
    jobs = []
    for sk in sorted(by_shape):
        states = by_shape[sk]
        sh = states[min(states)]["sh"]
        # quick: every shape is unrolled; up to 12 iterations for the shapes imported at stage 1 and the one-component loops,
        # 3 iterations for the others (thorough: all of them >= 13)
        full = thorough or (not sh["twin"] and ((sh["off"] == 1 and (sh["cond"] != "S" or sh["sc"] == 1)) or
                                                (not sh["aux"] and sh["cond"] != "S")))
        if sh.get("file") and not thorough:
            full = sh["off"] == 1 and not sh["aux"]        # file variants of the binding: 12 unrollings for the one-component loops
        if thorough:
            km = maxk if (sh["off"] == 1 and sh["names"] == "plain") else 13
        else:
            km = maxk if full else 3
        for pi, p in enumerate(paths_for(sh, km if not sh["twin"] else (km if thorough else 11), maxk2, tier)):
            lbl = label_of(sh)
            # the first history of a shape goes through a real Controller (with inspections), further ones through the graph alone
            jobs.append((sh, p, states, os.path.join(chk.scratch, "%s_%d" % (lbl, pi)), lbl, "controller" if pi == 0 else "graph"))
        if thorough and sh["off"] == 0 and not sh["twin"]:
            jobs.append((sh, [1] * 13, states, os.path.join(chk.scratch, "%s_g" % label_of(sh)), label_of(sh), "graph"))
    procs = max(1, min(8, (os.cpu_count() or 2) // 2))
    execute(chk, jobs, procs)
    chk.sample({"shape": jobs[0][0], "path": jobs[0][1], "states_compared": len(jobs[0][1]) + 1}, limit=2)
    chk.sample({"shape": jobs[-1][0], "path": jobs[-1][1], "states_compared": len(jobs[-1][1]) + 1}, limit=2)
    chk.cov["rule"] = ("every valid document shape of DoWhile.tla (%d shapes) is built as a real package and unrolled through a real "
                       "Controller (_instantiate_next_dowhile_iteration; twin extras through WorkflowGraph.instantiate_dowhile_next_iteration); after every "
                       "unrolling, and again after the controller's read-only entry points (spec action Inspect: initialise, status report, "
                       "_comp_get_active_predecessors, get_node_state), the real graph is compared with the TLC state for that (shape, k); evaluations = compared states, distinct = distinct (shape, history) pairs" % len(by_shape))
    chk.cov["exhaustive"] = True
    chk.cov["shapes"] = len(by_shape)
    chk.cov["histories"] = len(jobs)
    chk.assumptions += [
        "k <= %d for loop 1 (crosses 9 -> 10 -> 11%s), k <= %d for a second import of the same document" % (
            maxk, "; 19 -> 20 for the shapes imported at stage 1, 13 for the others" if thorough else "", maxk2),
        "documents outside the family (more than two looped components, nested loops, :copy/:link bindings) are not explored",
        "with a Controller an unrolling is driven as the runtime does it: the condition producer of the newest iteration 'finishes' (its "
        "condition file is written with True, its ComponentState is marked finished) and the harness does what finishedCheck does: look the "
        "component up among the conditions the Controller registered and call _handle_condition_component_finished; at the end of a history "
        "every loop's condition answers False (spec action Finish) and nothing more may be unrolled",
        "the Controller is built as in tests/test_control.py (ComponentState per node, initialise(stage 0)) and never run(); the order of the "
        "four inspection kinds rotates with the number of unrollings (the spec allows any order)",
        "an exception raised by the code under test while loading / unrolling / inspecting / observing a document of the family is a violation "
        "(key raises:<site>:<type>); only failures inside the harness are machinery errors",
        "the wiring of every instance is re-compared initially, every 4th unrolling and at the end of a history; in between only the two newest iterations",
        "looped instances are not executed: their stdout / condition files are written by the harness with the instance's own name",
        "edges into a consumer outside the loop are only required to contain the instance(s) the reference resolves to and to stay "
        "inside the loops (the implementation also keeps edges to earlier condition producers)",
    ] + ([] if thorough else ["quick tier: two-component loops imported at stage 0 or 2 and twin documents (except one) are unrolled 3 times only"])
    _summary(chk)
    return chk.finish()


def _summary(chk):
    """one line per violation class (the first 20 violations are printed in full by Check)"""
    per = {}
    for key, what, _ in chk.violations:
        per.setdefault(key, [0, what])
        per[key][0] += 1
    for key in sorted(per):
        print("C05 class %s: %d violation(s), e.g. %s" % (key, per[key][0], per[key][1][:300]))
    for key, n in sorted(chk.known_hit.items()):
        print("C05 known class %s: %d case(s)" % (key, n))


def replay(path):
    d = json.load(open(path))
    chk = Check(PID, "quick")
    rp = d["replay"]
    sh, p = rp["sh"], rp["path"]
    gen = os.path.join(SPEC, "gen")
    os.makedirs(gen, exist_ok=True)
    k1 = max(1, sum(1 for x in p if x == 1))
    k2 = sum(1 for x in p if x == 2)
    c = _cfg(os.path.join(gen, "DoWhile_replay_%d.cfg" % os.getpid()),
             cfg_text(k1, k2, [sh["off"]], [sh["names"]], [sh["repl"]], [sh["twin"]], True, invariants=False, extra="INVARIANT EmitState\n"))
    r = tlc.run_tlc("DoWhile", c, workers=1, timeout=300)
    os.remove(c)
    states = {tuple(st["k"]): st for st in r["cases"] if st["sh"] == sh}
    if not states:
        raise MachineryError("shape %s is not in the family of DoWhile.tla" % sh)
    execute(chk, [(sh, p, states, os.path.join(chk.scratch, "replay"), label_of(sh), rp.get("via", "controller"))], 1)
    return chk.finish()
