"""C14 -- Experiment state files are updated atomically and read back faithfully.
Spec: spec/AtomicFile.tla (protocol, deviations, specified updater, fidelity) + spec/AtomicFile_trace.tla (binding).

1. TLC on the design: whatever order the protocol actions (OpenTmp, Write, Close, Rename-of-a-complete-temp, Remove-temp)
   are taken in, under any I/O error and a crash at any point, every live file is the complete previous or the complete
   new version (Atomic, OldOrNew, CommitIsAtomic) and a reader gets the value of the last successful update (Fidelity);
   per-action coverage guard; a witness run shows that the named deviations break Atomic (the invariant is not vacuous).
2. code -> spec: the file-system operations the REAL updaters perform (harness/fsrec.py shadows open/os/shutil in the module
   namespace) are validated by TLC against AtomicFile_trace: each event is explained by a protocol action or a named
   deviation, Atomic/OldOrNew are evaluated in every recorded state.
3. spec -> code: on the fault-free traces TLC enumerates Crash@i and IOError@i for every position.  Crash@i is realised from
   the snapshot of the disk after operation i and handed to the REAL loader: it must load and equal the old or the new
   version.  IOError@i is realised by re-running the real update with operation i raising OSError; the disk afterwards goes
   to the real loader and the recorded trace goes back through TLC (2).
4. Fidelity: every update history TLC emits (an update assigns a value of one of 13 classes to ONE free-text field of the
   file or keeps everything, "keep" = re-persist the unchanged values, failed updates) is executed on the real writer and
   read back with the real loader; the result must be, field by field, the value of the last successful update.  The
   fields are the free text a file carries from the workflow definition or from the run: error description (status.txt);
   key-output description, type, name and file name, taken through the REAL path FlowIR `output` section ->
   OutputAgent.parse_key_outputs -> process_stage -> updateLogs (output.txt/json); exit reason and component name
   (status_details.json); component arguments, key-output description, variable value (flowir_instance.yaml); source
   path (manifest.yaml).

Persisted files and their real writer / loader:
  status.txt            Status.update (writeToStream)                       / Status.statusFromFile
  output.txt, .json     OutputAgent.parse_key_outputs + process_stage (updateLogs) / INI reader, json.load
  status_details.json   StatusMonitor.try_generate_status_details           / json.load
  flowir_instance.yaml  FlowIRExperimentConfiguration.store_unreplicated_flowir_to_disk (the call made after every loop
                        iteration) and ._generate_instance_files            / ExperimentConfigurationFactory (is_instance)
  manifest.yaml         FlowIRExperimentConfiguration._generate_instance_files / Manifest.fromFile
"""
import configparser
import json
import locale
import os
import shutil

from ..common import Check, MachineryError, SPEC
from .. import tlc
from .. import fsrec

PID = "C14"
CLASSES = ["plain", "newline", "optionline", "leadblank", "backslash", "equals", "colon", "percent", "hash", "semicolon",
           "section", "nonascii", "empty"]
# identifiers (the name of a key output, the name of its file) are single-line, non-empty and do not start with a blank
IDENT_CLASSES = ["plain", "backslash", "equals", "colon", "percent", "hash", "semicolon", "section", "nonascii"]
STRUCTURAL = ["plain", "newline", "optionline", "section", "equals", "colon"]       # pairs of fields explored in quick
LIVE_NAMES = ["status.txt", "output.txt", "output.json", "status_details.json", "flowir_instance.yaml", "manifest.yaml"]


def value(cls, i):
    """A concrete value of a class; i makes successive values of one class differ (same length for i < 100)."""
    tag = "%02d" % i
    return {
        "plain": "plain text " + tag,
        "newline": "first line\nsecond line " + tag + "\n\nlast",
        # continuation lines that look like an option / a YAML mapping / an option the writer emits itself
        "optionline": "Summary of run " + tag + "\nConverged: yes (see the last column)\nfinal=no further processing\nversion=7",
        "leadblank": "  indented " + tag,
        "backslash": "C:\\new\\table\\" + tag + " \\\\ \\n is two characters",
        "equals": "key=value=" + tag + " == x",
        "colon": "key: value " + tag + " :: x",
        "percent": "100% of %s and %(name)s " + tag + " %%",
        "hash": "a #b " + tag + " # not a comment",
        "semicolon": "a ;b " + tag + " ; not a comment",
        "section": "[section] " + tag,
        "nonascii": "caf\u00e9 \u20ac \u4e2d\u6587 " + tag,
        "empty": "",
    }[cls]


def _cfg(path, body):
    with open(path, "w") as f:
        f.write(body)
    return path


class Unloadable(Exception):
    pass


class NotApplicable(Exception):
    """the configuration layer refuses the value before any writer sees it (not a matter of persistence)"""


# =====================================================================================================================
# Adapters: one per real writer.  set_field() assigns one free-text field of the in-memory state the next update persists
# (set_value(): all of them), update() calls the real writer, load() runs the real loader on given bytes, want() is what
# the loader must return for the in-memory state.
# =====================================================================================================================
class Adapter:
    name = ""
    files = []            # abstract names of the live files the writer maintains
    fields = []           # free-text fields (from the workflow definition or from the run) the files carry
    pairs_quick = []      # pairs of fields whose combinations are explored in the quick tier (thorough: all pairs)
    config_time = False   # the fields are fixed when the writer is configured (a history = one assignment + n updates)
    reset_possible = False

    def __init__(self, scratch):
        self.scratch = scratch
        self.n = 0
        self.nload = 0

    def classes_for(self, field):
        return CLASSES

    def live(self):
        return [self.path[f] for f in self.files]

    def render(self, cls, i):
        return value(cls, i)

    def set_value(self, v):
        self.n += 1
        for g in self.fields:
            self.set_field(g, v, bump=False)

    def recorded_update(self, fault=None, snapshots=True):
        rec = fsrec.Recorder(self.live(), fault=fault, snapshots=snapshots)
        exc = None
        with rec.shadow(*self.modules):
            try:
                res = self.update()
            except Exception as e:          # an update that raises is a failed update; the disk decides
                res, exc = False, e
        return rec, res, exc

    def disk(self):
        out = {}
        for f in self.files:
            try:
                with open(self.path[f], "rb") as fh:
                    out[f] = fh.read()
            except FileNotFoundError:
                out[f] = None
        return out

    def load_safe(self, f, data, inplace=False):
        """projection of what the real loader returns, ("absent",) for a missing file, ("unloadable", why) on failure;
        inplace: data is what the live file holds right now (the loader may read the live file itself)"""
        if data is None:
            return ("absent",)
        self._inplace = self.path[f] if inplace else None
        try:
            return ("ok", json.dumps(self.load(f, data), sort_keys=True, default=str))
        except Exception as e:
            return ("unloadable", "%s: %s" % (type(e).__name__, str(e)[:120]))
        finally:
            self._inplace = None

    def want_safe(self, f):
        return ("ok", json.dumps(self.want(f), sort_keys=True, default=str))

    def _tmpfile(self, data, name):
        if getattr(self, "_inplace", None):
            return self._inplace
        d = os.path.join(self.scratch, "load_" + self.name)
        os.makedirs(d, exist_ok=True)
        p = os.path.join(d, name)
        with open(p, "wb") as fh:
            fh.write(data)
        return p

    def cleanup(self):
        pass


class StatusAd(Adapter):
    name = "status"
    files = ["status.txt"]
    fields = ["error-description"]     # the other entries of the status are numbers, states from a fixed list and stage%d names

    def __init__(self, scratch, tag="s"):
        super().__init__(scratch)
        import experiment.model.data as D
        self.D = D
        self.modules = [D]
        d = os.path.join(scratch, "status_" + tag, "output")
        shutil.rmtree(d, ignore_errors=True)
        os.makedirs(d)
        self.path = {"status.txt": os.path.join(d, "status.txt")}
        self.reset_possible = True
        self.reinit()

    def reinit(self):
        """a new Status object on an empty directory"""
        self.reset()
        self.n = 0
        self.st = self.D.Status(self.path["status.txt"], {}, ["stage0", "stage1"])
        self.st.setCreated("2026-01-01T00:00:00.000000+0000")
        self.desc = None
        self.set_field("error-description", None)

    def reset(self):
        d = os.path.dirname(self.path["status.txt"])
        for n in os.listdir(d):            # status.txt and the temp files failed updates leave behind
            os.remove(os.path.join(d, n))

    def set_field(self, g, v, bump=True):
        """v: text of the error description; None: there is none"""
        if bump:
            self.n += 1
        self.desc = v
        if v is None:
            self.st.removeErrorDescription()
        else:
            self.st.setErrorDescription(v)
        self.st.setExitStatus("code-%d" % self.n)
        self.st.setCost(self.n)
        self.st.setCurrentStage("stage%d" % (self.n % 2))
        self.st.setStageProgress(0.25)

    def update(self):
        return self.st.update()

    VOLATILE = ("updated", "updated-on")

    def load(self, f, data):
        p = self._tmpfile(data, "status.txt")
        st = self.D.Status.statusFromFile(p)
        return {k: "%s" % v for k, v in st.data.items() if k not in self.VOLATILE}

    def want(self, f):
        w = {"stages": "['stage0', 'stage1']", "current-stage": "stage%d" % (self.n % 2), "stage-progress": "0.25",
             "total-progress": "0", "experiment-state": "Initialising", "stage-state": "Initialising",
             "exit-status": "code-%d" % self.n, "cost": "%d" % self.n, "created-on": "2026-01-01T00:00:00.000000+0000",
             "completed-on": "N/A"}
        if self.desc is not None:
            w["error-description"] = self.desc
        return w


_ENV = {}


def _experiment(scratch, tag, flowir):
    """a real instantiated experiment whose shadow (output) directory also lives under the scratch directory"""
    from .. import realenv
    import experiment.model.storage as S
    shadow = os.path.join(scratch, "shadow")
    os.makedirs(shadow, exist_ok=True)
    if "orig_shadow" not in _ENV:
        _ENV["orig_shadow"] = S.ExperimentShadowDirectory.__dict__["temporaryShadow"]
    S.ExperimentShadowDirectory.temporaryShadow = classmethod(lambda cls, name: cls(name, shadow))
    loc = os.path.join(scratch, "exp_" + tag)
    shutil.rmtree(loc, ignore_errors=True)
    os.makedirs(loc)
    try:
        return realenv.experiment_from_flowir(flowir, loc)
    finally:
        S.ExperimentShadowDirectory.temporaryShadow = _ENV["orig_shadow"]


def _flowir():
    from .. import realenv
    return {"components": [realenv.simple_component("c", 0, args="hi")],
            "output": {"res": {"data-in": "stage0.c/out.txt:copy"}}}


class DetailsAd(Adapter):
    name = "status-details"
    files = ["status_details.json"]
    fields = ["exit-reason", "component"]       # free text from the run (value) and from the workflow definition (key)
    pairs_quick = [("exit-reason", "component")]
    reset_possible = True

    def __init__(self, scratch, tag="d"):
        super().__init__(scratch)
        import experiment.runtime.output as O
        self.modules = [O]
        self.exp = _experiment(scratch, "details_" + tag, _flowir())
        self.mon = O.StatusMonitor(self.exp, report_components=False)
        ad = self

        class DB:
            def getWorkflowStatus(self, json_friendly=True):
                return ad.doc
        self.val = {"exit-reason": None, "component": None}
        self.doc = None
        self.mon.set_status_database(DB())
        out = os.path.realpath(self.exp.instanceDirectory.outputDir)
        self.path = {"status_details.json": os.path.join(out, "status_details.json")}

    def reset(self):
        if os.path.exists(self.path["status_details.json"]):
            os.remove(self.path["status_details.json"])

    def set_field(self, g, v, bump=True):
        if bump:
            self.n += 1
        self.val[g] = v
        r = self.val["exit-reason"]
        comp = {"state": "running", "engine-exit-reason": r, "consecutive": self.n, "extra": [r, {"k": r}]}
        if r is None:
            comp.pop("engine-exit-reason")
        name = self.val["component"] if self.val["component"] is not None else "c"
        self.doc = {"stage0": {name: comp, "total": self.n}, "current-stage": "stage0"}

    def update(self):
        return self.mon.try_generate_status_details()

    def load(self, f, data):
        with open(self._tmpfile(data, f)) as fh:
            return json.load(fh)

    def want(self, f):
        return self.doc


class OutputAd(Adapter):
    """The key-output listing through the REAL path: FlowIR `output` section -> OutputAgent.parse_key_outputs ->
    process_stage (the producer's file exists) -> updateLogs -> output.txt -> ConfigurationFileToJson -> output.json"""
    name = "key-outputs"
    files = ["output.txt", "output.json"]
    fields = ["description", "type", "name", "filename"]
    pairs_quick = [("description", "type"), ("name", "description"), ("description", "filename")]
    config_time = True
    reset_possible = True
    DEFAULT = {"name": "res", "description": "what it is", "type": "csv", "filename": "out.txt"}

    def __init__(self, scratch, tag="o"):
        super().__init__(scratch)
        import experiment.runtime.output as O
        self.O = O
        self.modules = [O]
        self.tag = tag
        self.configure({})

    def classes_for(self, field):
        return IDENT_CLASSES if field in ("name", "filename") else CLASSES

    def configure(self, assign):
        """assign: field -> text (missing: the default); builds the experiment and the agent from the workflow definition"""
        from .. import realenv
        import experiment.model.errors as E
        a = dict(self.DEFAULT)
        a.update({k: v for k, v in assign.items() if v is not None})
        self.assign = a
        flowir = {"components": [realenv.simple_component("c", 0, args="hi")],
                  "output": {a["name"]: {"data-in": "stage0.c/%s:copy" % a["filename"], "description": a["description"],
                                         "type": a["type"]}}}
        try:
            self.exp = _experiment(self.scratch, "output_" + self.tag, flowir)
            self.agent = self.O.OutputAgent(self.exp)
            wd = self.exp.graph.nodes["stage0.c"]["componentInstance"].directory
            with open(os.path.join(wd, a["filename"]), "w") as f:
                f.write("data\n")
        except (E.FlowException, E.ExperimentInvalidConfigurationError, ValueError, OSError) as e:
            raise NotApplicable("%s: %s" % (type(e).__name__, str(e)[:100]))
        out = os.path.realpath(self.exp.instanceDirectory.outputDir)
        self.path = {"output.txt": os.path.join(out, "output.txt"), "output.json": os.path.join(out, "output.json")}

    def reset(self):
        for p in self.path.values():
            if os.path.exists(p):
                os.remove(p)

    def set_value(self, v):
        self.n += 1                   # every process_stage produces a new version of the listing by itself

    def set_field(self, g, v, bump=True):
        raise MachineryError("the key-output fields are fixed when the agent is configured")

    def update(self):
        return self.agent.process_stage(0)

    def load(self, f, data):
        p = self._tmpfile(data, f)
        if f == "output.json":
            with open(p) as fh:
                return json.load(fh)
        cfg = configparser.RawConfigParser()           # the INI format itself (no interpolation layer on top)
        with open(p) as fh:
            cfg.read_file(fh)
        return {s: dict(cfg.items(s)) for s in cfg.sections()}

    def load_safe(self, f, data, inplace=False):
        # output.json is derived from output.txt; a listing that does not exist yet and an empty listing both say
        # "no key output so far" (the agent writes {} when output.txt is absent): one version, not two
        return super().load_safe(f, data if data is not None else (b"{}" if f.endswith(".json") else b""))

    def want(self, f):
        """the values the agent holds (and last wrote), in the shape of the listing"""
        w = {}
        for name, info in self.agent.dataReferences.items():
            st = info["status"]
            if st["version"] == 0:
                continue
            w[name] = {"filename": os.path.split(st["lastLocation"])[1], "filepath": st["lastLocation"],
                       "description": st["description"], "type": st["type"], "creationtime": "%s" % st["creationTime"],
                       "version": "%d" % st["version"], "production": st["production"], "final": st["final"]}
        return w


class _ConfBase(Adapter):
    fields = ["arguments", "description", "variable", "manifest-source"]
    pairs_quick = [("arguments", "description"), ("variable", "manifest-source")]

    def __init__(self, scratch, tag):
        super().__init__(scratch)
        import experiment.model.conf as C
        import experiment.model.frontends.flowir as FL
        self.C, self.FL = C, FL
        self.modules = [C]
        self.exp = _experiment(scratch, self.name + "_" + tag, _flowir())
        self.conf = self.exp.experimentGraph.configuration
        cd = self.conf._conf_dir
        self.path = {"flowir_instance.yaml": os.path.join(cd, "flowir_instance.yaml"),
                     "manifest.yaml": os.path.join(cd, "manifest.yaml")}
        self.comps = [["0", "c", "echo", "hi"]]
        self.outs = {}
        self.vars = {}
        self.extra_manifest = {}
        # the loader gets its own copy of the instance directory
        self.ldir = os.path.join(scratch, "load_" + self.name + "_" + tag)
        shutil.rmtree(self.ldir, ignore_errors=True)
        os.makedirs(os.path.join(self.ldir, "conf"))
        for d in ("input", "stages", "output"):
            os.makedirs(os.path.join(self.ldir, d))
        shutil.copy(os.path.join(cd, "flowir_package.yaml"), os.path.join(self.ldir, "conf"))

    reset_possible = True

    def reset(self):
        """the instance files do not exist yet (the first time they are generated)"""
        for f in self.files:
            if os.path.exists(self.path[f]):
                os.remove(self.path[f])

    def render(self, cls, i):
        # %(name)s is FlowIR's own variable-reference syntax (an undefined variable makes the document invalid, which
        # has nothing to do with how the file is stored): the percent class has no such token here
        return value(cls, i).replace("%(name)s", "% (name)s")

    def set_field(self, g, v, bump=True):
        """what a loop iteration / a patch of the running instance does to the unreplicated FlowIR and the manifest"""
        if bump:
            self.n += 1
        if v is None:
            return
        k = len(self.comps) + len(self.outs) + len(self.vars) + len(self.extra_manifest)
        if g == "arguments":
            name = "n%d" % k
            self.conf._unreplicated.add_component({"stage": 0, "name": name,
                                                   "command": {"executable": "echo", "arguments": v}})
            self.comps.append(["0", name, "echo", v])
        elif g == "description":
            name = "ko%d" % k
            self.conf._unreplicated.add_output(name, {"data-in": "stage0.c/out.txt:copy", "description": v})
            self.outs[name] = v
        elif g == "variable":
            name = "var%d" % k
            self.conf._unreplicated.set_global_variable(name, v)
            self.vars[name] = v
        else:
            key, src = "folder%d" % k, "/data/%s/d%d:copy" % (v, k)
            self.conf._manifest.update({key: src})
            self.extra_manifest[key] = src

    def load(self, f, data):
        if f == "manifest.yaml":
            m = self.FL.Manifest.fromFile(self._tmpfile(data, f), validate=True).manifestData
            return {k: v for k, v in m.items() if k.startswith("folder")}
        with open(os.path.join(self.ldir, "conf", "flowir_instance.yaml"), "wb") as fh:
            fh.write(data)
        c = self.C.ExperimentConfigurationFactory.configurationForExperiment(
            self.ldir, is_instance=True, createInstanceFiles=False, updateInstanceFiles=False)
        if not c.is_instance:
            raise Unloadable("the loader fell back to the package definition")
        raw = c.get_unreplicated_flowir(return_copy=False).raw()
        return {"components": sorted([str(x["stage"]), x["name"], x["command"]["executable"], x["command"].get("arguments", "")]
                                     for x in raw["components"]),
                "descriptions": {k: v.get("description") for k, v in (raw.get("output") or {}).items() if k.startswith("ko")},
                "variables": {k: v for k, v in ((raw.get("variables") or {}).get("default", {}).get("global", {}) or {}).items()
                              if k.startswith("var")}}

    def want(self, f):
        if f == "manifest.yaml":
            return dict(self.extra_manifest)
        return {"components": sorted(list(x) for x in self.comps), "descriptions": dict(self.outs), "variables": dict(self.vars)}


class FlowirAd(_ConfBase):
    name = "flowir-instance"
    files = ["flowir_instance.yaml"]
    fields = ["arguments", "description", "variable"]
    pairs_quick = []

    def __init__(self, scratch, tag="f"):
        super().__init__(scratch, tag)

    def update(self):
        self.conf.store_unreplicated_flowir_to_disk()
        return True


class InstanceFilesAd(_ConfBase):
    name = "instance-files"
    files = ["flowir_instance.yaml", "manifest.yaml"]

    def __init__(self, scratch, tag="i"):
        super().__init__(scratch, tag)

    def update(self):
        errs = []
        self.conf._generate_instance_files(True, True, errs)
        if errs:
            raise errs[0]
        return True


ADAPTERS = [StatusAd, OutputAd, DetailsAd, FlowirAd, InstanceFilesAd]
FIDELITY_ADAPTERS = [StatusAd, OutputAd, DetailsAd, InstanceFilesAd]      # FlowirAd writes with the same function as InstanceFilesAd


# =====================================================================================================================
# TLC plumbing
# =====================================================================================================================
def design_runs(chk, gen, thorough):
    inv = "INVARIANT TypeOK\nINVARIANT Atomic\nINVARIANT OldOrNew\nINVARIANT Fidelity\nINVARIANT CleanUpdateCommits\nINVARIANT LatestAfterCleanUpdate\n" \
          "PROPERTY CommitIsAtomic\nCHECK_DEADLOCK FALSE\n"
    consts = ("CONSTANTS\n  Live = {\"f\", \"g\"}\n  Tmp = {\"t1\", \"t2\", \"t3\"}\n  NW = %d\n  MaxUpd = %d\n"
              "  Classes = {\"plain\", \"newline\"}\n  Fields = {\"x\", \"y\"}\n  FaultOps = {\"open\", \"write\", \"close\", \"rename\"}\n"
              "  MaxFaults = %d\n  CrashOn = TRUE\n  Emit = FALSE\n") % ((3, 3, 3) if thorough else (2, 2, 2))
    if thorough:
        consts = consts.replace('Fields = {"x", "y"}', 'Fields = {"x"}')      # 3 updates x 2 fields: 12M states, nothing new
    c = _cfg(os.path.join(gen, "AtomicFile_mc_%s.cfg" % chk.tier), consts + "SPECIFICATION Spec\n" + inv)
    r = tlc.run_tlc("AtomicFile", c, timeout=800, coverage=True)
    if not r["ok"]:
        raise MachineryError("AtomicFile.tla: %s fails on the model:\n%s" % (r["violated"], r["out"][-2000:]))
    for act in ("Begin", "UOpen", "UWrite", "UClose", "URename", "UOpenFail", "UWriteFail", "UCloseAfterFail",
                "UCloseFail", "URenameFail", "UAbort", "ULeave", "Crash"):
        if not r["coverage"].get(act):
            raise MachineryError("action %s of AtomicFile.tla never taken (vacuous run): %s" % (act, r["coverage"]))
    chk.add_tlc(r)
    # witness: with the deviations allowed Atomic must fail (the invariant is able to fail)
    c = _cfg(os.path.join(gen, "AtomicFile_witness_%s.cfg" % chk.tier),
             consts.replace("MaxUpd = 3", "MaxUpd = 1").replace("MaxUpd = 2", "MaxUpd = 1") +
             "INIT Init\nNEXT DeviantNext\nINVARIANT Atomic\nCHECK_DEADLOCK FALSE\n")
    r = tlc.run_tlc("AtomicFile", c, timeout=300, expect_violation=True)
    if r["violated"] != "Atomic":
        raise MachineryError("witness run: the deviations do not violate Atomic (vacuous invariant?)\n%s" % r["out"][-1500:])
    chk.add_tlc(r)


E1_CLASSES = ["plain", "newline", "optionline", "leadblank", "backslash", "percent", "nonascii"]


def emit_histories(chk, gen, thorough):
    """finished update histories of the specified updater, with what a reader must get, per family:
    "one": one free-text field, histories with failed updates (status.txt);  "two": two fields x, y, fault-free"""
    runs = [("one", '{"x"}', 3, E1_CLASSES, '{"write"}'), ("one", '{"x"}', 2, CLASSES, '{"write"}'),
            ("two", '{"x", "y"}', 2, CLASSES, "{}")]
    if thorough:
        runs = [("one", '{"x"}', 3, E1_CLASSES, '{"write", "rename"}'),
                ("one", '{"x"}', 2, CLASSES, '{"open", "write", "close", "rename"}'),
                ("one", '{"x"}', 4, E1_CLASSES, "{}"), ("two", '{"x", "y"}', 2, CLASSES, "{}")]
    fam = {"one": {}, "two": {}}
    for j, (label, fields, maxupd, classes, faults) in enumerate(runs):
        cls = ", ".join('"%s"' % c for c in classes)
        c = _cfg(os.path.join(gen, "AtomicFile_hist_%s_%d.cfg" % (chk.tier, j)),
                 "CONSTANTS\n  Live = {\"f\"}\n  Tmp = {\"t1\", \"t2\", \"t3\", \"t4\", \"t5\"}\n  NW = 1\n  MaxUpd = %d\n"
                 "  Classes = {%s}\n  Fields = %s\n  FaultOps = %s\n  MaxFaults = %d\n  CrashOn = FALSE\n  Emit = TRUE\n"
                 "SPECIFICATION Spec\nINVARIANT EmitHist\nINVARIANT Fidelity\nCHECK_DEADLOCK FALSE\n" % (maxupd, cls, fields, faults, maxupd))
        r = tlc.run_tlc("AtomicFile", c, workers=1, timeout=800)
        if not r["ok"]:
            raise MachineryError("AtomicFile.tla history run failed: %s\n%s" % (r["violated"], r["out"][-1500:]))
        chk.add_tlc(r)
        for case in r["cases"]:
            fam[label][json.dumps(case["hist"], sort_keys=True)] = case
    if len(fam["one"]) < 300 or len(fam["two"]) < 300:
        raise MachineryError("TLC emitted only %d / %d histories" % (len(fam["one"]), len(fam["two"])))
    return {k: [v[h] for h in sorted(v)] for k, v in fam.items()}


def tla_trace_module(traces):
    def rec(e):
        return '[op |-> "%s", path |-> "%s", dst |-> "%s", err |-> %s, done |-> %s, app |-> %s]' % (
            e["op"], e["path"], e["dst"], "TRUE" if e["err"] else "FALSE", "TRUE" if e["done"] else "FALSE",
            "TRUE" if e.get("app") else "FALSE")
    rows = []
    for t in traces:
        rows.append("  [exist |-> {%s}, enum |-> %s, ev |-> <<%s>>]" % (
            ", ".join('"%s"' % x for x in sorted(t["exist"])), "TRUE" if t["enum"] else "FALSE",
            ",\n      ".join(rec(e) for e in t["events"])))
    return "---- MODULE AtomicFile_tracedata ----\n(* generated by harness/checks/c14.py: operations recorded from the real code *)\n" \
           "Traces == <<\n" + ",\n".join(rows) + "\n>>\n====\n"


def validate_traces(chk, gen, traces, label):
    """one TLC run over a batch of recorded traces -> (verdict per trace, crash cases, ioerror cases)"""
    if not traces:
        return {}, [], []
    d = os.path.join(gen, "traces_" + label)
    shutil.rmtree(d, ignore_errors=True)
    os.makedirs(d)
    try:
        with open(os.path.join(d, "AtomicFile_tracedata.tla"), "w") as f:
            f.write(tla_trace_module(traces))
        ntmp = 1 + max([int(e[k][3:]) for t in traces for e in t["events"] for k in ("path", "dst") if e[k].startswith("tmp")] + [1])
        c = _cfg(os.path.join(d, "trace.cfg"),
                 "CONSTANTS\n  Live = {%s}\n  Tmp = {%s}\n  NW = 0\n  MaxUpd = 1\n  Classes = {\"plain\"}\n  Fields = {\"x\"}\n  FaultOps = {}\n"
                 "  MaxFaults = 0\n  CrashOn = FALSE\n  Emit = FALSE\nINIT TInit\nNEXT TNext\nINVARIANT EmitT\nCHECK_DEADLOCK FALSE\n" % (
                     ", ".join('"%s"' % x for x in LIVE_NAMES), ", ".join('"tmp%d"' % i for i in range(1, ntmp + 1))))
        r = tlc.run_tlc("AtomicFile_trace", c, workers=1, timeout=800, jvm=["-DTLA-Library=" + d])
        if not r["ok"]:
            raise MachineryError("trace validation run failed: %s\n%s" % (r["violated"], r["out"][-2500:]))
        chk.add_tlc(r)
    finally:
        shutil.rmtree(d, ignore_errors=True)
    verdicts, crashes, ioerrs = {}, [], []
    for c in r["cases"]:
        if c["kind"] == "verdict":
            verdicts[c["tid"]] = c
        elif c["kind"] == "crash":
            crashes.append(c)
        else:
            ioerrs.append(c)
    for i, t in enumerate(traces, 1):
        v = verdicts.get(i)
        if v is None:
            raise MachineryError("no verdict for trace %d (%s)" % (i, t["label"]))
        if v["stuck"]:
            raise MachineryError("AtomicFile cannot express event %d of trace %s: %s" % (v["at"] + 1, t["label"], t["events"][v["at"]]))
    return verdicts, crashes, ioerrs


# =====================================================================================================================
# Atomicity: traces, crash points, I/O error points
# =====================================================================================================================
def _events(rec):
    ev, _ = fsrec.normalise(rec.ops, rec.live)
    begin = {"op": "begin", "path": "-", "dst": "-", "err": False, "done": True, "app": False, "n": 0, "a": 0, "b": 0}
    return [begin] + ev


def _sample(lo, hi, cap):
    """indices in [lo, hi): all of them when few, else first/last three and an even spread"""
    idx = list(range(lo, hi))
    if len(idx) <= cap:
        return idx
    keep = set(idx[:3] + idx[-3:])
    step = (len(idx) - 1) / float(cap - 6)
    keep.update(idx[int(round(k * step))] for k in range(cap - 6))
    return sorted(keep)


def dev_key(devs):
    """stable key of the deviations TLC needed to explain a trace: <live file>:<deviation>"""
    return sorted("%s:%s" % (p, d) for d, p in devs)


DEV_TEXT = {
    "OpenLive": "opens the live file for writing in place (it is truncated, then filled write by write)",
    "RenameUnfinished": "renames a temporary file onto the live file although its write failed or it is still open",
    "RemoveLive": "removes the live file",
    "AppendLive": "opens the live file itself for appending, which creates it (empty) when it does not exist yet",
    "MoveLive": "renames the live file itself",
}


def atomicity(chk, ad, thorough, found):
    """Coroutine: yields a batch of recorded traces, is sent TLC's (verdicts, crash cases, ioerror cases) for it -- twice
    (fault-free traces, then the traces of the runs with an injected I/O error); returns the number of fault points realised.
    found: key -> (what, replay), shared by all writers"""
    cap = 400 if thorough else 40
    # ---- baseline: (create), update, update -- fault-free, recorded with snapshots --------------------------------
    base = []
    plan = [("plain", False), ("backslash", False)]
    if ad.reset_possible:
        plan = [("plain", True)] + plan
    for k, (cls, reset) in enumerate(plan):
        if reset:
            ad.reset()
        before = ad.disk()
        ad.set_value(ad.render(cls, k + 1))
        rec, res, exc = ad.recorded_update()
        if exc is not None:
            # the real writer raises on a valid (plain / backslash) value without any injected fault: a violation, not a
            # failure of the machinery; the writer is not examined further
            key = "%s:fault-free-update-raises:%s" % (ad.files[0], type(exc).__name__)
            if key not in found:
                found[key] = ("%s: a fault-free update with %s values raised %s: %s" % (ad.name, cls, type(exc).__name__, str(exc)[:200]),
                              {"kind": "atomic", "adapter": ad.name})
            yield []
            yield []
            return 0
        after = ad.disk()
        base.append({"label": "%s#%d" % (ad.name, k), "cls": cls, "reset": reset, "rec": rec, "events": _events(rec),
                     "exist": [f for f in ad.files if before[f] is not None], "enum": True,
                     "old": {f: ad.load_safe(f, before[f]) for f in ad.files},
                     "new": {f: ad.load_safe(f, after[f]) for f in ad.files},
                     "want": {f: ad.want_safe(f) for f in ad.files}})
    verdicts, crashes, ioerrs = yield base
    def report(key, what, replay):
        if key not in found:
            found[key] = (what, replay)

    def ops_text(t):
        return " ".join("%s(%s%s%s%s)" % (x["op"], x["path"], "->" + x["dst"] if x["dst"] != "-" else "",
                                         "x%d" % x["n"] if x["n"] > 1 else "", "!" if x["err"] else "") for x in t["events"][1:])

    def report_devs(v, t, ctx, replay):
        """Atomic / OldOrNew is false in a recorded state of trace t (verdict v of TLC)"""
        if not (v["atomicBadAt"] or v["oldNewBadAt"]):
            return False
        at = v["atomicBadAt"] or v["oldNewBadAt"]
        if not v["dev"]:
            report("%s:protocol" % ad.files[0], "%s: %s: invariant Atomic/OldOrNew of AtomicFile is false after event %d although only "
                   "protocol actions were needed: %s" % (ad.name, ctx, at, ops_text(t)), replay)
        for d, p in v["dev"]:
            report("%s:%s" % (p, d), "%s %s: the writer %s; Atomic is false from event %d of the recorded operations on -- a crash "
                   "there leaves neither the complete previous nor the complete new version.  Operations: %s" % (
                       ad.name, ctx, DEV_TEXT[d], at, ops_text(t)), replay)
        return True

    for i, t in enumerate(base, 1):
        chk.trace_validated()
        v = verdicts[i]
        # a fault-free update must publish what was intended (fidelity of a single update; histories are checked elsewhere)
        for f in ad.files:
            if t["new"][f] != t["want"][f] and t["cls"] == "plain":
                report("%s:fidelity:plain" % f, "%s: after a fault-free update the real loader returns %s, written %s" % (
                    ad.name, _show(t["new"][f]), _show(t["want"][f])), {"kind": "atomic", "adapter": ad.name})
        report_devs(v, t, "(fault-free update)", {"kind": "atomic", "adapter": ad.name})
    # ---- Crash@i: the snapshot after operation i goes to the real loader ------------------------------------------
    nfault = 0
    cache = {}
    for c in crashes:
        t = base[c["tid"] - 1]
        ev = t["events"]
        l = c["at"]
        hi = ev[l - 1]["b"] if l >= 1 else 0
        lo = ev[l - 1]["a"] if l >= 1 else 0
        points = _sample(lo + 1, hi + 1, cap) if hi > lo else [hi]
        for i in points:
            snap = t["rec"].snaps[i]
            nfault += 1
            chk.evaluated(("crash", ad.name, c["tid"], i))
            for f in ad.files:
                data = snap[ad.path_real(f)]
                ck = (f, data)
                if ck not in cache:
                    cache[ck] = ad.load_safe(f, data)
                got = cache[ck]
                pred = c["disk"].get(f)
                if got in (t["old"][f], t["new"][f]):
                    if pred in ("old", "new") and got != t[pred][f] and t["old"][f] != t["new"][f]:
                        # the real code ran and the recorder worked, yet the recorded operations do not explain what is on the
                        # disk (something touched the live file in a way the protocol has no action for): a violation
                        report("%s:disk-not-explained-by-recorded-operations" % f,
                               "%s: after operation %d of a fault-free update the specification, following the recorded operations (%s), "
                               "has the %s version of %s on disk, the real loader finds the %s one" % (
                                   ad.name, i, ops_text(t), pred, f, "new" if pred == "old" else "old"),
                               {"kind": "atomic", "adapter": ad.name, "crash_after_op": i, "update": c["tid"]})
                    continue
                if pred in ("old", "new", "missing") and not v_dev(verdicts[c["tid"]]):
                    key = "%s:crash-state-differs-from-model" % f
                else:
                    key = (dev_key([d for d in verdicts[c["tid"]]["dev"] if d[1] == f]) or ["%s:crash" % f])[0]
                report(key, "%s: a crash after operation %d (%s) of the update leaves %s as %s -- neither the previous version nor "
                            "the new one (model: %s)" % (ad.name, i, ev[l - 1]["op"] if l else "begin", f, got if got[0] != "ok" else "a third content " + got[1][:160], pred),
                       {"kind": "atomic", "adapter": ad.name, "crash_after_op": i, "update": c["tid"]})
    # ---- IOError@i: the real update is re-run with operation i failing --------------------------------------------
    faulted = []
    for c in ioerrs:
        t = base[c["tid"] - 1]
        e = t["events"][c["at"]]
        for i in _sample(e["a"], e["b"], 8 if not thorough else 40):
            if t["reset"]:
                ad.reset()
            before = ad.disk()
            old = {f: ad.load_safe(f, before[f]) for f in ad.files}
            ad.set_value(ad.render(t["cls"], (ad.n + 1) % 100))
            rec, res, exc = ad.recorded_update(fault=i, snapshots=False)
            if not rec.fired:
                continue
            after = ad.disk()
            nfault += 1
            chk.evaluated(("ioerror", ad.name, c["tid"], i))
            faulted.append({"label": "%s#%d!%d" % (ad.name, c["tid"], i), "events": _events(rec), "enum": False,
                            "exist": [f for f in ad.files if before[f] is not None], "op": e["op"], "i": i, "tid": c["tid"],
                            "old": old, "new": {f: ad.want_safe(f) for f in ad.files},
                            "got": {f: ad.load_safe(f, after[f]) for f in ad.files}, "res": res, "exc": repr(exc)})
            # resynchronise: a clean update so that the next fault starts from a complete version
            rec2, res2, exc2 = ad.recorded_update(snapshots=False)
            if exc2 is not None:
                key = "%s:update-after-io-error-raises:%s" % (ad.files[0], type(exc2).__name__)
                if key not in found:
                    found[key] = ("%s: the first fault-free update after an I/O error in operation %d (%s) raised %s: %s" % (
                        ad.name, i, e["op"], type(exc2).__name__, str(exc2)[:200]), {"kind": "atomic", "adapter": ad.name})
    fverd, _, _ = yield faulted
    for j, t in enumerate(faulted, 1):
        chk.trace_validated()
        v = fverd[j]
        bad_files = [f for f in ad.files if t["got"][f] not in (t["old"][f], t["new"][f])]
        rp = {"kind": "atomic", "adapter": ad.name, "ioerror_at_op": t["i"], "update": t["tid"]}
        ctx = "(I/O error injected into operation %d, a %s)" % (t["i"], t["op"])
        explained = report_devs(v, t, ctx, rp)
        for f in bad_files:
            devs_f = [d for d in v["dev"] if d[1] == f]
            if explained and devs_f:
                continue            # same root cause, already reported under the deviation's key
            report("%s:ioerror-at-%s" % (f, t["op"]), "%s %s: afterwards the real loader finds %s in %s -- neither the previous version "
                   "(%s) nor the new one.  Operations: %s" % (ad.name, ctx, _show(t["got"][f], 160), f, _show(t["old"][f], 80), ops_text(t)), rp)
    if len(chk.cov["samples"]) < 5:
        chk.sample({"writer": ad.name, "ops_of_one_update": ["%s(%s)x%d" % (x["op"], x["path"], x["n"]) for x in base[-1]["events"][1:]],
                    "deviations": verdicts[len(base)]["dev"], "crash_points": len(crashes), "ioerror_points": len(faulted)})
    return nfault


def _show(proj, n=200):
    return proj[1][:n] if proj[0] == "ok" else "%s %s" % (proj[0], proj[1][:n] if len(proj) > 1 else "")


def v_dev(verdict):
    return bool(verdict["dev"])


def _path_real(self, f):
    return fsrec._real(self.path[f])


Adapter.path_real = _path_real


# =====================================================================================================================
# Fidelity histories
# =====================================================================================================================
def run_history(ad, hist, fmap):
    """executes one history on the real writer; fmap: abstract field (x, y) -> field of the writer.
    Returns None (not steerable), "nothing-committed", ("n/a", why), or (want, got, info) per live file"""
    last_ok, want, epoch = None, None, 0
    if ad.config_time:
        # the fields are fixed by the workflow definition: the history's final assignment configures the writer, every entry
        # of the history is one update; what is read back is compared after every update
        assign, classes = {}, {}
        for i, h in enumerate(hist):
            if not h["keep"]:
                assign[fmap[h["fld"]]] = ad.render(h["set"], i + 1)
                classes[fmap[h["fld"]]] = h["set"]
        try:
            ad.configure(assign)
        except NotApplicable as e:
            return ("n/a", str(e))
        got = info = None
        for i, h in enumerate(hist):
            ad.set_value(None)
            fault = (h["f"], 1 if h["f"] == "write" else 0) if h["f"] != "none" else None
            rec, res, exc = ad.recorded_update(fault=fault, snapshots=False)
            if fault is not None and not rec.fired:
                return None
            if not h["ok"]:
                continue                # a failed update: the listing may be the old or the new one
            want = {f: ad.want_safe(f) for f in ad.files}
            disk = ad.disk()
            got = {f: ad.load_safe(f, disk[f], inplace=True) for f in ad.files}
            info = {"classes": classes, "persisted": i + 1, "exc": exc, "after_failure": any(not x["ok"] for x in hist[:i])}
            if any(got[f] != want[f] for f in ad.files):
                break
        if got is None:
            return "nothing-committed"
        return want, got, info
    cur = {}
    for i, h in enumerate(hist):
        if not h["keep"]:             # the owner assigns a new value; a kept value is simply persisted again
            cur[fmap[h["fld"]]] = h["set"]
            ad.set_field(fmap[h["fld"]], ad.render(h["set"], i + 1))
            epoch = i
        fault = None
        if h["f"] != "none":
            fault = (h["f"], 1 if h["f"] == "write" else 0)
        rec, res, exc = ad.recorded_update(fault=fault, snapshots=False)
        if fault is not None and not rec.fired:
            rec, res, exc = ad.recorded_update(fault=(h["f"], 0), snapshots=False)
            if not rec.fired:
                return None
        if h["ok"]:
            last_ok = i
            want = {f: ad.want_safe(f) for f in ad.files}
            info = {"classes": dict(cur), "persisted": i - epoch + 1, "exc": exc, "after_failure": any(not x["ok"] for x in hist[:i])}
    if last_ok is None:
        return "nothing-committed"
    disk = ad.disk()
    got = {f: ad.load_safe(f, disk[f], inplace=True) for f in ad.files}
    return want, got, info


def hist_text(hist, fmap):
    return " ".join("%s%s%s" % ("keep" if h["keep"] else "%s:=%s" % (fmap[h["fld"]], h["set"]), "", "!" + h["f"] if h["f"] != "none" else "")
                    for h in hist)


def select_histories(ad_cls, fam, thorough):
    """(history case, field map) pairs executed on a writer"""
    probe_fields = ad_cls.fields
    if len(probe_fields) == 1:
        return [(c, {"x": probe_fields[0]}) for c in fam["one"]]
    pairs = [(a, b) for i, a in enumerate(probe_fields) for b in probe_fields[i + 1:]] if thorough else ad_cls.pairs_quick
    out, seen = [], set()
    # histories with FAILED updates (ok ; change ; failed update ; fault-free update of the unchanged state ...) on the first
    # field, plain values: after a fault-free update the file must hold the latest values
    for c in fam["one"]:
        if any(h["f"] != "none" for h in c["hist"]) and all(h["keep"] or h["set"] == "plain" for h in c["hist"]):
            out.append((c, {"x": probe_fields[0], "y": probe_fields[1]}))
    for (fa, fb) in pairs:
        fmap = {"x": fa, "y": fb}
        for c in fam["two"]:
            hist = c["hist"]
            sets = [h for h in hist if not h["keep"]]
            if not thorough and len(hist) > 1:
                # quick: one field with any class, or both fields with the structural classes
                flds = set(h["fld"] for h in sets)
                if len(flds) > 1 and not all(h["set"] in STRUCTURAL for h in sets):
                    continue
                if len(flds) == 1 and len(sets) > 1 and not all(h["set"] in STRUCTURAL for h in sets):
                    continue
            if ad_cls.config_time:
                final = {}
                for h in sets:
                    final[fmap[h["fld"]]] = h["set"]
                if not final or len(hist) < 2:
                    continue               # n updates of one assignment include the shorter history
                k = (tuple(sorted(final.items())),)
            else:
                k = (fa, fb, json.dumps(hist, sort_keys=True))
                if all(h["fld"] == "x" for h in sets) and ("x-only", fa, json.dumps(hist, sort_keys=True)) in seen:
                    continue
                if all(h["fld"] == "x" for h in sets):
                    seen.add(("x-only", fa, json.dumps(hist, sort_keys=True)))
            if k in seen:
                continue
            seen.add(k)
            out.append((c, fmap))
    return out


def fidelity(chk, ad_cls, fam, scratch, thorough, only=None, todo=None):
    n = 0
    found = {}
    utf8 = locale.getpreferredencoding(False).lower().replace("-", "") == "utf8"
    if todo is None:
        todo = select_histories(ad_cls, fam, thorough)
    probe = None

    def applicable(case, fmap):
        for h in case["hist"]:
            if h["keep"]:
                if h is case["hist"][0] and ad_cls is not StatusAd and not ad_cls.config_time:
                    return False        # only the status file has a state before the first assignment (no error description)
                continue
            if h["set"] == "nonascii" and not utf8:
                return False
            if h["set"] not in probe.classes_for(fmap[h["fld"]]):
                return False
        return True
    # single assignments first: the key of a failing history names the (field, class) that already fails on its own
    def nonplain_count(hist):
        return len(set((h["fld"], h["set"]) for h in hist if not h["keep"] and h["set"] != "plain"))
    todo = sorted(todo, key=lambda cf: (nonplain_count(cf[0]["hist"]), len(cf[0]["hist"]),
                                        json.dumps(cf[0]["hist"], sort_keys=True), sorted(cf[1].items())))
    fresh_bad = set()           # (field, class) that is already read back wrongly after being persisted once
    ad = None
    k = 0
    napp = 0
    for case, fmap in todo:
        hist = case["hist"]
        if ad is None or (not ad_cls.config_time and k % (200 if ad_cls is StatusAd else 8) == 0):
            if ad is not None:
                ad.cleanup()
            ad = ad_cls(scratch, tag="fid")
            probe = ad
        elif ad_cls is StatusAd:
            ad.reinit()
        elif ad.reset_possible and not ad_cls.config_time:
            ad.reset()
        if not applicable(case, fmap):
            continue
        k += 1
        r = run_history(ad, hist, fmap)
        if r is None:
            continue
        if isinstance(r, tuple) and r[0] == "n/a":
            napp += 1
            continue
        n += 1
        chk.evaluated(("hist", ad_cls.name, sorted(fmap.items()), json.dumps(hist, sort_keys=True)))
        if r == "nothing-committed":
            continue
        want, got, info = r
        if not ad_cls.config_time:
            spec_read = case["read"]["f"]
            mine = {g: info["classes"].get(fmap[g], "unset") for g in fmap}
            if any(spec_read[g] != mine[g] for g in fmap if g in spec_read):
                raise MachineryError("history %s: the driver expects classes %s, the specification %s" % (hist, mine, spec_read))
        bad = [f for f in ad.files if got[f] != want[f]]
        if bad:
            f = bad[0]        # output.json is derived from output.txt: one report per history
            nonplain = sorted((g, c) for g, c in info["classes"].items() if c not in ("plain", "unset"))
            single = nonplain if len(nonplain) == 1 else ([] if nonplain else sorted(info["classes"].items())[:1])
            if (info["persisted"] == 1 or ad_cls.config_time) and single and not info.get("after_failure"):
                fresh_bad.update(single)          # this (field, class) is read back wrongly on its own
            known = [gc for gc in nonplain if gc in fresh_bad] or [gc for gc in info["classes"].items() if gc in fresh_bad]
            if known:
                key = "%s:fidelity:%s:%s" % ((f,) + tuple(known[0]))
            elif info.get("after_failure"):
                key = "%s:fidelity:fault-free-update-after-failed-update" % f
            elif info["persisted"] > 1:
                key = "%s:fidelity:same-value-persisted-again" % f
            else:
                key = "%s:fidelity:%s" % (f, "+".join("%s:%s" % gc for gc in (nonplain or sorted(info["classes"].items()))))
            if key not in found:
                found[key] = ("%s: after the update history [%s] (field:=class of the value assigned before an update, keep = "
                              "re-persisted unchanged, ! = failed update)%s the real loader returns %s; last written: %s" % (
                                  ad.name, hist_text(hist, fmap),
                                  " the update raised %s: %s;" % (type(info["exc"]).__name__, str(info["exc"])[:120]) if info.get("exc") else "",
                                  _show(got[f], 300), _show(want[f], 300)),
                              {"kind": "fidelity", "adapter": ad.name, "hist": hist, "read": case["read"], "fmap": fmap})
        if n % 97 == 0:
            chk.sample({"writer": ad.name, "history": hist_text(hist, fmap),
                        "read_back_equals_last_written": not bad}, limit=8)
    if ad is not None:
        ad.cleanup()
    for key in sorted(found):
        if only is None or key == only:
            chk.violation(key, found[key][0], found[key][1])
    chk.cov.setdefault("not_applicable_assignments", {})[ad_cls.name] = napp
    return n


# =====================================================================================================================
def run(tier, only_adapter=None, only_key=None, chk=None):
    chk = chk or Check(PID, tier)
    thorough = tier == "thorough"
    gen = os.path.join(SPEC, "gen", "c14_%s_%d" % (tier, os.getpid()))       # cfgs + generated trace modules of this run
    shutil.rmtree(gen, ignore_errors=True)
    os.makedirs(gen)
    try:
        return _run(chk, thorough, gen, only_adapter, only_key)
    except BaseException:
        shutil.rmtree(chk.scratch, ignore_errors=True)        # finish() removes it on the normal path
        raise
    finally:
        shutil.rmtree(gen, ignore_errors=True)


def _run(chk, thorough, gen, only_adapter, only_key):
    from .. import realenv  # noqa: F401  (imports the package, silences its logging)
    replaying = only_key is not None
    if not replaying:
        design_runs(chk, gen, thorough)
    hists = emit_histories(chk, gen, thorough) if not replaying else {"one": [], "two": []}
    nfault = 0
    found = {}
    ads = [cls(chk.scratch) for cls in ADAPTERS if not only_adapter or cls.name == only_adapter]
    cos = [atomicity(chk, ad, thorough, found) for ad in ads]
    batches = [next(co) for co in cos]
    for label in ("base", "faults"):
        # one TLC run validates the traces of all writers; the results are handed back per writer
        alltr = [t for b in batches for t in b]
        verdicts, crashes, ioerrs = validate_traces(chk, gen, alltr, label)
        off, nxt = 0, []
        for co, b in zip(cos, batches):
            rng = range(off + 1, off + len(b) + 1)
            part = ({t - off: v for t, v in verdicts.items() if t in rng},
                    [dict(c, tid=c["tid"] - off) for c in crashes if c["tid"] in rng],
                    [dict(c, tid=c["tid"] - off) for c in ioerrs if c["tid"] in rng])
            off += len(b)
            try:
                nxt.append(co.send(part))
            except StopIteration as stop:
                nfault += stop.value
        batches = nxt
    for ad in ads:
        ad.cleanup()
    for k in sorted(found):
        if only_key is None or k == only_key:
            chk.violation(k, found[k][0], found[k][1])
    nh = 0
    for cls in FIDELITY_ADAPTERS:
        if replaying or (only_adapter and cls.name != only_adapter):
            continue
        nh += fidelity(chk, cls, hists, chk.scratch, thorough, only=only_key)
    chk.cov["fault_points_realised"] = nfault
    chk.cov["histories_executed"] = nh
    chk.cov["rule"] = ("atomicity: for each of the 5 real writers (6 persisted files) every operation boundary of a create / update / "
                       "update sequence is a crash point (snapshot -> real loader) and every operation an I/O error point (long write runs "
                       "sampled: first/last three + even spread); all recorded traces validated by TLC against AtomicFile_trace.  "
                       "fidelity: every finished history of the specified updater emitted by TLC: one field (status.txt error description) "
                       "x 7 classes + keep x failed updates, length <= 3 and all 13 classes, length <= 2; two fields x 13 classes + keep, "
                       "length <= 2, mapped to the pairs of free-text fields of the other writers (quick: the listed pairs, one field "
                       "with any class or both with the structural classes; thorough: all pairs and classes)")
    chk.cov["exhaustive"] = True
    chk.assumptions += [
        "a crash is modelled at operation granularity with every write flushed (the finest interleaving); fsync/ordering of the "
        "underlying file system (rename durability) is not modelled",
        "value classes stand for all strings: one concrete representative per class and update index",
        "identifiers (the name of a key output, the name of its file) are single-line, non-empty and do not start with a blank: "
        "they get the classes without line breaks / leading blanks; free text gets all 13 classes",
        "a value the configuration layer refuses (FlowIR validation, reference grammar) never reaches a writer: not applicable",
        "conf/manifest.yaml has no reader inside the runtime; Manifest.fromFile (the loader of manifest files) is used",
        "flowir_instance.yaml versions are produced the way a DoWhile iteration does (add_component on the unreplicated FlowIR, then "
        "store_unreplicated_flowir_to_disk), not by running a loop",
    ]
    return chk.finish()


def replay(path):
    """fidelity: the recorded history is executed again on its writer; atomicity: the create/update/update sequence of the
    writer is recorded again, validated by TLC and all its crash / I/O-error points are realised"""
    d = json.load(open(path))
    rp = d["replay"]
    chk = Check(PID, "quick")
    if rp["kind"] == "fidelity":
        from .. import realenv  # noqa: F401
        cls = [c for c in ADAPTERS if c.name == rp["adapter"]][0]
        fidelity(chk, cls, None, chk.scratch, True, todo=[({"hist": rp["hist"], "read": rp["read"]}, rp["fmap"])])
        return chk.finish()
    return run("quick", only_adapter=rp["adapter"], only_key=d["key"], chk=chk)
