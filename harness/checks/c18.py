"""C18 -- Staging and deployment never write outside their target directory.   Spec: spec/Confine.tla

1. TLC on the design: with the specified guard ("resolve": reject iff carrying the input out with POSIX semantics would write
   outside the target) every reachable state has all written locations under the target (Confined), nothing benign is
   rejected (NoOverRejection), the incremental machine agrees with the recursive definition (RunAgrees); per-action coverage.
   Witness: with the guard the implementation uses ("prefix": absolute names only) TLC must REFUTE Confined.
2. spec -> code: every input TLC emits (archives of <= 2/3 members incl. symlink / hardlink members, manifests of <= 2 entries,
   sequences of <= 2 staging operations) is built for real (tarfile, directories, manifest dict, a real experiment for
   Job.stageIn) in a sandbox that mirrors the model's tree, nested 19 directories deep inside the scratch directory, and the
   REAL code is run: StageReference (:extract/:copy/:link), Job.stageIn, ExperimentPackage.expandPackageToDirectory.
   Oracle: (a) always: the recursive listing (type, size, mode, mtime, link target, content) of everything in the sandbox
   outside the target is unchanged; (b) an input the specification classifies hostile must be rejected with
   DataReferenceCouldNotStageError / PackageCreateError / a manifest validation error; (c) vacuity guard: plain benign inputs
   (no `..`, no absolute names, no links) must create exactly the entries the specification computes.
"""
import io
import json
import os
import shutil
import stat
import tarfile

from ..common import Check, MachineryError, SPEC, OUT
from .. import tlc

PID = "C18"
REAL = {"b": "tb", "e": "te"}        # tb exists next to the target t, te does not: siblings whose names extend the target's
SPARE = ["s%02d" % i for i in range(1, 17)]   # directories between the sandbox box and the model's root: `..` escapes end here


def _cfg(path, body):
    with open(path, "w") as f:
        f.write(body)
    return path


# =====================================================================================================================
# the sandbox = the model's tree, for real
# =====================================================================================================================
class Sandbox:
    def __init__(self, scratch, tag):
        self.box = os.path.realpath(os.path.join(scratch, "box_" + tag))
        if not self.box.startswith(os.path.realpath(OUT) + os.sep):
            raise MachineryError("sandbox outside /verif/out: %s" % self.box)
        self.root = os.path.join(self.box, *(SPARE + ["l1"]))
        self.l3 = os.path.join(self.root, "l2", "l3")
        self.target = os.path.join(self.l3, "t")
        self.arch = os.path.join(self.box, "arch")
        self.build()

    def build(self):
        self.content = {}
        shutil.rmtree(self.box, ignore_errors=True)
        os.makedirs(self.l3)
        os.makedirs(self.arch)
        self._file(os.path.join(self.l3, "a"), "outside a\n")
        os.makedirs(os.path.join(self.l3, "tb"))
        self._file(os.path.join(self.l3, "tb", "a"), "outside b/a\n")
        for s in ("p", "q"):
            os.makedirs(os.path.join(self.l3, s, "d"))
            self._file(os.path.join(self.l3, s, "a"), "source %s/a\n" % s)
            self._file(os.path.join(self.l3, s, "d", "a"), "source %s/d/a\n" % s)
        os.makedirs(os.path.join(self.l3, "r", "a"))          # producer r: the FILE is called d, the DIRECTORY a
        self._file(os.path.join(self.l3, "r", "d"), "source r/d\n")
        self._file(os.path.join(self.l3, "r", "a", "a"), "source r/a/a\n")
        self._file(os.path.join(self.l3, "wf.yaml"), "components:\n- name: hello\n  command:\n    executable: echo\n    arguments: hi\n")
        # the archive of the `stage` family: a single file member d/a
        self.make_tar([{"k": "file", "n": ["d", "a"], "t": []}], os.path.join(self.arch, "stage.tar"))
        for dirpath, dirs, files in os.walk(self.box):
            for n in dirs + files:
                os.utime(os.path.join(dirpath, n), (1500000000, 1500000000), follow_symlinks=False)

    def _file(self, p, text):
        with open(p, "w") as f:
            f.write(text)
        if p.startswith(self.box + os.sep):
            self.content[p[len(self.box) + 1:]] = text

    def render(self, segs):
        """model name -> text; "" as first segment = absolute = the sandbox's model root (never a real system path);
        the model's `b` is called `tb` on disk: next to the target `t` it is a sibling whose name has the target's
        name as a prefix (string-prefix confinement checks without a separator accept ../tb)"""
        segs = [REAL.get(x, x) for x in segs]
        if segs and segs[0] == "":
            return self.root + "/" + "/".join(segs[1:])
        return "/".join(segs)

    def fresh_target(self):
        if os.path.lexists(self.target):
            if os.path.islink(self.target):
                os.unlink(self.target)
            else:
                shutil.rmtree(self.target)
        os.mkdir(self.target)

    def listing(self, skip=None):
        """everything in the box except the target subtree: relpath -> (type, size, mode, mtime_ns, inode | link target)"""
        skip = skip or self.target
        out = {}
        stack = [self.box]
        while stack:
            d = stack.pop()
            with os.scandir(d) as it:
                for e in it:
                    p = e.path
                    if p == skip:
                        continue
                    st = e.stat(follow_symlinks=False)
                    rel = p[len(self.box) + 1:]
                    if stat.S_ISLNK(st.st_mode):
                        out[rel] = ("sym", os.readlink(p))
                    elif stat.S_ISDIR(st.st_mode):
                        out[rel] = ("dir", stat.S_IMODE(st.st_mode), st.st_mtime_ns)
                        stack.append(p)
                    else:
                        out[rel] = ("file", st.st_size, stat.S_IMODE(st.st_mode), st.st_mtime_ns, st.st_ino)
        return out

    def repair(self, before, after):
        """undo what an escaping input did outside the target (cheaper than rebuilding); falls back to build()"""
        try:
            for rel in sorted(set(after) - set(before), key=len, reverse=True):
                p = os.path.join(self.box, rel)
                if os.path.islink(p) or not os.path.isdir(p):
                    os.unlink(p)
                else:
                    shutil.rmtree(p)
            for rel, b in before.items():
                p = os.path.join(self.box, rel)
                if after.get(rel) != b and b[0] == "file":
                    if os.path.lexists(p):
                        os.unlink(p)              # also breaks a hard link into the target
                    self._file(p, self.content[rel])
            for rel, b in sorted(before.items(), key=lambda kv: len(kv[0]), reverse=True):
                p = os.path.join(self.box, rel)
                if b[0] == "dir":
                    os.chmod(p, b[1])
                    os.utime(p, ns=(b[2], b[2]))
                elif b[0] == "file":
                    os.chmod(p, b[2])
                    os.utime(p, ns=(b[3], b[3]))
            now = self.listing()
            strip = lambda l: {k: v[:4] for k, v in l.items()}      # inodes of rewritten files differ
            if strip(now) != strip(before):
                raise OSError("repair incomplete")
        except OSError:
            self.build()

    def tree(self, top):
        """entries below top: relpath segments -> kind"""
        out = {}
        for dirpath, dirs, files in os.walk(top, followlinks=False):
            for n in list(dirs) + files:
                p = os.path.join(dirpath, n)
                st = os.lstat(p)
                kind = "sym" if stat.S_ISLNK(st.st_mode) else "dir" if stat.S_ISDIR(st.st_mode) else "file"
                out[tuple(os.path.relpath(p, top).split(os.sep))] = kind
            dirs[:] = [d for d in dirs if not os.path.islink(os.path.join(dirpath, d))]
        return out

    def make_tar(self, members, path):
        with tarfile.open(path, "w") as tar:
            for j, m in enumerate(members):
                ti = tarfile.TarInfo(self.render(m["n"]))
                ti.mtime = 1000000000 + j
                ti.uid, ti.gid = os.getuid(), os.getgid()
                if m["k"] == "file":
                    data = ("member %d\n" % j).encode()
                    ti.size, ti.mode, ti.type = len(data), 0o640, tarfile.REGTYPE
                    tar.addfile(ti, io.BytesIO(data))
                    continue
                if m["k"] == "dir":
                    ti.type, ti.mode = tarfile.DIRTYPE, 0o750
                elif m["k"] == "sym":
                    ti.type, ti.mode, ti.linkname = tarfile.SYMTYPE, 0o777, self.render(m["t"])
                else:
                    ti.type, ti.mode, ti.linkname = tarfile.LNKTYPE, 0o640, self.render(m["t"])
                tar.addfile(ti)
        return path


def diff(before, after):
    ch = []
    for k in sorted(set(before) | set(after)):
        if before.get(k) != after.get(k):
            b, a = before.get(k), after.get(k)
            ch.append("%s: %s -> %s" % (k, "absent" if b is None else b[0], "absent" if a is None else
                                        ("%s (modified)" % a[0] if b is not None and a[0] == b[0] else a[0])))
    return ch


def updots(case):
    """upper bound on how many levels above the target one path resolution of this input can climb: the `..` of the name
    plus, for every segment of the name, the `..` of all link targets it may traverse"""
    links = sum(1 for m in case["inp"] if isinstance(m["t"], list) for s in m["t"] if s == "..")
    return max([sum(1 for s in m["n"] if s == "..") + len(m["n"]) * links for m in case["inp"]] + [0])


# =====================================================================================================================
# classification of a hostile input (the key of a violation): by the mechanism the input uses
# =====================================================================================================================
def lex_outside(segs, depth=0):
    """does the purely lexical normalisation of target/<segs> leave the target?"""
    if segs and segs[0] == "":
        return True
    for s in segs:
        depth = depth - 1 if s == ".." else depth + 1
        if depth < 0:
            return True
    return False


def mechanism(mode, inp):
    if mode == "stage":
        ks = [m["k"] for m in inp]
        if "link" in ks and "extract" in ks:
            return "extract-through-staged-link"
        if "link" in ks and "copy" in ks:
            return "copy-onto-staged-link"
        return "other"
    if any(m["n"] and m["n"][0] == "" for m in inp):
        return "absolute-name"
    if any(lex_outside(m["n"]) for m in inp):
        return "dotdot-in-name"
    if mode == "manifest":
        if any(m["k"] == "link" and m["n"] == ["conf"] for m in inp):
            return "definition-written-through-linked-conf"
        if any(m["k"] == "link" and m["n"] in (["conf", "flowir_package.yaml"], ["conf", "dsl.yaml"]) for m in inp):
            return "definition-written-through-linked-file"
        return "through-linked-folder" if any(m["k"] == "link" for m in inp) else "other"
    if any(m["k"] == "hard" and lex_outside(m["t"]) for m in inp):
        return "hardlink-target-outside"
    if any(m["k"] == "sym" for m in inp):
        return "through-symlink-member"
    if any(m["k"] == "hard" for m in inp):
        return "through-hardlink-member"
    return "other"


def show(mode, inp, sb=None):
    def nm(s):
        return ("/<sandbox>/" + "/".join(s[1:])) if s and s[0] == "" else "/".join(s)
    if mode == "archive":
        return "[" + ", ".join("%s %s%s" % (m["k"], nm(m["n"]), " -> " + nm(m["t"]) if m["k"] in ("sym", "hard") else "") for m in inp) + "]"
    if mode == "manifest":
        return "{" + ", ".join("%s: %s:%s" % (nm(m["n"]), m["t"], m["k"]) for m in inp) + "}"
    return "[" + ", ".join("%s:%s" % ({"pa": "p/a", "qa": "q/a", "pd": "p/d", "qd": "q/d", "rd": "r/d (a file)", "ra": "r/a (a directory)", "arch": "archive{d/a}"}[m["t"]], m["k"]) for m in inp) + "]"


# =====================================================================================================================
# running the real code
# =====================================================================================================================
class _Ref:
    """all StageReference needs from a DataReference"""

    def __init__(self, path, method):
        self._p, self.method, self.stringRepresentation = path, method, "%s:%s" % (path, method)

    def resolve(self, graph):
        return self._p


class _Loc:
    def __init__(self, path):
        self.path = path


def real_archive(sb, case, env):
    D, E = env["D"], env["E"]
    arch = sb.make_tar(case["inp"], os.path.join(sb.arch, "case.tar"))
    sb.fresh_target()
    before = sb.listing()
    raised = None
    try:
        D.StageReference(_Ref(arch, "extract"), _Loc(sb.target), None)
    except E.DataReferenceCouldNotStageError:
        raised = "rejected"
    except Exception as e:
        raised = "other:" + type(e).__name__
    after = sb.listing()
    return raised, diff(before, after), sb.tree(sb.target), before, after


SRC = {"pa": ("p", "a"), "qa": ("q", "a"), "pd": ("p", "d"), "qd": ("q", "d"), "rd": ("r", "d"), "ra": ("r", "a")}


def real_stage(sb, case, env):
    D, E = env["D"], env["E"]
    sb.fresh_target()
    before = sb.listing()
    raised = None
    try:
        for m in case["inp"]:
            src = os.path.join(sb.arch, "stage.tar") if m["t"] == "arch" else os.path.join(sb.l3, *SRC[m["t"]])
            D.StageReference(_Ref(src, m["k"]), _Loc(sb.target), None)
    except E.DataReferenceCouldNotStageError:
        raised = "rejected"
    except Exception as e:
        raised = "other:" + type(e).__name__
    after = sb.listing()
    return raised, diff(before, after), sb.tree(sb.target), before, after


MSRC = {"p": "p", "q": "q", "pa": "p/a", "pz": "p/z"}      # manifest sources: folders, an existing file, a missing file


def real_manifest(sb, case, env):
    S, E = env["S"], env["E"]
    sb.fresh_target()
    manifest = {}
    for m in case["inp"]:
        manifest[sb.render(m["n"])] = "%s:%s" % (MSRC[m["t"]], m["k"])
    before = sb.listing()
    raised = None
    try:
        pkg = S.ExperimentPackage.packageFromLocation(os.path.join(sb.l3, "wf.yaml"), manifest=dict(manifest))
        pkg.expandPackageToDirectory(sb.target, case["format"] if "format" in case else env.get("format"))
    except (E.PackageCreateError, E.FlowIRManifestException, E.InstanceCreateError):
        raised = "rejected"
    except E.ExperimentInvalidConfigurationError as e:
        # the loader wraps manifest validation errors
        raised = "rejected" if "anifest" in repr(e) or "anifest" in str(getattr(e, "underlyingError", "")) else "other:" + type(e).__name__
    except Exception as e:
        raised = "other:" + type(e).__name__
    tree = sb.tree(sb.target) if os.path.isdir(sb.target) else {}
    after = sb.listing()
    return raised, diff(before, after), tree, before, after


def real_stagein(sb, case, env, n):
    """the same staging sequence through a real Job.stageIn of a real experiment (producers p, q in stage 0)"""
    from .. import realenv
    E = env["E"]
    refs = []
    for m in case["inp"]:
        if m["t"] == "arch":
            refs.append("stage0.p/stage.tar:extract")
        else:
            refs.append("stage0.%s/%s:%s" % (SRC[m["t"]][0], SRC[m["t"]][1], m["k"]))
    if len(set(refs)) != len(refs):
        return None
    sb.ninst = getattr(sb, "ninst", 0) + 1
    loc = os.path.join(sb.root, "l2", "inst%d" % sb.ninst)
    os.makedirs(loc)
    flowir = {"components": [realenv.simple_component("p", 0), realenv.simple_component("q", 0), realenv.simple_component("r", 0),
                             realenv.simple_component("c", 1, args=" ".join(refs),
                                                      references=refs)]}
    import experiment.model.storage as S
    orig = S.ExperimentShadowDirectory.__dict__["temporaryShadow"]
    shadow = os.path.join(sb.box, "shadow")
    os.makedirs(shadow, exist_ok=True)
    S.ExperimentShadowDirectory.temporaryShadow = classmethod(lambda cls, name: cls(name, shadow))
    try:
        exp = realenv.experiment_from_flowir(flowir, loc, validate=False)
    finally:
        S.ExperimentShadowDirectory.temporaryShadow = orig
    g = exp.graph
    for s in ("p", "q"):
        wd = g.nodes["stage0.%s" % s]["componentInstance"].directory
        os.makedirs(os.path.join(wd, "d"))
        sb._file(os.path.join(wd, "a"), "source %s/a\n" % s)
        sb._file(os.path.join(wd, "d", "a"), "source %s/d/a\n" % s)
        if s == "p":
            shutil.copy(os.path.join(sb.arch, "stage.tar"), os.path.join(wd, "stage.tar"))
    wd = g.nodes["stage0.r"]["componentInstance"].directory
    os.makedirs(os.path.join(wd, "a"))
    sb._file(os.path.join(wd, "d"), "source r/d\n")
    sb._file(os.path.join(wd, "a", "a"), "source r/a/a\n")
    job = g.nodes["stage1.c"]["componentInstance"]
    wdir = os.path.realpath(job.directory)
    before = sb.listing(skip=wdir)
    raised = None
    try:
        job.stageIn()
    except E.DataReferenceCouldNotStageError:
        raised = "rejected"
    except Exception as e:
        raised = "other:" + type(e).__name__
    ch = diff(before, sb.listing(skip=wdir))
    shutil.rmtree(loc, ignore_errors=True)
    shutil.rmtree(shadow, ignore_errors=True)
    return raised, ch, {}, None, None


# =====================================================================================================================
def expected_tree(mode, case):
    exp = {}
    for e in case["created"]:
        p = e["p"]
        if p[:3] == ["l2", "l3", "t"] and len(p) > 3:
            exp[tuple(REAL.get(x, x) for x in p[3:])] = "sym" if e["k"] == "sym" else "file" if e["k"] in ("file", "hard") else "dir"
    return exp


def judge(chk, mode, case, res, stats, found, via=""):
    raised, changed, tree = res[:3]
    inp = case["inp"]
    mech = mechanism(mode, inp)
    op = {"archive": "extract", "manifest": "deploy", "stage": "stage"}[mode]
    rp = {"mode": mode, "case": case, "via": via}
    text = show(mode, inp) + (" (through Job.stageIn of a real experiment)" if via else "")
    stats["n"] += 1
    if changed:
        stats["escaped"] += 1
        if case["hostile"]:
            key = "%s:%s" % (op, mech)
        else:
            key = "%s:outside-modified-by-input-the-model-calls-benign" % op
        if key not in found:
            found[key] = ("%s of %s modifies the tree outside the target (%s); outcome: %s; the specification predicts writes at %s" % (
                op, text, "; ".join(changed[:4]), raised or "no error",
                ["/".join(p) for p in case["outside"]] or "nothing outside"), rp)
        return True
    if case["hostile"] and raised != "rejected":
        stats["not_rejected"] += 1
        key = "%s:%s:not-rejected" % (op, mech)
        if key not in found:
            found[key] = ("%s of the hostile input %s is not rejected with a staging/packaging error (outcome: %s) although carrying it out "
                          "writes at %s according to the specification; nothing outside changed in this run" % (
                              op, text, raised or "no error", ["/".join(p) for p in case["outside"]]), rp)
        return False
    if case["hostile"]:
        stats["rejected"] += 1
        return False
    # ---- inputs the specification calls benign -----------------------------------------------------------------------
    if not case["failed"] and raised is not None and raised.startswith("other:"):
        # the specification carries the input out; the real code raises something that is not even a staging error
        stats["unexpected_exception"] = stats.get("unexpected_exception", 0) + 1
        key = "%s:unexpected-exception:%s" % (op, raised[6:])
        if key not in found:
            found[key] = ("%s of the benign input %s (the specification carries it out completely) raises %s instead of staging it or "
                          "rejecting it with a staging/packaging error" % (op, text, raised[6:]), rp)
        return False
    if case["plain"] and not case["failed"] and not via:
        stats["plain"] += 1
        if raised is not None or tree != expected_tree(mode, case):
            stats["plain_mismatch"] += 1
            key = "%s:plain-benign-input-not-carried-out" % op
            if key not in found:
                found[key] = ("%s of the plain input %s (no `..`, no absolute name, no link) -> %s, created %s; the specification creates %s" % (
                    op, text, raised or "no error", sorted(tree.items()), sorted(expected_tree(mode, case).items())), rp)
    return False


def execute(chk, mode, cases, sb, env, found, stagein=False):
    stats = {"n": 0, "escaped": 0, "not_rejected": 0, "rejected": 0, "plain": 0, "plain_mismatch": 0}
    fn = {"archive": real_archive, "manifest": real_manifest, "stage": real_stage}[mode]
    n = 0
    for case in cases:
        if updots(case) > len(SPARE):
            raise MachineryError("input with %d `..` segments exceeds the sandbox nesting" % updots(case))
        if mode == "manifest" and "format" not in case:
            case = dict(case, format=env.get("format"))       # kept in the replay file
        res = fn(sb, case, env)
        chk.evaluated((mode, json.dumps(case["inp"], sort_keys=True)))
        if judge(chk, mode, case, res, stats, found):
            sb.repair(res[3], res[4])
        if stagein:
            n += 1
            r2 = real_stagein(sb, case, env, n)
            if r2 is not None:
                chk.evaluated((mode + "-stagein", json.dumps(case["inp"], sort_keys=True)))
                judge(chk, mode, case, r2, stats, found, via="In")      # the instance directory is removed anyway
        if stats["n"] % 997 == 1:
            chk.sample({"mode": mode, "input": show(mode, case["inp"]), "hostile": case["hostile"], "real_outcome": res[0] or "carried out",
                        "outside_modified": bool(res[1])}, limit=8)
    return stats


# =====================================================================================================================
BASE = {"Mode": '"archive"', "Segs": '{"a", "b", "..", ""}', "MaxLen": "2", "Kinds": '{"file", "dir", "sym", "hard"}',
        "LinkNameLen": "1", "LinkSegs": '{"a", "..", ""}', "LinkMaxLen": "2", "MaxMembers": "2", "Srcs": '{"p"}', "Pattern": '"any"', "Format": '"flowir"', "LastKinds": '{"file"}',
        "Guard": '"resolve"', "Emit": "FALSE"}


def consts(**kw):
    d = dict(BASE)
    d.update(kw)
    return "CONSTANTS\n" + "".join("  %s = %s\n" % (k, v) for k, v in d.items())


INV = "INVARIANT TypeOK\nINVARIANT Confined\nINVARIANT NoOverRejection\nINVARIANT RunAgrees\nCHECK_DEADLOCK FALSE\n"


def families(thorough):
    """(mode, label, constants) of the input families that are emitted and executed"""
    chain = dict(MaxMembers="4", Segs='{"a", "h"}', MaxLen="2", Kinds='{"file", "hard"}', LinkNameLen="1",
                 LinkSegs='{"b", ".", ".."}', LinkMaxLen="2", Pattern='"chain"', LastKinds='{"file"}')
    fam = [("archive", "two", dict(MaxMembers="2")),
           # two chained symbolic links (b -> ., a -> b/..) that look confined one by one, then members through them / re-using
           # a name; quick executes every hostile input of the family and every 10th of the others, thorough all of them
           ("archive", "chain" if thorough else "chain-sampled", chain),
           # c: a new unrelated name outside, e: a new sibling whose name has the target's name as prefix
           # (quick: pairs of entries over a, e only; the unrelated new name c appears in single entries)
           ("manifest", "two", dict(Mode='"manifest"', MaxMembers="2", Segs='{"a", "c", "e", "..", ""}' if thorough else '{"a", "e", "..", ""}',
                                    Srcs='{"p"}' if not thorough else '{"p", "q"}')),
           # b: the EXISTING sibling with such a name (keys into it need 3 segments)
           ("manifest", "sibling", dict(Mode='"manifest"', MaxMembers="1", MaxLen="3", Segs='{"a", "b", "c", ".."}')),
           # an entry literally called conf: the workflow definition is written into what it deployed
           ("manifest", "conf", dict(Mode='"manifest"', MaxMembers="2", Segs='{"a", "conf", ".."}')),
           # entries that name the stored definition file itself (copy / link to an existing / missing file), alone or after an
           # entry called conf, for packages in both formats
           ("manifest", "definition-flowir", dict(Mode='"manifest"', MaxMembers="2", Pattern='"conf-first"', Format='"flowir"',
                                                  Segs='{"conf", "flowir_package.yaml", "dsl.yaml"}', Srcs='{"p", "pa", "pz"}')),
           ("manifest", "definition-dsl", dict(Mode='"manifest"', MaxMembers="2", Pattern='"conf-first"', Format='"dsl"',
                                               Segs='{"conf", "flowir_package.yaml", "dsl.yaml"}', Srcs='{"p", "pa", "pz"}')),
           ("archive", "sibling", dict(MaxMembers="1", MaxLen="3", Segs='{"a", "b", "e", ".."}', Kinds='{"file", "dir"}')),
           ("stage", "two", dict(Mode='"stage"', MaxMembers="2"))]
    if thorough:
        fam += [("archive", "names3", dict(MaxMembers="2", MaxLen="3", Segs='{"a", "..", ""}', LinkNameLen="2", LinkSegs='{"a", ".."}')),
                ("archive", "three", dict(MaxMembers="3", Segs='{"a", ".."}', LinkSegs='{"a", ".."}', LinkNameLen="1")),
                ("archive", "dir-sym-file", dict(MaxMembers="3", MaxLen="3", Segs='{"a", "b", ".."}', Kinds='{"file", "dir", "sym"}',
                                                 LinkSegs='{"a", ".."}', LinkNameLen="1", Pattern='"dir-sym-file"')),
                ("stage", "three", dict(Mode='"stage"', MaxMembers="3"))]
    else:
        fam += [("archive", "three", dict(MaxMembers="3", Segs='{"a", ".."}', Kinds='{"file", "sym"}', LinkSegs='{"a", ".."}',
                                          LinkMaxLen="2", LinkNameLen="1"))]
    return fam


def run(tier, only=None, chk=None):
    chk = chk or Check(PID, tier)
    thorough = tier == "thorough"
    gen = os.path.join(SPEC, "gen", "c18_%s_%d" % (tier, os.getpid()))
    shutil.rmtree(gen, ignore_errors=True)
    os.makedirs(gen)
    try:
        return _run(chk, thorough, gen, only)
    except BaseException:
        shutil.rmtree(chk.scratch, ignore_errors=True)        # finish() removes it on the normal path
        raise
    finally:
        shutil.rmtree(gen, ignore_errors=True)


def _run(chk, thorough, gen, only):
    from .. import realenv  # noqa: F401
    import experiment.model.data as D
    import experiment.model.errors as E
    import experiment.model.storage as S
    env = {"D": D, "E": E, "S": S}
    if only is None:
        # ---- 1. the design -------------------------------------------------------------------------------------------
        for mode in ("archive", "manifest", "stage"):
            kw = dict(Mode='"%s"' % mode)
            c = _cfg(os.path.join(gen, "Confine_mc_%s.cfg" % mode), consts(**kw) + "SPECIFICATION Spec\nINVARIANT TracePc\n" + INV)
            r = tlc.run_tlc("Confine", c, timeout=800, workers=4)
            if not r["ok"]:
                raise MachineryError("Confine.tla (%s): %s fails on the model:\n%s" % (mode, r["violated"], r["out"][-2000:]))
            # vacuity guard: every action of the stager was taken (control states reached, printed by TracePc; TLC's own
            # -coverage is unusably slow on the recursive operators of this module)
            reach = {"Reject": '"rejected"', "Accept": '"run"', "Step": '"stepped"', "Finish": '"done"'}
            r["coverage"] = {a: r["out"].count(tok) for a, tok in reach.items()}
            if not all(r["coverage"].values()):
                raise MachineryError("Confine.tla (%s): an action is never taken (vacuous run): %s" % (mode, r["coverage"]))
            chk.add_tlc(r)
            # witness: the guard of the implementation does not confine
            c = _cfg(os.path.join(gen, "Confine_witness_%s.cfg" % mode),
                     consts(Guard='"prefix"', **kw) + "SPECIFICATION Spec\nINVARIANT Confined\nCHECK_DEADLOCK FALSE\n")
            r = tlc.run_tlc("Confine", c, timeout=800, expect_violation=True, workers=1)
            if r["violated"] != "Confined":
                raise MachineryError("Confine.tla (%s): the prefix guard is not refuted (vacuous Confined?)\n%s" % (mode, r["out"][-1500:]))
            chk.add_tlc(r)
    # ---- 2. every emitted input on the real code ---------------------------------------------------------------------
    found = {}
    totals = {}
    sb = Sandbox(chk.scratch, "main")
    for mode, label, kw in families(thorough):
        if only is not None and only["mode"] != mode:
            continue
        if only is not None:
            cases = [only["case"]]
        else:
            c = _cfg(os.path.join(gen, "Confine_emit_%s_%s.cfg" % (mode, label)),
                     consts(Guard='"none"', Emit="TRUE", **dict(kw, Mode='"%s"' % mode)) + "INIT Init\nNEXT Finish\nINVARIANT EmitCase\nCHECK_DEADLOCK FALSE\n")
            r = tlc.run_tlc("Confine", c, workers=1, timeout=1500)
            if not r["ok"]:
                raise MachineryError("Confine.tla emission (%s/%s) failed:\n%s" % (mode, label, r["out"][-1500:]))
            chk.add_tlc(r)
            cases = r["cases"]
            if label == "chain-sampled":
                cases = [x for j, x in enumerate(cases) if x["hostile"] or j % 10 == 0]
            if len(cases) < 50 or not any(x["hostile"] for x in cases) or all(x["hostile"] for x in cases):
                raise MachineryError("emission %s/%s: %d cases, degenerate classification" % (mode, label, len(cases)))
        env["format"] = {'"dsl"': "dsl"}.get(kw.get("Format"), None)
        st = execute(chk, mode, cases, sb, env, found, stagein=(mode == "stage"))
        for k, v in st.items():
            if isinstance(v, int):
                totals["%s.%s" % (mode, k)] = totals.get("%s.%s" % (mode, k), 0) + v
        if only is not None:
            break
    stray = [x for x in os.listdir(chk.scratch) if not x.startswith("box_")]
    if stray:
        raise MachineryError("unexpected entries in the scratch directory (an escape left the sandbox box): %s" % stray)
    for k in sorted(found):
        chk.violation(k, found[k][0], found[k][1])
    chk.cov["outcomes"] = totals
    chk.cov["rule"] = ("every input of the families enumerated by TLC: archives of <=2 members (file/dir/symlink/hardlink; names of <=2 "
                       "segments over {a, b, .., absolute}; link targets of <=2 segments over {a, .., absolute}), archives of 3 members over "
                       "a reduced alphabet, 3- and 4-member archives starting with two chained symbolic links (b -> ., a -> b/..) that pass "
                       "any member-by-member check followed by file / hard-link members through them or re-using their names (quick: all "
                       "hostile ones + every 10th other), manifests of <=2 entries (copy/link), staging sequences of <=2 operations (also through "
                       "Job.stageIn of a real experiment); thorough adds 3-segment names, 3-member archives with hard links, 3-operation "
                       "sequences")
    chk.cov["exhaustive"] = True
    chk.assumptions += [
        "the file-system model is POSIX path resolution at the granularity of directory entries; permissions, devices, fifos, "
        "sparse files and pax headers are not modelled",
        "absolute names are rendered as absolute paths below the sandbox root, never as real system paths",
        "a hostile input that is neither rejected nor writes outside (a stager that neutralises instead of rejecting) is reported "
        "under a separate key (<op>:<mechanism>:not-rejected)",
        "Job.stageIn is driven for the staging-sequence family only; archives and manifests go through StageReference and "
        "ExperimentPackage.expandPackageToDirectory directly",
    ]
    return chk.finish()


def replay(path):
    d = json.load(open(path))
    chk = Check(PID, "quick")
    return run("quick", only=d["replay"], chk=chk)
