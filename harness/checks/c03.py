"""C03 -- Replication expands a workflow without changing its dataflow.  Spec: spec/Replicate.tla

1. TLC (all workers) checks the design on a broad family: the declarative region (Counts/Replicated) equals the operational
   pass (Propagate) on every workflow, and the C03 invariants hold on every Expansion (exactly N copies, copy wiring,
   aggregator single + index order, outside unchanged, no dangling reference, unique ids, acyclic, inconsistent => error).
2. TLC (one worker per slice, slices in parallel) emits every expanded state of the conformance slices as JSON:
   (abstract workflow, document order, expected status, expected nodes).  Slices: adversarial names (suffix/prefix, digit
   suffixes, dotted/dashed), the same name in two stages, propagation shapes, replica counts through variables at
   global/stage/component scope, reference spellings/paths/methods/argument styles.
3. spec -> code: every case is rendered to FlowIR and executed through FlowIRConcrete.replicate() and (all cases of the small
   slices, a deterministic sample of the big ones) WorkflowGraph.graphFromFlowIR(flowir, {}, primitive=False); the projection
   (nodes, edges, references, argument tokens, replica variable, workflowAttributes.replicate) is compared with the spec.
"""
import json
import os
import threading
import time

from ..common import Check, MachineryError, SPEC
from .. import tlc
from .. import wf_io

PID = "C03"

ALL_REPS = ["none", "n1", "n2", "n3", "vg", "vs", "vc"]
INVARIANTS = ["TypeOK", "PropagateEqualsRegion", "ExactlyNCopies", "CopyWiring", "AggregatorSingle", "OutsideUnchanged",
              "NoDangling", "UniqueIds", "Acyclic", "InconsistentIsError", "ArgsFollowRefs"]

K_SUBSTR = "replicate:ref-to-replicated-producer-is-substring-of-other-ref"
K_STAGE = "replicate:same-name-in-other-stage-as-replicated-producer"
K_DIGIT = "replicate:replicated-producers-named-X-and-Xdigit"
K_TAIL2 = "replicate:aggregator-mentions-replicated-ref-with-two-paths"
K_OVR = "replicate:aggregate-with-platform-override-of-references"


def S(names, stages=(0,), reps=("none", "n2"), aggs=(True, False), spell=("rel", "abs"), paths=("",), methods=("ref",),
      styles=("same",), orders=("fwd",), comps=3, refs=2, fixed=False, graph=1, priv=(0,), aggvar=(False,), sv0=(0,), sv1=(2,), same=1,
      plat=(0,), pg=(0,), ps0=(0,), ps1=(0,), ovr=False, opriv=(0,)):
    """ovr: every consumer also carries a platform override that repeats its references / arguments (same meaning)"""
    """graph: 1 = every case also through graphFromFlowIR, k = every k-th case"""
    return dict(names=names, stages=stages, reps=reps, aggs=aggs, spell=spell, paths=paths, methods=methods, styles=styles,
                orders=orders, comps=comps, refs=refs, fixed=fixed, graph=graph, priv=priv, aggvar=aggvar, sv0=sv0, sv1=sv1, same=same,
                plat=plat, pg=pg, ps0=ps0, ps1=ps1, ovr=ovr, opriv=opriv)


SLICES = {
    "quick": {
        "suffix": S(["a", "ba", "ab"], graph=8),
        "digit": S(["a", "a0", "a1"], graph=8),
        "misc": S(["x.y", "a-b", "c"], spell=("rel",), graph=4),
        "stages": S(["a", "c"], stages=(0, 1), graph=8),
        "shape": S(["p", "q", "r"], reps=("none", "n1", "n2", "n3"), spell=("rel",), orders=("fwd", "rev"), fixed=True, graph=4),
        "many": S(["p", "q"], reps=("none", "n11"), comps=2, fixed=True),
        "vars": S(["p", "q"], stages=(0, 1), reps=ALL_REPS, spell=("abs",), comps=2, fixed=True),
        # variable scoping: the count / the aggregate flag through a variable that the own and the OTHER stage and SIBLING
        # components (same and other stage) define with other values; both roles for both names, both document orders
        # platforms: the variable is layered over default global / default stage / platform global / platform stage (and the
        # document holds the other platform's definitions also when the default platform is loaded)
        "platform": S(["p", "q"], stages=(0, 1), reps=("none", "vg", "vs"), spell=("abs",), comps=2, refs=1, fixed=True,
                      aggvar=(False, True), sv0=(0, 2), sv1=(0, 2), plat=(0, 1), pg=(0, 3), ps0=(0, 1), ps1=(0,), graph=4),
        # the component's OVERRIDE for platform "other" also defines the variable (highest priority, only when "other" is loaded)
        "ovrvars": S(["p", "q"], stages=(0,), reps=("none", "vg", "vc"), spell=("rel",), comps=2, refs=1, fixed=True,
                     aggvar=(False, True), priv=(0, 3), opriv=(0, 1), plat=(0, 1), pg=(0, 3), graph=4),
        # the same with a platform override that repeats the references / arguments of every consumer
        "override": S(["p", "q", "r"], stages=(0, 1), reps=("none", "n2"), spell=("rel", "abs"), refs=2, fixed=True,
                      plat=(0, 1), ovr=True, graph=8),
        "scopes": S(["p", "q"], stages=(0, 1), reps=("none", "vg", "vs", "vc"), spell=("abs",), comps=2, refs=1, fixed=True,
                    priv=(0, 1), aggvar=(False, True), sv0=(0, 1), sv1=(0, 2), orders=("fwd", "rev"), graph=8),
        "scopes3": S(["p", "q", "r"], stages=(0,), reps=("none", "vg", "vs"), aggs=(False,), spell=("rel",), refs=1, fixed=True,
                     priv=(0, 3), sv0=(0, 1), orders=("fwd", "rev"), graph=16),
        # several references of one consumer to the SAME producer (other file / method / spelling), alone and mixed with
        # references to another producer; replicated, aggregating and plain consumers
        "multi2": S(["p", "q"], stages=(0, 1), paths=("", "out.txt"), methods=("ref", "copy"), styles=("same", "tail"), comps=2,
                    fixed=True, same=2, graph=2),
        "multi3p": S(["p", "q", "r"], spell=("rel",), paths=("", "out.txt"), refs=3, fixed=True, same=2, graph=8),
        "multi3m": S(["p", "q", "r"], spell=("rel",), methods=("ref", "copy"), refs=3, fixed=True, same=2, graph=8),
        "multi3s": S(["p", "q", "r"], refs=3, fixed=True, same=2, graph=8),
        "refs": S(["p", "q"], paths=("", "out.txt", "d/f.x"), methods=("ref", "copy", "output"),
                  styles=("same", "flip", "tail", "tail2"), comps=2, refs=1, fixed=True),
    },
    "thorough": {
        "suffix": S(["a", "ba", "ab", "c"], graph=16),
        "digit": S(["a", "a0", "a1", "a2"], reps=("none", "n3"), graph=16),
        "misc": S(["x.y", "a-b", "a.b", "c"], graph=16),
        "stages": S(["a", "c"], stages=(0, 1), reps=("none", "n2", "vs"), aggs=(False,), graph=8),
        "stages2": S(["a", "c"], stages=(0, 1), graph=8),
        "shape": S(["p", "q", "r", "s"], reps=("none", "n2"), spell=("rel",), orders=("fwd", "rev"), comps=4, fixed=True, graph=8),
        "shape3": S(["p", "q", "r"], reps=("none", "n1", "n2", "n3"), spell=("rel", "abs"), orders=("rev",), fixed=True,
                    styles=("same", "flip"), graph=16),
        "vars": S(["p", "q", "r"], stages=(0, 1), reps=ALL_REPS, aggs=(False,), spell=("abs",), comps=3, refs=1, fixed=True,
                  graph=4),
        "vars2": S(["p", "q"], stages=(0, 1), reps=ALL_REPS, spell=("abs",), comps=2, fixed=True),
        "refs": S(["p", "q"], paths=("", "out.txt", "d/f.x"), methods=("ref", "copy", "output", "link", "extract"),
                  styles=("same", "flip", "tail", "tail2"), comps=2, refs=1, fixed=True),
        "many": S(["p", "q", "r"], reps=("none", "n11"), comps=3, spell=("rel",), fixed=True, graph=4),
        "multi2": S(["p", "q"], stages=(0, 1), paths=("", "out.txt", "d/f.x"), methods=("ref", "copy"), comps=2, refs=3,
                    fixed=True, same=3, graph=2),
        "multi2t": S(["p", "q"], stages=(0, 1), paths=("", "out.txt"), methods=("ref", "copy"), styles=("same", "tail"), comps=2,
                     fixed=True, same=2),
        "multi3p": S(["p", "q", "r"], spell=("rel",), paths=("", "out.txt", "d/f.x"), refs=3, fixed=True, same=2, graph=16),
        "multi3m": S(["p", "q", "r"], spell=("rel",), methods=("ref", "copy", "output"), refs=3, fixed=True, same=2, graph=16),
        "multi3s": S(["p", "q", "r"], stages=(0, 1), refs=3, fixed=True, same=2, graph=8),
        "refs3": S(["a", "ba", "c"], paths=("", "out.txt"), styles=("same", "tail"), spell=("rel",), graph=16),
        "platform": S(["p", "q"], stages=(0, 1), reps=("none", "vg", "vs", "vc"), spell=("abs",), comps=2, refs=1, fixed=True,
                      aggvar=(False, True), sv0=(0, 2), sv1=(0, 2), plat=(0, 1), pg=(0, 1, 3), ps0=(0, 1), ps1=(0, 3), graph=8),
        "override": S(["p", "q", "r"], stages=(0, 1), reps=("none", "n2", "n3"), spell=("rel", "abs"), refs=2, fixed=True,
                      plat=(0, 1), ovr=True, graph=8),
        "ovrvars": S(["p", "q"], stages=(0, 1), reps=("none", "vg", "vs", "vc"), spell=("abs",), comps=2, refs=1, fixed=True,
                     aggvar=(False, True), priv=(0, 3), opriv=(0, 1, 2), plat=(0, 1), pg=(0, 3), ps0=(0, 1), sv0=(0, 2), graph=8),
        "platform3": S(["p", "q", "r"], stages=(0, 1), reps=("none", "vs"), spell=("abs",), refs=1, fixed=True,
                       sv0=(0, 2), sv1=(0,), plat=(0, 1), pg=(0, 3), ps0=(0, 1), ps1=(0,), graph=8),
        "scopes": S(["p", "q"], stages=(0, 1), reps=("none", "n2", "vg", "vs", "vc"), spell=("abs",), comps=2, refs=1, fixed=True,
                    priv=(0, 1, 3), aggvar=(False, True), sv0=(0, 1), sv1=(0, 2, 3), orders=("fwd", "rev"), graph=2),
        "scopes3": S(["p", "q", "r"], stages=(0, 1), reps=("none", "vg", "vs"), aggs=(False,), spell=("abs",), refs=1, fixed=True,
                     priv=(0, 1), sv0=(0, 1), sv1=(0, 2), orders=("rev",), graph=16),
    },
}

MODEL = {
    "quick": S(["a", "a1"], stages=(0, 1), reps=("none", "n2", "vs")),
    "thorough": S(["a", "ba", "a1"], stages=(0, 1), reps=("none", "n2", "vs")),
}


def _set(xs):
    def lit(x):
        if isinstance(x, bool):
            return "TRUE" if x else "FALSE"
        if isinstance(x, int):
            return str(x)
        return '"%s"' % x
    return "{" + ", ".join(lit(x) for x in xs) + "}"


def write_cfg(path, sl, emit, invariants, spec_props=""):
    body = ("CONSTANTS\n  Names = %s\n  Stages = %s\n  RepChoices = %s\n  AggChoices = %s\n  Spellings = %s\n  Paths = %s\n"
            "  Methods = %s\n  ArgStyles = %s\n  DocOrders = %s\n  MaxComps = %d\n  MaxRefs = %d\n  FixedNames = %s\n  Emit = %s\n"
            "  OvrPrivChoices = %s\n  PrivChoices = %s\n  AggVarChoices = %s\n  StageVals0 = %s\n  StageVals1 = %s\n  MaxSame = %d\n"
            "  Platforms = %s\n  PlatGlobalVals = %s\n  PlatStageVals0 = %s\n  PlatStageVals1 = %s\n  MsgStageVals = {0}\n"
            "SPECIFICATION Spec\n%sCHECK_DEADLOCK FALSE\n" % (
                _set(sl["names"]), _set(sl["stages"]), _set(sl["reps"]), _set(sl["aggs"]), _set(sl["spell"]), _set(sl["paths"]),
                _set(sl["methods"]), _set(sl["styles"]), _set(sl["orders"]), sl["comps"], sl["refs"],
                "TRUE" if sl["fixed"] else "FALSE", "TRUE" if emit else "FALSE",
                _set(sl["opriv"]), _set(sl["priv"]), _set(sl["aggvar"]), _set(sl["sv0"]), _set(sl["sv1"]), sl["same"],
                _set(sl["plat"]), _set(sl["pg"]), _set(sl["ps0"]), _set(sl["ps1"]),
                "".join("INVARIANT %s\n" % i for i in invariants)))
    with open(path, "w") as f:
        f.write(body)
    return path


# ---------------------------------------------------------------------------------------------------------------------
# classification of a failing input (the key of a violation)
def classify(case):
    comps = case["comps"]
    nodes = case.get("nodes") or []
    replicated = {nd["b"] for nd in nodes if nd["i"] >= 0}
    count = {nd["b"]: nd["c"] for nd in nodes if nd["i"] >= 0}
    found = set()
    for ci, c in enumerate(comps, start=1):
        if not (ci in replicated or c["g"]):
            continue
        rrefs = [r for r in c["r"] if r[0] in replicated]
        if not rrefs:
            continue

        def strings(r):
            prod = comps[r[0] - 1]
            return {wf_io.ref_string(prod, r[2], r[3], True), wf_io.ref_string(prod, r[2], r[3], False)}

        def written(r):
            prod = comps[r[0] - 1]
            return {wf_io.ref_string(prod, r[2], r[3], r[1] == "abs")} | set(wf_io.mentions(c, r, comps))

        for r in rrefs:
            keys = strings(r)
            for o in c["r"]:
                if o is r:
                    continue
                for w in written(o):
                    for k in keys:
                        if w == k or any(w == k + t for t in ("/sub/f.txt", "/x.txt", "/y.txt")):
                            found.add(K_STAGE)
                        elif k in w:
                            found.add(K_SUBSTR)
            for o in rrefs:
                if o is r:
                    continue
                a, b = comps[r[0] - 1], comps[o[0] - 1]
                if a["s"] == b["s"] and b["n"].startswith(a["n"]) and b["n"][len(a["n"]):].isdigit() \
                        and int(b["n"][len(a["n"]):]) < count.get(r[0], 0):
                    found.add(K_DIGIT)
            if c["g"] and r[4] == "tail2":
                found.add(K_TAIL2)
    for k in (K_STAGE, K_SUBSTR, K_DIGIT, K_TAIL2):
        if k in found:
            return k
    if case.get("ovr") and any(c["g"] and any(r[0] in replicated for r in c["r"]) for c in comps):
        return K_OVR
    feats = []
    if any(c["s"] == 1 for c in comps):
        feats.append("stages")
    if any(c["rep"].startswith("v") or c.get("av") for c in comps):
        feats.append("variable")
    if any(c.get("pv") for c in comps):
        feats.append("private-variables")
    if any(c.get("ov") for c in comps):
        feats.append("override-variables")
    sv = list(case.get("sv") or []) + [0] * 6
    if sv[2] == 1:
        feats.append("platform")
    elif any(sv[3:6]):
        feats.append("other-platform-defined")
    if any(len({r[0] for r in c["r"]}) < len(c["r"]) for c in comps):
        feats.append("several-refs-to-one-producer")
    if any(c["g"] for c in comps):
        feats.append("aggregate")
    if any(r[2] for c in comps for r in c["r"]):
        feats.append("path")
    if any(r[4] != "same" for c in comps for r in c["r"]):
        feats.append("argstyle")
    if case.get("order") == "rev":
        feats.append("reversed")
    return "replicate:" + ("+".join(feats) if feats else "plain")


# ---------------------------------------------------------------------------------------------------------------------
def compare(case, real, path):
    """-> list of mismatch descriptions (empty = conforms)."""
    status = case["status"]
    if real.get("error") == "_Hang":
        return ["%s: the code did not answer (%s)" % (path, real["msg"])]
    if "error" in real:
        if status == "ok":
            return ["%s: spec expects a successful expansion, the code raised %s: %s" % (path, real["error"], real["msg"][:300])]
        return []
    if status == "inconsistent":
        return ["%s: replica counts are inconsistent, the spec expects an error, the code produced %d nodes" % (path, real["n"])]
    if status == "collision":
        if path == "concrete":
            return []       # replicate() itself only builds the list; the duplicate is refused when the list is loaded
        return ["%s: a copy collides with another component, the spec expects an error, the code produced %d nodes" % (path, real["n"])]
    bad = []
    exp = {"stage%d.%s" % (nd["s"], nd["n"]): nd for nd in case["nodes"]}
    got = real["nodes"]
    if real.get("dup"):
        bad.append("%s: duplicate components %s" % (path, real["dup"]))
    if set(exp) != set(got) or real["n"] != len(exp):
        bad.append("%s: nodes %s, spec %s" % (path, sorted(got), sorted(exp)))
        return bad
    base_of = {nid: nd["b"] for nid, nd in exp.items()}
    for nid in sorted(exp):
        e, g = exp[nid], got[nid]
        stage = e["s"]
        erefs = [("ref", r[0], r[1], r[2], r[3], "") for r in e["r"]]
        grefs = [wf_io.parse_ref(t, stage) for t in g["refs"]]
        if sorted(map(str, erefs)) != sorted(map(str, grefs)):
            bad.append("%s: %s references %s, spec %s" % (path, nid, g["refs"], [_show(r) for r in erefs]))
        elif e["g"]:
            # copies of one declared reference must appear in index order
            pos = {}
            for i, r in enumerate(grefs):
                pos.setdefault((base_of.get("stage%d.%s" % (r[1], r[2])), r[3], r[4]), []).append(r)
            want = {}
            for r in erefs:
                want.setdefault((base_of.get("stage%d.%s" % (r[1], r[2])), r[3], r[4]), []).append(r)
            if any(pos[k] != want[k] for k in want):
                bad.append("%s: aggregating %s lists the copies as %s, spec (index order) %s" % (path, nid, g["refs"], [_show(r) for r in erefs]))
        eargs = [("lit", a[2]) if a[0] == "lit" else ("ref", a[1], a[2], a[3], a[4], a[5]) for a in e["a"]]
        gargs = wf_io.parse_args(g["args"], stage)
        if eargs != gargs:
            bad.append("%s: %s arguments %r, spec %r" % (path, nid, g["args"], " ".join(_show(a) for a in eargs)))
        if e["i"] >= 0:
            if g["replica"] != e["i"]:
                bad.append("%s: %s replica variable %r, spec %d" % (path, nid, g["replica"], e["i"]))
            if g["rep"] != e["c"]:
                bad.append("%s: %s workflowAttributes.replicate %r, spec %d" % (path, nid, g["rep"], e["c"]))
        else:
            if g["replica"] is not None:
                bad.append("%s: %s is not a copy but has replica variable %r" % (path, nid, g["replica"]))
            if not e["g"] and g["rep"] not in (None, 0):
                bad.append("%s: %s is outside the region but has workflowAttributes.replicate %r" % (path, nid, g["rep"]))
        if not case["comps"][e["b"] - 1].get("av") and bool(g["agg"]) != bool(e["g"]):     # (a flag given as %(ag)s stays a string)
            bad.append("%s: %s aggregate flag %r, spec %r" % (path, nid, g["agg"], e["g"]))
        if g["preds"] is not None:
            epreds = sorted({"stage%d.%s" % (r[0], r[1]) for r in e["r"]})
            if epreds != sorted(g["preds"]):
                bad.append("%s: %s consumes from %s, spec %s" % (path, nid, g["preds"], epreds))
    return bad


def _show(t):
    if t[0] == "lit":
        return t[1]
    return "stage%d.%s%s:%s%s" % (t[1], t[2], "/" + t[3] if t[3] else "", t[4], t[5])


def case_id(case):
    return json.dumps([case["comps"], case["order"], case.get("sv"), bool(case.get("ovr"))], sort_keys=True)


def check_cases(chk, cases, graph_every, procs, label="", ovr=False):
    """Execute cases on the real code (both paths) and compare with the spec."""
    work = []
    for i, case in enumerate(cases):
        if ovr:
            case["ovr"] = True
        paths = ("concrete", "graph") if (graph_every and i % graph_every == 0) or case["status"] != "ok" else ("concrete",)
        work.append((case, paths))
    results = wf_io.pool_map(wf_io.exec_case, work, procs)
    nviol = 0
    for (case, paths), res in zip(work, results):
        nontrivial = case["status"] != "ok" or any(nd["i"] >= 0 for nd in case["nodes"])
        chk.evaluated(case_id(case), nontrivial=nontrivial)
        if "graph" in res:
            chk.trace_validated()
        bad = []
        for p in paths:
            bad += compare(case, res[p], p)
        if bad:
            key = classify(case)
            flowir = wf_io.render_flowir(case)
            tally = chk.cov.setdefault("violations_by_key", {})
            tally[key] = tally.get(key, 0) + 1
            if chk.violation(key, "%s%s" % (("[%s] " % label) if label else "", "; ".join(bad[:3])),
                             {"kind": "case", "case": case, "paths": list(paths), "flowir": flowir}):
                nviol += 1
        elif nontrivial:
            chk.sample({"slice": label, "components": [wf_io.render_component(c, case["comps"]) for c in case["comps"]],
                        "order": case["order"], "status": case["status"],
                        "nodes": sorted("stage%d.%s" % (nd["s"], nd["n"]) for nd in case["nodes"])}, limit=4)
    return nviol


def run(tier):
    chk = Check(PID, tier)
    gen = os.path.join(SPEC, "gen")
    os.makedirs(gen, exist_ok=True)
    thorough = tier == "thorough"
    procs = max(1, min(12, (os.cpu_count() or 2) - 2))

    # the runtime is imported before the worker processes are forked
    from .. import realenv  # noqa: F401  (silences logging, imports experiment.*)

    results = {}
    errors = []

    def tlc_job(name, cfg, **kw):
        try:
            results[name] = tlc.run_tlc("Replicate", cfg, **kw)
        except Exception as e:      # re-raised in the main thread
            errors.append((name, e))

    threads = []
    # 1. the design on the broad family
    mcfg = write_cfg(os.path.join(gen, "Replicate_model_%s.cfg" % tier), MODEL[tier], False, INVARIANTS)
    threads.append(threading.Thread(target=tlc_job, args=("model", mcfg), kwargs=dict(workers=8, coverage=True, timeout=800)))
    # 2. the conformance slices
    slices = SLICES[tier]
    for name, sl in slices.items():
        cfg = write_cfg(os.path.join(gen, "Replicate_%s_%s.cfg" % (name, tier)), sl, True, ["EmitCase"])
        threads.append(threading.Thread(target=tlc_job, args=("slice:" + name, cfg), kwargs=dict(workers=1, timeout=800)))
    for t in threads:
        t.start()
    # 3. spec -> code, slice by slice as TLC finishes (fixed order: deterministic)
    seen = {"replicated": 0, "aggregated": 0, "inconsistent": 0, "collision": 0}
    total = 0
    for (name, sl), t in zip(slices.items(), threads[1:]):
        t.join()
        if errors:
            raise errors[0][1]
        r = results["slice:" + name]
        if not r["ok"]:
            raise MachineryError("Replicate.tla slice %s: TLC failed: %s" % (name, r["out"][-1500:]))
        cases = r["cases"]
        r["out"] = ""
        if len(cases) < 20:
            raise MachineryError("TLC emitted only %d cases for slice %s" % (len(cases), name))
        for c in cases:
            if c["status"] == "ok":
                if any(nd["i"] >= 0 for nd in c["nodes"]):
                    seen["replicated"] += 1
                if any(nd["g"] and any(x["b"] == r_[0] and x["i"] >= 0 for x in c["nodes"] for r_ in c["comps"][nd["b"] - 1]["r"])
                       for nd in c["nodes"]):
                    seen["aggregated"] += 1
            else:
                seen[c["status"]] += 1
        chk.add_tlc(r)
        total += len(cases)
        t1 = time.time()
        check_cases(chk, cases, sl["graph"], procs, label=name, ovr=sl["ovr"])
        chk.cov.setdefault("phases_s", {})[name] = {"tlc_emit": r["wall_s"], "cases": len(cases), "execute": round(time.time() - t1, 1)}
    threads[0].join()
    if errors:
        raise errors[0][1]
    m = results["model"]
    if not m["ok"]:
        raise MachineryError("Replicate.tla: invariant %s fails on the model:\n%s" % (m["violated"], m["out"][-2500:]))
    for act in ("AddComponent", "AddRef", "Expand"):
        if not m["coverage"].get(act):
            raise MachineryError("action %s of Replicate.tla never taken (vacuous run): %s" % (act, m["coverage"]))
    m["out"] = ""
    chk.add_tlc(m)
    for k, v in seen.items():
        if not v:
            raise MachineryError("no emitted case witnesses '%s' (vacuous invariants)" % k)
    if thorough:
        # the implication-shaped invariants have witnesses: each Never* must FAIL
        for wit in ("NeverReplicated", "NeverAggregated", "NeverInconsistent", "NeverCollision"):
            base = SLICES["quick"]["digit" if wit == "NeverCollision" else "shape"]
            cfg = write_cfg(os.path.join(gen, "Replicate_wit_%s.cfg" % wit), base, False, [wit])
            r = tlc.run_tlc("Replicate", cfg, workers=4, expect_violation=True, timeout=300)
            if r["violated"] != wit:
                raise MachineryError("witness %s was not reached: %s" % (wit, r["out"][-800:]))
    chk.cov["witnesses"] = seen
    chk.cov["rule"] = ("one case = one expanded state of spec/Replicate.tla (abstract workflow, document order) of the slices %s; "
                       "distinct_nontrivial = distinct workflows with a non-empty replicated region or an expected refusal; every case "
                       "runs through FlowIRConcrete.replicate(), traces_validated = cases also run through "
                       "WorkflowGraph.graphFromFlowIR(primitive=False)" % sorted(slices))
    chk.cov["exhaustive"] = True
    chk.assumptions += ["component names are drawn from the listed alphabets (<= %d components, <= 2 references per component)" %
                        max(sl["comps"] for sl in slices.values()),
                        "arguments are compared token by token after parsing references with the harness' own parser (spelling-insensitive)",
                        "an aggregating component that also asks for replicas, replicate: 0 and DoWhile placeholders are outside the family",
                        "an exception or a hang (60 s alarm) of the real code on a case the spec expands is reported as a VIOLATION",
                        "big slices run through graphFromFlowIR for every k-th case only (all cases run through FlowIRConcrete.replicate)",
                        "method copyout is not in the family: FlowIR.discover_reference_strings reads `p:copyout` in arguments as `p:copy` "
                        "+ `out` (alternation order of the methods), so a workflow mentioning a :copyout reference in its arguments never "
                        "validates, with or without replication (reference grammar, C09/C10, not replication)"]
    return chk.finish()


def replay(path):
    from .. import realenv  # noqa: F401
    d = json.load(open(path))
    chk = Check(PID, "quick")
    rp = d["replay"]
    case = rp["case"]
    res = wf_io.exec_case((case, tuple(rp.get("paths") or ("concrete", "graph"))))
    bad = []
    for p in res:
        bad += compare(case, res[p], p)
    chk.evaluated(case_id(case))
    if bad:
        chk.violation(classify(case), "; ".join(bad[:3]), rp)
    return chk.finish()
