"""G07 (growth item) -- DataStaging: what a component finds in its working directory when it starts, and what happens to it on
restart.  Spec: spec/DataStaging.tla (+ spec/DataStaging_trace.tla).  Real code bound: experiment.model.data.StageReference /
Job.stageIn, graph.DataReference.resolve, storage.WorkingDirectory / JobWorkingDirectory (inputs), runtime.workflow
.ComponentState.stageIn, data.Experiment.experimentFromInstance (= elaunch -r), on real experiment instances (harness/world_g07.py).

1. TLC on the design: the promises on the code as found and on the repaired design, the two findings as expected counterexamples
   on the code as found, the NAMED DEVIATIONS as expected counterexamples; per-action coverage.
2. spec -> code: EVERY behaviour of the emission slices (all single references: method x location x kind of the source; colliding
   and non-colliding pairs; histories of stage-in / source change / task write / restart with and without restaging / stage-in
   again for the interesting reference lists; a migrated consumer) is replayed on a real Job / ComponentState of a real experiment
   instance; the projection (names, kinds, link targets, content ids of the working directory AND of every source, the
   inputs list, isStaged, the error class, launched or not) is compared after every StageReference call and every event.
3. code -> spec: seeded random histories on the same world (random reference lists of 1-3 references, longer histories) are recorded
   and validated by TLC with DataStaging_trace.tla; one recorded field is corrupted as a self-test (must be rejected).

Which variant of the two findings the tree has is PROBED on the real code first (FixSkip / FixRestage; override with the environment
variables G07_FIX_SKIP / G07_FIX_RESTAGE = TRUE|FALSE); the specification is then run in that variant, and a finding that is still there
is reported as KNOWN-FINDING with the number of replayed behaviours that exercise it.
"""
import json
import multiprocessing
import os
import random
import re
import shutil
import time

from ..common import Check, MachineryError, SPEC
from .. import tlc

PID = "G07"
GEN = os.path.join(SPEC, "gen", "g07_%d" % os.getpid())

F_SKIP = "G07:tolerated-missing-reference-skips-the-remaining-references"
F_RESTAGE = "G07:restaging-over-an-earlier-stage-in-fails"
FINDING_TEXT = {
    F_SKIP: "Job.stageIn stops at the first missing reference; when ComponentState.stageIn tolerates it (any reference of a repeating component, "
            "a reference to a producer of the same stage) the component is launched although the references after it were never staged, its "
            "inputs were not recorded and its :copyout references were skipped",
    F_RESTAGE: "staging over what an earlier stage-in left (elaunch -r --restageData yes, or stageIn twice) fails with "
               "DataReferenceCouldNotStageError [EEXIST] for every :link reference and every :copy of a directory, and with a bare OSError "
               "(rmtree on a symbolic link) for a migrated component: a restart with --restageData cannot work for such components",
}

ALL_LOCS = ["in", "da", "ap", "apd", "pa", "pd", "pl", "pm", "pt", "pp", "pg", "qa", "qd", "sa", "wa"]
ALL_METHODS = ["copy", "link", "ref", "copyout", "extract", "output", "loopref", "loopoutput"]
ACTIONS = ["Begin", "Again", "Step", "End", "Mut", "Write", "Restart", "Iterate"]

INV_ASFOUND = ["TypeOK", "LinksNameSources", "MissingFails", "MissingNotLaunched", "StagedIsCurrent", "StillADirectory", "InputsAreStaged",
               "LaunchedIsStaged"]
PROP_ASFOUND = ["StagingLeavesSources", "SourceChangeInvisible", "RefStagesNothing", "UpdChangesNoFile", "RestartKeeps", "OwnOutputsSurvive",
                "StageInEnds"]
INV_PROMISE = ["FailDocumented", "NoHalfStagedLaunch", "Idempotent"]


def tla_set(xs):
    return "{" + ", ".join(('"%s"' % x) if isinstance(x, str) else str(x).upper() if isinstance(x, bool) else str(x) for x in xs) + "}"


BASE = dict(M1="{}", L1="{}", M2="{}", L2="{}", M3="{}", L3="{}", Lens="{1}", Shape='"any"', Reps="{FALSE}", Mig="FALSE", AltKinds="{}",
            WithLinks="FALSE", MutLocs="{}", MutHows="{}", WriteTargets="{}", MaxMut=0, MaxWrite=0, MaxRestart=0, MaxAgain=0, MaxEvents=0,
            Restages="{}", Iterates="FALSE", FixSkip="FALSE", FixRestage="FALSE", GlobLiteral="TRUE", Emit="FALSE")


def cfg(name, consts, body):
    os.makedirs(GEN, exist_ok=True)
    for f in ("DataStaging.tla", "DataStaging_trace.tla"):
        if not os.path.exists(os.path.join(GEN, f)) and os.path.exists(os.path.join(SPEC, f)):
            shutil.copy(os.path.join(SPEC, f), os.path.join(GEN, f))
    c = dict(BASE)
    c.update(consts)
    path = os.path.join(GEN, name + ".cfg")
    with open(path, "w") as f:
        f.write("CONSTANTS\n" + "".join("  %s = %s\n" % kv for kv in c.items()) + body + "CHECK_DEADLOCK FALSE\n")
    return path


def P(ms, ls):
    return tla_set(ms), tla_set(ls)


def slice_consts(m1=(), l1=(), m2=(), l2=(), m3=(), l3=(), lens=(1,), shape="any", reps=(False,), mig=False, alt=(), links=False,
                 mutlocs=(), muthows=(), writes=(), maxmut=0, maxwrite=0, maxrestart=0, maxagain=0, maxevents=0, restages=(), iterates=False):
    return dict(M1=tla_set(m1), L1=tla_set(l1), M2=tla_set(m2), L2=tla_set(l2), M3=tla_set(m3), L3=tla_set(l3), Lens=tla_set(lens),
                Shape='"%s"' % shape, Reps=tla_set(reps), Mig="TRUE" if mig else "FALSE", AltKinds=tla_set(alt),
                WithLinks="TRUE" if links else "FALSE", MutLocs=tla_set(mutlocs), MutHows=tla_set(muthows), WriteTargets=tla_set(writes),
                MaxMut=maxmut, MaxWrite=maxwrite, MaxRestart=maxrestart, MaxAgain=maxagain, MaxEvents=maxevents, Restages=tla_set(restages), Iterates="TRUE" if iterates else "FALSE")


HOWS = ["mod", "rm", "mkfile", "mkdir"]


def slices(tier):
    """name -> constants of the emission slices (every behaviour of each is replayed on the real code)"""
    th = tier == "thorough"
    S = {}
    # every method x location x kind of the source (missing / file / directory), non-repeating and repeating consumer; stage-in, again
    S["single"] = slice_consts(m1=ALL_METHODS, l1=ALL_LOCS, lens=(1,), reps=(False, True), alt=("none", "file", "dir"), maxagain=1, maxevents=1)
    # two references staging the same name: who wins / which error; then stage-in again and a restart with / without restaging
    coll_m, coll_l = ["copy", "link", "copyout", "extract"], (["in"] if th else []) + ["da", "pa", "qa", "pd", "qd", "pt", "sa"]
    S["collide"] = slice_consts(m1=coll_m, l1=coll_l, m2=coll_m, l2=coll_l, lens=(2,), shape="collide", alt=("none",) if not th else ("none", "dir"),
                                maxagain=1, maxrestart=1, maxevents=2 if th else 1, restages=(True, False))
    # two references staging different names: the order (direct first, :copyout last), the inputs list, tolerated missing sources
    ord_m, ord_l = ["copy", "link", "ref", "copyout", "output"], ["da", "apd", "pa", "qd", "sa"] if th else ["da", "pa", "qd", "sa"]
    S["order"] = slice_consts(m1=ord_m, l1=ord_l, m2=ord_m, l2=ord_l, lens=(2,), shape="distinct", reps=(False, True), alt=("none",),
                              maxrestart=1 if th else 0, maxevents=1 if th else 0, restages=(True,))
    # histories
    ev = dict(muthows=HOWS, maxmut=1, maxwrite=1, maxrestart=1, maxagain=1, maxevents=4 if th else 3, restages=(True, False))
    deep = dict(ev, maxmut=2) if th else ev
    S["hist-file"] = slice_consts(m1=["copy", "link", "copyout"], l1=["pa", "da"], mutlocs=["pa", "da"], writes=["o", "a"], **deep)
    S["hist-dir"] = slice_consts(m1=["copy", "link"], l1=["pd", "apd"], mutlocs=["pd", "apd"], writes=["o", "d/a", "d/o"], **deep)
    S["hist-extract"] = slice_consts(m1=["extract"], l1=["pt"], m2=["copy", "link"], l2=["qa", "qd"], lens=(1, 2), mutlocs=["pt", "qa"], writes=["o", "a", "d/o"], **ev)
    S["hist-skip"] = slice_consts(m1=["copy", "link", "ref"] if th else ["copy", "ref"], l1=["sa"], m2=["copy", "link", "copyout"] if th else ["copy", "copyout"],
                                  l2=["pa", "da"], lens=(2,), alt=("none",),
                                  reps=(False, True), mutlocs=["sa"], writes=["o", "a"], **dict(ev, maxevents=2))
    if th:
        S["hist-skip3"] = slice_consts(m1=["copy", "ref"], l1=["sa"], m2=["copy", "copyout"], l2=["pa", "da"], lens=(2,), alt=("none",),
                                       mutlocs=["sa"], writes=["o", "a"], **dict(ev, maxevents=3))
    S["hist-tree"] = slice_consts(m1=["copy", "link"], l1=["pp", "pl", "pm"], links=True, mutlocs=["pa", "qa"],
                                  writes=["o", "l", "p/a", "p/l", "p/m"] , **dict(ev, maxagain=0))
    S["hist-two"] = slice_consts(m1=["copy", "link"], l1=["pa", "pd"], m2=["copy", "copyout", "link"], l2=["qa", "qd"], lens=(2,),
                                 mutlocs=["pa", "qa"], muthows=["mod", "rm"], writes=["a", "d/a"],
                                 maxmut=1, maxwrite=1, maxrestart=1, maxagain=0, maxevents=2 if not th else 3, restages=(True, False))
    # a placeholder of a loop: the latest iteration is staged, :loopref / :loopoutput check every iteration and stage nothing; the loop iterates
    loop_m = ["copy", "link", "ref", "copyout", "loopref", "loopoutput"]
    S["hist-loop"] = slice_consts(m1=loop_m, l1=["wa"], lens=(1,), alt=("none",) if th else (),
                                  mutlocs=["w0", "w1"], muthows=["mod", "rm", "mkfile"] if th else ["mod", "rm"], writes=["o", "a"] if th else ["a"], iterates=True,
                                  maxmut=1, maxwrite=1, maxrestart=1, maxagain=1, maxevents=3, restages=(True, False) if th else (True,))
    S["hist-loop2"] = slice_consts(m1=["copy", "link", "loopref"], l1=["wa"], m2=["copy", "link"], l2=["wa", "pa"], lens=(2,), alt=("none",) if th else (),
                                   mutlocs=["w1"], muthows=["mod", "rm"], iterates=True, maxmut=1, maxrestart=1, maxagain=1, maxevents=2, restages=(True,))
    S["migrated"] = slice_consts(mig=True, mutlocs=["pa"], writes=["a"], **dict(ev, maxrestart=2, maxevents=4))
    if th:
        S["hist-glob"] = slice_consts(m1=["copy", "link", "ref"], l1=["pg"], mutlocs=["pa"], writes=["o"], **ev)
        three_l = ["da", "pa", "qa", "pd"]
        S["three"] = slice_consts(m1=["copy", "link", "copyout"], l1=three_l, m2=["copy", "link", "copyout"], l2=three_l, m3=["copy", "link", "copyout"], l3=three_l,
                                  lens=(3,), alt=("none",), maxrestart=1, maxevents=1, restages=(True,))
    else:
        S["hist-glob"] = slice_consts(m1=["copy", "link", "ref"], l1=["pg"], mutlocs=["pa"], muthows=["rm", "mkfile"], maxmut=1, maxagain=1, maxevents=2)
    return S


# --------------------------------------------------------------------------------------------------------------------------
# 1. the model

def must_hold(chk, r, what):
    if not r["ok"]:
        raise MachineryError("DataStaging.tla: %s: %s fails on the model\n%s" % (what, r["violated"], r["out"][-2500:]))
    chk.add_tlc(r)


def must_fail(chk, r, what, prop):
    v = r["violated"]
    if v != prop and not (v and "Temporal" in str(v)) and ("%s is violated" % prop) not in r["out"] and ("%s was violated" % prop) not in r["out"]:
        raise MachineryError("DataStaging.tla: expected a counterexample to %s (%s), got %s\n%s" % (prop, what, v, r["out"][-1500:]))
    chk.add_tlc(r)


def design_consts(tier):
    th = tier == "thorough"
    m = ["copy", "link", "copyout", "ref", "extract"]
    return slice_consts(m1=m, l1=["pa", "pd", "sa", "pt", "da"], m2=["copy", "link", "copyout"], l2=["qa", "qd", "pa"], lens=(1, 2), reps=(False, True),
                        alt=("none",), mutlocs=["pa", "pd", "sa"], muthows=["mod", "rm", "mkfile"], writes=["o", "a", "d/a", "d/o"],
                        maxmut=1, maxwrite=1, maxrestart=1, maxagain=1, maxevents=3 if th else 2, restages=(True, False))


def model_jobs(tier):
    th = tier == "thorough"
    base = design_consts(tier)
    tree = slice_consts(m1=["copy", "link"], l1=["pp", "pl", "pm"], links=True, mutlocs=["pa", "qa"], muthows=["mod", "rm"],
                        writes=["o", "l", "p/a", "p/l", "p/m"], maxmut=1, maxwrite=1, maxrestart=1, maxagain=1, maxevents=2, restages=(True, False))
    migc = slice_consts(mig=True, mutlocs=["pa"], muthows=["mod", "rm", "mkfile"], writes=["a"], maxmut=1, maxwrite=1, maxrestart=2, maxagain=1, maxevents=3,
                        restages=(True, False))
    loopc = slice_consts(m1=["copy", "link", "ref", "copyout", "loopref", "loopoutput", "output"], l1=["wa"], m2=["copy", "link"], l2=["pa", "wa"], lens=(1, 2),
                         alt=("none", "dir") if th else ("none",), mutlocs=["w0", "w1"], muthows=["mod", "rm", "mkfile"], writes=["o", "a"], iterates=True,
                         maxmut=1, maxwrite=1, maxrestart=1, maxagain=2 if th else 1, maxevents=3, restages=(True, False))
    body = lambda inv, prop: "SPECIFICATION Spec\n" + "".join("INVARIANT %s\n" % i for i in inv) + "".join("PROPERTY %s\n" % p for p in prop)
    jobs = []        # (kind, name, consts, body, property expected to fail, coverage)
    jobs.append(("hold", "asfound", base, body(INV_ASFOUND, PROP_ASFOUND), None, True))
    jobs.append(("hold", "asfound_loop", loopc, body(INV_ASFOUND + ["FailDocumented"], PROP_ASFOUND), None, True))
    jobs.append(("hold", "asfound_tree", tree, body(INV_ASFOUND + ["FailDocumented"], PROP_ASFOUND), None, False))
    jobs.append(("hold", "asfound_mig", migc, body(INV_ASFOUND, PROP_ASFOUND), None, False))
    fixed = dict(FixSkip="TRUE", FixRestage="TRUE")
    for nm, c in (("promise", base), ("promise_tree", tree), ("promise_mig", migc), ("promise_loop", loopc)):
        jobs.append(("hold", nm, dict(c, **fixed), body(INV_ASFOUND + INV_PROMISE, PROP_ASFOUND), None, False))
    # the two findings: the promise fails on the code as found
    jobs.append(("fail", "finding_NoHalfStagedLaunch", base, "SPECIFICATION Spec\nINVARIANT NoHalfStagedLaunch\n", "NoHalfStagedLaunch", False))
    jobs.append(("fail", "finding_Idempotent", base, "SPECIFICATION Spec\nINVARIANT Idempotent\n", "Idempotent", False))
    jobs.append(("fail", "finding_FailDocumented", migc, "SPECIFICATION Spec\nINVARIANT FailDocumented\n", "FailDocumented", False))
    # each repair alone is not enough for the other promise
    jobs.append(("fail", "skipfix_Idempotent", dict(base, FixSkip="TRUE"), "SPECIFICATION Spec\nINVARIANT Idempotent\n", "Idempotent", False))
    jobs.append(("fail", "restagefix_NoHalfStagedLaunch", dict(base, FixRestage="TRUE"), "SPECIFICATION Spec\nINVARIANT NoHalfStagedLaunch\n", "NoHalfStagedLaunch", False))
    # named deviations (with the repairs in place: they are not the findings)
    globc = slice_consts(m1=["copy", "link", "ref"], l1=["pg"], maxagain=1, maxevents=1)
    for prop, c, inv in (("GlobHonoured", dict(globc, **fixed), True), ("MissingNeverLaunched", dict(base, **fixed), True),
                         ("FailureRollsBack", dict(base, **fixed), False), ("CopyWritesStayPrivate", dict(tree, **fixed), False),
                         ("WritesStayPrivate", dict(base, **fixed), False), ("OwnOutputsNeverInputs", dict(base, **fixed), True),
                         ("CopyoutNeverInput", dict(base, **fixed), True)):
        jobs.append(("fail", "dev_" + prop, c, "SPECIFICATION Spec\n%s %s\n" % ("INVARIANT" if inv else "PROPERTY", prop), prop, False))
    # the glob honoured: the promise holds
    jobs.append(("hold", "glob_promise", dict(globc, GlobLiteral="FALSE", **fixed), body(["TypeOK", "GlobHonoured", "StagedIsCurrent"], []), None, False))

    return jobs


def _model_child(conn, tier):
    """runs in a process of its own (its threads wait for TLC processes) so that the parent stays single-threaded while it forks pools"""
    from concurrent.futures import ThreadPoolExecutor
    try:
        jobs = model_jobs(tier)

        def one(job):
            kind, name, consts, b, prop, cover = job
            r = tlc.run_tlc("DataStaging", cfg("mc_" + name, consts, b), workers=4, timeout=1500, coverage=cover, expect_violation=prop is not None, specdir=GEN)
            if cover:
                r["coverage"] = action_coverage(r["out"])
            r["out"] = r["out"][-3000:]
            return (kind, name, prop, cover), r
        with ThreadPoolExecutor(max_workers=4) as ex:
            conn.send(("ok", list(ex.map(one, jobs))))
    except BaseException as e:      # noqa: reported by the parent
        conn.send(("error", "%s: %s" % (type(e).__name__, e)))
    finally:
        conn.close()


def start_model_check(tier):
    ctx = multiprocessing.get_context("fork")
    parent, child = ctx.Pipe(duplex=False)
    pr = ctx.Process(target=_model_child, args=(child, tier))
    pr.start()
    child.close()
    return pr, parent


def finish_model_check(chk, handle):
    pr, conn = handle
    try:
        status, results = conn.recv()
    except EOFError:
        raise MachineryError("the model-checking process died")
    pr.join()
    if status != "ok":
        raise MachineryError("model checking failed: %s" % results)
    named = []
    covered = {}
    for (kind, name, prop, cover), r in results:
        if kind == "fail":
            must_fail(chk, r, name, prop)
            named.append(name)
        else:
            must_hold(chk, r, name)
        if cover:
            for a, n in r["coverage"].items():
                covered[a] = covered.get(a, 0) + n
    for act in ACTIONS:
        if not covered.get(act):
            raise MachineryError("action %s of DataStaging.tla never taken (vacuous run): %s" % (act, covered))
    chk.cov["expected_counterexamples"] = sorted(named)


def action_coverage(out):
    cov = {}
    for m in re.finditer(r"<(\w+) line \d+, col \d+ to line \d+, col \d+ of module DataStaging>: (\d+):(\d+)", out):
        cov[m.group(1)] = cov.get(m.group(1), 0) + int(m.group(3))
    return cov


# --------------------------------------------------------------------------------------------------------------------------
# 2. spec -> code

def lab_t(l):
    return (l["e"], l["a"], l["b"], l["n"])


def emit_slice(args):
    name, consts = args
    r = tlc.run_tlc("DataStaging", cfg("emit_" + name, dict(consts, Emit="TRUE"), "SPECIFICATION Spec\nINVARIANT EmitState\n"), workers=1, timeout=1500,
                    specdir=GEN, jvm=["-Xss16m"])
    if not r["ok"]:
        raise MachineryError("emission slice %s failed: %s" % (name, r["out"][-2000:]))
    states = r.pop("cases")
    r["out"] = ""
    return name, r, states


def _replay_chunk(args):
    items, root = args
    from .. import world_g07 as W
    results = []
    world = None
    cur_hd = None
    try:
        for hd, init, sub, leaves in items:
            hk = json.dumps(hd, sort_keys=True)
            if hk != cur_hd:
                if world is not None:
                    world.close()
                world = W.World(os.path.join(root, "w%d" % len(results)), hd)
                cur_hd = hk
            src0 = {l: v for l, v in init["src"].items()}
            for h in leaves:
                results.append(replay_one(W, world, hd, src0, [list(x) for x in h], [sub[h[:k]] for k in range(1, len(h) + 1)]))
    finally:
        if world is not None:
            world.close()
    return results


def replay_one(W, world, hd, src0, labels, expected):
    """labels: the history; expected: the model's projection after each label.  -> (ok, key, what, nsteps, dev)"""
    try:
        world.reset(src0)
        i = 0
        n = len(labels)
        while i < n:
            lab = tuple(labels[i])
            if lab[0] not in ("begin", "again", "restart", "mut", "write", "iter"):
                return (False, "replay:%s:missing-step" % lab[0], "the specification takes the step %s here, the real stage-in had already ended; history %s" % (lab, labels[:i]), i, [])
            steps, box = world.apply(lab)
            for rl, rp in steps:
                if i >= n or tuple(labels[i]) != tuple(rl):
                    return (False, "replay:%s:unexpected-step" % rl[0], "the real code performs %s where the specification has %s; history %s; %s" % (
                        rl, labels[i] if i < n else "nothing (the stage-in has ended)", labels[:i], box.get("detail", "")), i, [])
                diff = W.differences(rp, W.model_projection(expected[i]))
                if diff:
                    return (False, klass(hd, labels, i), "after %s of history %s [references %s, repeating %s, migrated %s]: %s %s" % (
                        list(rl), [list(x) for x in labels[:i]], [W.refstr(r) for r in hd["refs"]], hd["rep"], hd["mig"], "; ".join(diff), box.get("detail", "")), i, [])
                i += 1
        return (True, None, None, n, expected[-1]["dev"] if expected else [])
    except Exception as e:      # noqa: the real code (or the harness) raised where nothing should
        import traceback
        return (False, "replay:exception:%s" % type(e).__name__, "%s\n%s" % (e, traceback.format_exc()[-1200:]), 0, [])


def klass(hd, labels, i):
    """canonical class of a mismatch: the event it shows at (a step: the method of its reference) + the kind of consumer"""
    lab = labels[i]
    ev = lab[0]
    if ev == "step":
        ev = "step-" + (hd["refs"][lab[3] - 1]["m"] if lab[1] == "ref" and lab[3] >= 1 else lab[1])
    elif ev == "restart":
        ev = "restart-" + lab[1]
    return "staging:%s%s%s" % (ev, ":repeating" if hd["rep"] else "", ":migrated" if hd["mig"] else "")


def split(xs, n):
    k = max(1, (len(xs) + n - 1) // n)
    return [xs[i:i + k] for i in range(0, len(xs), k)]


def spec_to_code(chk, tier, variant, only=None):
    fix = dict(FixSkip="TRUE" if variant["skip"] else "FALSE", FixRestage="TRUE" if variant["restage"] else "FALSE")
    S = slices(tier)
    if only:
        S = {k: v for k, v in S.items() if k in only}
    ctx = multiprocessing.get_context("fork")
    with ctx.Pool(min(12, len(S))) as p:
        emitted = p.map(emit_slice, [(k, dict(v, **fix)) for k, v in S.items()])
    work = []           # units: (header, initial projection, {history prefix: expected projection}, [leaf histories])
    nb = 0
    per_slice = {}
    for name, r, states in emitted:
        chk.add_tlc(r)
        # index the states of this slice: (initial state id, history) -> state
        by = {}
        for st in states:
            h = tuple(lab_t(l) for l in st["h"])
            by.setdefault(json.dumps(st["hd"], sort_keys=True), []).append((h, st))
        count = 0
        for hk, lst in by.items():
            hd = lst[0][1]["hd"]
            # several initial states per header: every emitted state carries its initial sources (i0), a behaviour is identified
            # by header + initial sources + history
            inits = [st for h, st in lst if not h]
            if not inits:
                raise MachineryError("slice %s: no initial state emitted for %s" % (name, hk))
            tries = {}
            for st0 in inits:
                tries[json.dumps(st0["s"]["i0"], sort_keys=True)] = (st0, {})
            for h, st in lst:
                tries[json.dumps(st["s"]["i0"], sort_keys=True)][1][h] = st["s"]
            for i0, (st0, tr) in tries.items():
                hs = set(tr)
                prefixes = set()
                for h in hs:
                    for k in range(len(h)):
                        prefixes.add(h[:k])
                leaves = sorted(h for h in hs if h not in prefixes and h)
                # units of <= 200 behaviours (one real experiment each): the leaves + the projections of all their prefixes
                for u in range(0, len(leaves), 200):
                    part = leaves[u:u + 200]
                    sub = {}
                    for h in part:
                        for k in range(1, len(h) + 1):
                            if h[:k] not in tr:
                                raise MachineryError("slice %s: state for history prefix %s was not emitted" % (name, h[:k]))
                            sub[h[:k]] = tr[h[:k]]
                    work.append((hd, st0["s"], sub, part))
                count += len(leaves)
        per_slice[name] = count
        nb += count
    if nb < (200 if only is None else 1):
        raise MachineryError("only %d behaviours emitted" % nb)
    # balance the units over the worker processes
    work.sort(key=lambda w: -len(w[3]))
    nproc = 14
    bins = [[] for _ in range(nproc)]
    load = [0] * nproc
    for w in work:
        j = load.index(min(load))
        bins[j].append(w)
        load[j] += len(w[3]) + 3
    for b in bins:
        b.sort(key=lambda w: json.dumps(w[0], sort_keys=True))
    chunks = [(b, os.path.join(chk.scratch, "rp_%d" % i)) for i, b in enumerate(bins) if b]
    del emitted
    hs = start_hashseed_runs(chk, work)
    with ctx.Pool(len(chunks)) as p:
        res = p.map(_replay_chunk, chunks)
    found = {}
    steps = 0
    hits = {"skip": 0, "restage": 0}
    k = 0
    for (b, _root), rs in zip(chunks, res):
        it = iter(rs)
        for hd, init, _sub, leaves in b:
            for h in leaves:
                labels = [list(x) for x in h]
                ok, key, what, n, dev = next(it)
                k += 1
                chk.evaluated(("behaviour", json.dumps(hd, sort_keys=True), json.dumps(init["src"], sort_keys=True), json.dumps(labels)))
                steps += n
                if ok:
                    chk.trace_validated()
                    for d in dev:
                        hits[d] = hits.get(d, 0) + 1
                    if k % 997 == 1:
                        chk.sample({"references": ["%s:%s" % (r["l"], r["m"]) for r in hd["refs"]], "history": ["/".join(str(x) for x in l if x != "") for l in labels],
                                    "result": "equal after every step"}, limit=6)
                elif key not in found:
                    found[key] = (what, {"kind": "behaviour", "header": hd, "src": init["src"], "labels": labels})
    # the same behaviours under other hash seeds: the order of staging (hence who wins a collision) must not depend on it
    nhs = 0
    for seed_value, units, rs in finish_hashseed_runs(hs):
        it = iter(rs)
        for hd, init, _sub, leaves in units:
            for h in leaves:
                ok, key, what, n, dev = next(it)
                nhs += 1
                chk.evaluated(("behaviour-hashseed", seed_value, json.dumps(hd, sort_keys=True), json.dumps(init["src"], sort_keys=True), json.dumps(h)))
                if ok:
                    chk.trace_validated()
                else:
                    key = "hashseed:" + key
                    if key not in found:
                        found[key] = ("with PYTHONHASHSEED=%s: %s" % (seed_value, what), {"kind": "behaviour", "hashseed": seed_value, "header": hd, "labels": [list(x) for x in h]})
    chk.cov["behaviours_replayed_under_other_hash_seeds"] = nhs
    for key in sorted(found):
        chk.violation(key, found[key][0], found[key][1])
    chk.cov["behaviours_replayed"] = nb
    chk.cov["behaviours_per_slice"] = per_slice
    chk.cov["steps_compared"] = steps
    return hits


HASH_SEEDS = (1, 4242)


def start_hashseed_runs(chk, work, sample=True):
    """a sample of the multi-reference behaviours is replayed by fresh interpreters with other values of PYTHONHASHSEED"""
    import pickle
    import subprocess
    import sys
    if sample:
        multi = [w for w in work if len(w[0]["refs"]) >= 2]
        if not multi:
            return []
        rnd = random.Random(chk.seed)
        rnd.shuffle(multi)
        units = []
        for hd, init, sub, leaves in multi[:160]:
            part = leaves[:8]
            units.append((hd, init, {h[:k]: sub[h[:k]] for h in part for k in range(1, len(h) + 1)}, part))
        units.sort(key=lambda w: json.dumps(w[0], sort_keys=True))
    else:
        units = list(work)
    out = []
    for sv in HASH_SEEDS:
        path = os.path.join(chk.scratch, "hashseed_%d.pkl" % sv)
        with open(path, "wb") as f:
            pickle.dump((units, os.path.join(chk.scratch, "hs_%d" % sv)), f)
        env = dict(os.environ, PYTHONHASHSEED=str(sv), VERIF_NO_REEXEC="1", LOGNAME="%s-hs%d" % (os.environ.get("LOGNAME", "verif"), sv))
        code = "import sys; sys.path.insert(0, %r); import warnings; warnings.simplefilter('ignore'); from harness.checks import g07; g07._hashseed_main(%r)" % (
            os.path.dirname(os.path.dirname(os.path.dirname(os.path.abspath(__file__)))), path)
        out.append((sv, units, path, subprocess.Popen([sys.executable, "-c", code], env=env, stdout=subprocess.PIPE, stderr=subprocess.STDOUT, text=True)))
    return out


def _hashseed_main(path):
    import pickle
    with open(path, "rb") as f:
        units, root = pickle.load(f)
    rs = _replay_chunk((units, root))
    with open(path + ".out", "wb") as f:
        pickle.dump((os.environ.get("PYTHONHASHSEED"), rs), f)


def finish_hashseed_runs(hs):
    import pickle
    out = []
    for sv, units, path, proc in hs:
        txt, _ = proc.communicate(timeout=1200)
        if proc.returncode != 0 or not os.path.exists(path + ".out"):
            raise MachineryError("the replay under PYTHONHASHSEED=%s failed:\n%s" % (sv, (txt or "")[-2000:]))
        with open(path + ".out", "rb") as f:
            seen, rs = pickle.load(f)
        if seen != str(sv):
            raise MachineryError("the interpreter of the hash-seed run reports PYTHONHASHSEED=%s, wanted %s" % (seen, sv))
        out.append((sv, units, rs))
    return out


# --------------------------------------------------------------------------------------------------------------------------
# which variant is the tree?

def _probe(args):
    root, = args
    from .. import world_g07 as W
    out = {}
    # FixRestage: a link and a directory copy staged twice
    w = W.World(os.path.join(root, "p1"), {"refs": [{"m": "link", "l": "pa"}, {"m": "copy", "l": "pd"}], "rep": False, "mig": False})
    w.reset({"pa": {"k": "file", "c": 5}, "pd": {"k": "dir", "c": 6}})
    out["created"] = dict(w.created)
    w.apply(("begin", "", "", 0))
    w.apply(("again", "", "", 0))
    a = w.res == "ok"
    w.close()
    w = W.World(os.path.join(root, "p2"), {"refs": [{"m": "link", "l": "pp"}], "rep": False, "mig": True})
    w.reset({"pa": {"k": "file", "c": 5}})
    w.apply(("begin", "", "", 0))
    w.apply(("restart", "restage", "", 0))
    b = w.res == "ok"
    w.close()
    out["restage"] = a and b
    out["restage_partial"] = a != b
    # FixSkip: a tolerated missing reference followed by one that exists
    w = W.World(os.path.join(root, "p3"), {"refs": [{"m": "copy", "l": "sa"}, {"m": "copy", "l": "pa"}], "rep": False, "mig": False})
    w.reset({"pa": {"k": "file", "c": 5}})
    w.apply(("begin", "", "", 0))
    out["skip"] = any(e[0] == ("a",) for e in w.project()["wd"])
    w.close()
    return out


def probe_variant(chk):
    ctx = multiprocessing.get_context("fork")
    with ctx.Pool(1) as p:
        v, = p.map(_probe, [(os.path.join(chk.scratch, "probe"),)])
    for name, key in (("G07_FIX_SKIP", "skip"), ("G07_FIX_RESTAGE", "restage")):
        e = os.environ.get(name)
        if e is not None:
            if e.upper() not in ("TRUE", "FALSE"):
                raise MachineryError("%s must be TRUE or FALSE" % name)
            v[key] = e.upper() == "TRUE"
    return v


# --------------------------------------------------------------------------------------------------------------------------

def run(tier, only=None):
    if only is None and os.environ.get("G07_ONLY"):
        only = os.environ["G07_ONLY"].split(",")        # development switch: these emission slices only, no model checking, no traces
    chk = Check(PID, tier)
    os.makedirs(GEN, exist_ok=True)
    try:
        t0 = time.time()
        variant = probe_variant(chk)
        chk.evaluated(("instance-creation",))
        if variant["created"] != {"in": 1, "da": 2, "ap": 3, "app-is-link": True}:
            chk.violation("instance:direct-sources-at-creation", "a new instance was created with the input file <dir>/user_input.txt:a (rename form), "
                          "the package file data/a and the application dependency app.application; expected input/a = 1, data/a = 2, app/a = 3 through "
                          "the link app; found %s" % variant["created"], {"kind": "instance"})
        chk.cov["variant_of_the_tree"] = {"FixSkip": variant["skip"], "FixRestage": variant["restage"]}
        dev = only is not None                     # development run: the named emission slices and / or "traces" only
        sl = [x for x in (only or []) if x != "traces"]
        # the design model is checked by TLC processes (driven from a child process) while the behaviours are emitted and replayed
        handle = start_model_check(tier) if not dev else None
        from .. import g07_cli
        cli = g07_cli.start(chk.scratch, restart=True) if not dev else None      # one end-to-end scenario on the real elaunch.py, in the background
        try:
            hits = spec_to_code(chk, tier, variant, sl or None) if (not dev or sl) else {}
            t1 = time.time()
            if handle is not None:
                finish_model_check(chk, handle)
        finally:
            if handle is not None and handle[0].is_alive():
                handle[0].terminate()
        t2 = time.time()
        if not dev or "traces" in only:
            from .. import g07_traces
            g07_traces.code_to_spec(chk, tier, variant, GEN, cfg)
        if cli is not None:
            try:
                problems = g07_cli.finish(cli)
            except RuntimeError as e:
                raise MachineryError("end-to-end scenario: %s" % e)
            chk.evaluated(("cli", "stage-then-launch + restart without restaging"))
            for key, what in problems:
                chk.violation(key, what, {"kind": "cli"})
            if not problems:
                chk.trace_validated()
            chk.cov["end_to_end_elaunch_runs"] = 2
        t3 = time.time()
        chk.cov["phase_wall_s"] = dict(replay=round(t1 - t0, 1), model_after_replay=round(t2 - t1, 1), traces=round(t3 - t2, 1))
        chk.cov["finding_behaviours"] = hits
        chk.cov["rule"] = ("EVERY behaviour TLC enumerates for the emission slices (all single references: 6 methods x 14 locations x source missing / file / "
                           "directory x repeating or not; all colliding pairs and all non-colliding pairs over reduced alphabets; bounded histories of "
                           "stage-in / source change / task write / restart +- restaging / stage-in again for files, directories, archives, producer trees "
                           "with symbolic links, tolerated missing sources, two-reference lists, a migrated consumer, globs) replayed on a real experiment "
                           "instance and compared after every StageReference call and event; seeded random histories validated by TLC; distinct = "
                           "distinct behaviours / seeds")
        chk.cov["exhaustive"] = True
        chk.assumptions += [
            "the file system is modelled at the granularity of directory entries of the working directory and of 12 source locations (kind, content id, "
            "link target); permissions, timestamps, hard links, partial writes and concurrent producers are not modelled",
            "a stage-in is atomic w.r.t. the environment: sources do not change between two references of one stage-in",
            "launch = ComponentState.stageIn returns normally (Controller.finalize_submit_components launches exactly then, reports FAILED on "
            "DataReferenceFilesDoNotExistError and lets every other exception escape); the two controller lines after a stage-in without data "
            "(isStaged = True) are replicated by the harness",
            "restart = Experiment.experimentFromInstance on the instance directory + ComponentState.stageIn(stageData=--restageData), as elaunch -r does",
            "the hybrid (lsf-dm-out) retry loop of Job.stageIn, :loopref / :loopoutput and the simulator backend are not covered",
        ]
        if not variant["skip"] and hits.get("skip"):
            print("KNOWN-FINDING: property=%s %s %s [%d behaviour(s) this run]" % (PID, F_SKIP, FINDING_TEXT[F_SKIP], hits["skip"]))
        if not variant["restage"] and hits.get("restage"):
            print("KNOWN-FINDING: property=%s %s %s [%d behaviour(s) this run]" % (PID, F_RESTAGE, FINDING_TEXT[F_RESTAGE], hits["restage"]))
        return chk.finish()
    finally:
        shutil.rmtree(GEN, ignore_errors=True)
        shutil.rmtree(chk.scratch, ignore_errors=True)


def replay_behaviour(chk, rp, variant):
    """re-derive the expected projections of ONE recorded behaviour with TLC (a slice made of just its reference list and events) and replay it"""
    from .. import world_g07 as W
    hd, labels, src0 = rp["header"], [tuple(l) for l in rp["labels"]], rp.get("src")
    refs = hd["refs"]
    pos = {}
    for i in range(3):
        pos["m%d" % (i + 1)] = [refs[i]["m"]] if i < len(refs) else []
        pos["l%d" % (i + 1)] = [refs[i]["l"]] if i < len(refs) else []
    ev = [l for l in labels if l[0] in ("again", "restart", "mut", "write", "iter")]
    consts = slice_consts(lens=(len(refs),), reps=(bool(hd["rep"]),), mig=bool(hd["mig"]), alt=("none", "file", "dir"), links=True,
                          mutlocs=sorted({l[1] for l in ev if l[0] == "mut"}), muthows=sorted({l[2] for l in ev if l[0] == "mut"}),
                          writes=sorted({l[1] for l in ev if l[0] == "write"}), maxmut=sum(l[0] == "mut" for l in ev), maxwrite=sum(l[0] == "write" for l in ev),
                          maxrestart=sum(l[0] == "restart" for l in ev), maxagain=sum(l[0] == "again" for l in ev), maxevents=len(ev),
                          restages=sorted({l[1] == "restage" for l in ev if l[0] == "restart"}), iterates=any(l[0] == "iter" for l in ev), **pos)
    fix = dict(FixSkip="TRUE" if variant["skip"] else "FALSE", FixRestage="TRUE" if variant["restage"] else "FALSE")
    _n, r, states = emit_slice(("replay", dict(consts, **fix)))
    chk.add_tlc(r)
    by = {}
    for st in states:
        by.setdefault(json.dumps(st["s"]["i0"], sort_keys=True), {})[tuple(lab_t(l) for l in st["h"])] = st["s"]
    cands = []
    for k0, tr in by.items():
        if tuple(labels) in tr and (src0 is None or all(tr[()]["src"].get(l) == v for l, v in src0.items())):
            cands.append(tr)
    if not cands:
        raise MachineryError("the recorded behaviour is not a behaviour of the specification (any more): %s" % (labels,))
    h = tuple(labels)
    units = [(hd, tr[()], {h[:k]: tr[h[:k]] for k in range(1, len(h) + 1)}, [h]) for tr in cands]
    if rp.get("hashseed"):
        global HASH_SEEDS
        HASH_SEEDS = (int(rp["hashseed"]),)
        (_sv, _units, rs), = finish_hashseed_runs(start_hashseed_runs(chk, units, sample=False))
    else:
        rs = _replay_chunk((units, os.path.join(chk.scratch, "replay")))
    for (_hd, init, _sub, _leaves), (ok, key, what, _n2, _dev) in zip(units, rs):
        chk.evaluated(("behaviour", json.dumps(hd, sort_keys=True), json.dumps(init["src"], sort_keys=True), json.dumps(labels)))
        if ok:
            chk.trace_validated()
        else:
            chk.violation(("hashseed:" + key) if rp.get("hashseed") else key, what, rp)


def replay(path):
    d = json.load(open(path))
    rp = d.get("replay") or {}
    if rp.get("kind") == "trace":
        from .. import g07_traces
        return g07_traces.replay(rp)
    if rp.get("kind") != "behaviour":
        print("re-run ./check G07: recorded case:", json.dumps(rp)[:600])
        return run("quick")
    chk = Check(PID, "quick")
    os.makedirs(GEN, exist_ok=True)
    try:
        replay_behaviour(chk, rp, probe_variant(chk))
        return chk.finish()
    finally:
        shutil.rmtree(GEN, ignore_errors=True)
        shutil.rmtree(chk.scratch, ignore_errors=True)
