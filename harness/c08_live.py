"""C08 helper: the real FlowIRConcrete / FlowIRExperimentConfiguration driven by the actions of spec/ConfigCache.tla.

A *world* fixes the concrete names/stages of the spec's components c1, c2 (adversarial name relations live here).
`Live` renders a spec description (state code) to a FlowIR document, builds the real objects, executes the spec's
actions through the real configuration interface and projects the real state back to a spec state code.
`Runner.run_walk` executes one history and performs, after EVERY step, the checks of the property:
  * the outcome of the call equals the spec's (`last.ret`),
  * a query result equals (full dictionary) what FlowIRConcrete(raw(), platform, documents) computes from scratch,
  * the real description equals the spec's D (a leak through a returned dictionary is a privacy violation),
  * every entry of the real cache equals the from-scratch resolution (Coherent evaluated on the real state;
    a stale entry is confirmed by a real query before it is reported),
  * the set of cached keys equals the spec's (model drift, not a verdict).
"""
import copy
import json
import re

U = "-"
PLATS = ["default", "p1", "p2"]      # p2 does not exist initially: it is created on demand by the platform-variable setters
INIT_PLATS = ["default", "p1"]
ACTIVE = ["default", "p1"]            # platforms a live object is constructed for

WORLDS = {
    # name of c1 is a proper prefix of the name of c2 (re.match is a prefix match)
    "prefix": {"names": ["a", "ab"], "stages": [0, 0]},
    # '.' in a name is a regex wildcard: a.b also matches axb
    "dot": {"names": ["a.b", "axb"], "stages": [0, 0]},
    # same name in two stages; stage variables must reach only their stage
    "stage": {"names": ["a", "a"], "stages": [0, 1]},
    # '+' is a regex quantifier: the expression built from a+b matches aab but not a+b itself
    "plus": {"names": ["a+b", "aab"], "stages": [0, 0]},
    # an unbalanced parenthesis does not even compile
    "paren": {"names": ["ok", "a(b"], "stages": [0, 0]},
    # DoWhile style names (iteration prefix) and a name that ends where the other continues
    "loop": {"names": ["1#a", "11#a"], "stages": [1, 11]},
}

ARGS = {"L": "lit", "R": "%(v)s", "P": "%(replica)s"}
ARGS_BACK = {v: k for k, v in ARGS.items()}
ARGS_BACK.update({"True": "T", "1.0": "D"})            # how interpolation renders True / 1.0
CV = {"1": "1", "2": "2", "i": 1, "b": True, "f": 1.0}   # i, b, f are equal under == but not the same value
NP = {"1": 1, "2": 2, "R": "%(v)s", "X": "abc"}
NP_BACK = {"1": "1", "2": "2", "%(v)s": "R", "abc": "X", "True": "T", "1.0": "D"}
RI = {"0": 0, "5": 5}
RI_BACK = {"0": "0", "5": "5"}
IP = {"B": "bash"}
# template -> (cv, args, np, ri, srep, ip); srep (the stored isRepeat) is never given by a caller
TEMPLATES = {"T1": (U, "R", U, U, U, U), "T2": ("2", "L", "R", U, U, U), "T3": ("1", "R", "2", U, U, U),
             "T4": (U, "P", U, U, U, U), "T5": (U, "L", "X", U, U, U), "T6": (U, "L", U, "5", U, "B"),
             "T7": ("i", "R", U, U, U, U), "T8": ("b", "R", U, U, U, U), "T9": ("f", "R", U, U, U, U)}
EDITS = {"aL": ("command", "arguments", "lit"), "aR": ("command", "arguments", "%(v)s"),
         "v1": ("variables", "v", "1"), "v2": ("variables", "v", "2"), "v-": ("variables", "v", None)}
FLAVOURS = {
    "full": dict(raw=False, include_default=True),
    "raw": dict(raw=True, include_default=True),
    "nodef": dict(raw=False, include_default=False),
    "rawnodef": dict(raw=True, include_default=False),
    "prim": dict(raw=False, include_default=True, is_primitive=True),
    "noinj": dict(raw=False, include_default=True, inject_missing_fields=False),
    "lenient": dict(raw=False, include_default=True, ignore_convert_errors=True),
}
KINDS = {"FlowIRComponentUnknown": "ComponentUnknown", "FlowIRVariableUnknown": "VariableUnknown",
         "FlowIRFailedComponentConvertType": "ConvertError", "FlowIRComponentExists": "ComponentExists",
         "KeyError": "KeyError", "FlowIRPlatformUnknown": "PlatformUnknown"}
KNOWN_DEVIATIONS = {"unescaped-component-name-in-invalidation-regex", "lenient-query-result-cached-for-strict-queries",
                    "derived-isRepeat-frozen-outside-fully-resolved-queries",
                    "platform-created-through-global-variable-lacks-stages-scope"}
COMP_SCOPED = {"SetCompVar", "DelCompVar", "SetArgs", "SetNp", "DelNp", "SetRi", "DelRi", "SetIp", "DelIp", "ReplaceComp", "ReplaceSame",
               "DeleteComp"}
OPTION_ROUTE = {"SetArgs": "#command.arguments", "SetNp": "#resourceRequest.numberProcesses", "DelNp": "#resourceRequest.numberProcesses",
                "SetRi": "#workflowAttributes.repeatInterval", "DelRi": "#workflowAttributes.repeatInterval",
                "SetIp": "#command.interpreter", "DelIp": "#command.interpreter"}


def has_meta(name):
    return re.escape(name).replace("\\#", "#").replace("\\-", "-") != name


class World:
    def __init__(self, wid):
        w = WORLDS[wid]
        self.id = wid
        self.names = w["names"]
        self.stages = w["stages"]
        self.labels = ["c1", "c2"]
        self.stage_seq = sorted(set(self.stages))
        self.cid = {l: (self.stages[i], self.names[i]) for i, l in enumerate(self.labels)}
        self.label_of = {v: k for k, v in self.cid.items()}
        self.node = {l: "stage%d.%s" % self.cid[l] for l in self.labels}

    # -- state codes ----------------------------------------------------------------------
    def make_code(self, gv, sv, comps):
        """gv/sv: per initial platform (default, p1) the value of v globally / in every stage; p2 does not exist"""
        n = len(self.stage_seq)
        d = "".join("K" + gv[i] + sv[i] * n for i in range(len(INIT_PLATS))) + (U + U + "#" * n) * (len(PLATS) - len(INIT_PLATS))
        return "%s|%s|%s|N" % (d, comps, "0" * (len(self.labels) * len(PLATS)))

    def base_code(self, b):
        """the base descriptions Base(b) of ConfigCache.tla (checked against TLC's initial states by the driver)"""
        return {0: self.make_code("1-", "--", "P-R-----P-R-----"),
                1: self.make_code("11", "2-", "P1R2----A-L-----"),
                2: self.make_code("--", "--", "P1RR5T--P-LX--B-")}[b]

    def plain_code(self):
        return self.make_code("1-", "--", "P-L-----P-L-----")

    def decode(self, code):
        """'K1-K----#|P-R----P-R----|000000|N' -> dict(kn, gv, sv, comp, cache(set of (label, platform)), handed)"""
        d, c, k, h = code.split("|")
        n = 2 + len(self.stage_seq)
        kn, gv, sv = {}, {}, {}
        for i, p in enumerate(PLATS):
            kn[p] = d[i * n] == "K"
            gv[p] = d[i * n + 1]
            sv[p] = {s: d[i * n + 2 + j] for j, s in enumerate(self.stage_seq)}
        comp = {}
        for i, l in enumerate(self.labels):
            comp[l] = c[8 * i:8 * i + 8]
        cache = set()
        for i, l in enumerate(self.labels):
            for j, p in enumerate(PLATS):
                if k[i * len(PLATS) + j] == "1":
                    cache.add((l, p))
        return {"kn": kn, "gv": gv, "sv": sv, "comp": comp, "cache": cache, "handed": h}

    def render_component(self, label, cv, args, np, ri=U, srep=U, ip=U, al=U):
        st, name = self.cid[label]
        c = {"name": name, "stage": st, "command": {"executable": "echo", "arguments": ARGS[args]},
             "variables": {}, "resourceRequest": {}, "workflowAttributes": {}}
        if cv != U:
            c["variables"]["v"] = CV[cv]
        if np != U:
            c["resourceRequest"]["numberProcesses"] = NP[np]
        if ri != U:
            c["workflowAttributes"]["repeatInterval"] = RI[ri]
        if srep != U:
            c["workflowAttributes"]["isRepeat"] = srep == "T"
        if ip != U:
            c["command"]["interpreter"] = IP[ip]
        return c

    def render(self, code):
        st = self.decode(code)
        variables = {}
        for p in PLATS:
            if not st["kn"][p]:
                continue
            g = {"k": "K"} if p in INIT_PLATS else {}
            if st["gv"][p] != U:
                g["v"] = st["gv"][p]
            stages = {}
            for s in self.stage_seq:
                x = st["sv"][p][s]
                if x == "#":
                    continue
                stages[s] = {"k": "K"} if p in INIT_PLATS else {}
                if x != U:
                    stages[s]["v"] = x
            variables[p] = {"global": g, "stages": stages}
        comps = []
        for l in self.labels:
            cc = st["comp"][l]
            if cc[0] == "P":
                comps.append(self.render_component(l, *cc[1:]))
        return {"components": comps, "variables": variables, "platforms": [p for p in PLATS if st["kn"][p]]}

    def project_description(self, raw, held=()):
        """real raw() -> the D part of a state code ('?' for anything the model cannot express); held: the components whose
        stored definition shares its nested sections with a dictionary the caller still holds (only the driver knows)"""
        out = []
        variables = raw.get("variables", {})
        for p in PLATS:
            pv = variables.get(p)
            if pv is None:
                out.append(U + U + "#" * len(self.stage_seq))
                continue
            out.append("K" + _val(pv.get("global", {}).get("v", U)))
            for s in self.stage_seq:
                sd = pv.get("stages", {}).get(s)
                out.append("#" if sd is None else _val(sd.get("v", U)))
        out.append("|")
        found = {}
        for c in raw.get("components", []):
            found[(c.get("stage"), c.get("name"))] = c
        for l in self.labels:
            c = found.get(self.cid[l])
            if c is None:
                out.append("A-L-----")
                continue
            wa = c.get("workflowAttributes", {})
            out.append("P" + _cv(c.get("variables", {}).get("v", U))
                       + ARGS_BACK.get(c.get("command", {}).get("arguments"), "?")
                       + _np(c.get("resourceRequest", {}).get("numberProcesses", U))
                       + _ri(wa.get("repeatInterval", U)) + _rep(wa.get("isRepeat", U))
                       + _ip(c.get("command", {}).get("interpreter", U)) + ("a" if l in held else U))
        return "".join(out)

    def cache_code(self, keys):
        out = []
        for l in self.labels:
            for p in PLATS:
                out.append("1" if (l, p) in keys else "0")
        return "".join(out)


def _val(v):
    return v if v in (U, "1", "2") else "?"


def _cv(v):
    """typed: 1, True and 1.0 are equal under == but are different values of a variable"""
    if isinstance(v, bool):
        return "b" if v is True else "?"
    if isinstance(v, int):
        return "i" if v == 1 else "?"
    if isinstance(v, float):
        return "f" if v == 1.0 else "?"
    return _val(v)


def typed_equal(a, b):
    """== that tells 1 from True from 1.0 (dictionaries compare equal across these)"""
    return a == b and json.dumps(a, sort_keys=True, default=str) == json.dumps(b, sort_keys=True, default=str)


def _np(v):
    if v == U:
        return U
    return NP_BACK.get(str(v), "?")


def _ri(v):
    return U if v == U or v is None else RI_BACK.get(str(v), "?")


def _rep(v):
    if v == U or v is None:
        return U
    return {True: "T", False: "F"}.get(v, "?") if isinstance(v, bool) else "?"


def _ip(v):
    return U if v == U or v is None else {"bash": "B"}.get(v, "?")


def _xa(v):
    return U if v == U or v is None else {"none": "N", "double-quote": "D"}.get(v, "?")


NO_RESULT = {"v": U, "args": U, "np": U, "ri": U, "rep": U, "xa": U}


def project_result(r):
    """result dictionary of get_component_configuration -> the spec's [v, args, np, ri, rep, xa]"""
    a = r.get("command", {}).get("arguments")
    a = ARGS_BACK.get(a, a if a in ("1", "2") else "?")
    n = r.get("resourceRequest", {}).get("numberProcesses", U)
    n = U if n == U or n is None else NP_BACK.get(str(n), "?")
    wa = r.get("workflowAttributes", {})
    return {"v": _cv(r.get("variables", {}).get("v", U)), "args": a, "np": n, "ri": _ri(wa.get("repeatInterval", U)),
            "rep": _rep(wa.get("isRepeat", U)), "xa": _xa(r.get("command", {}).get("expandArguments", U))}


def scribble(obj):
    """overwrite every leaf and grow every container of a returned configuration, in place"""
    if isinstance(obj, dict):
        for k in list(obj):
            if isinstance(obj[k], (dict, list)):
                scribble(obj[k])
            else:
                obj[k] = "Z"
        obj["zz"] = "Z"
    elif isinstance(obj, list):
        for i, x in enumerate(obj):
            if isinstance(x, (dict, list)):
                scribble(x)
            else:
                obj[i] = "Z"
        obj.append("Z")


MISSING = object()


class Live:
    """The real objects of one history."""

    def __init__(self, FL, CONF, world, code, active, conf_pool):
        self.FL, self.world, self.active = FL, world, active
        self.concrete = FL.FlowIRConcrete(world.render(code), active, {})
        # FlowIRExperimentConfiguration only delegates to its _concrete for the calls used here; building one costs 5 ms,
        # so one configuration per (world, platform) is reused and given the fresh FlowIRConcrete of this history.
        key = (world.id, active)
        if key not in conf_pool:
            conf_pool[key] = CONF.FlowIRExperimentConfiguration(
                path=None, platform=active, variable_files=[], system_vars={}, is_instance=False,
                createInstanceFiles=False, primitive=True, concrete=FL.FlowIRConcrete(world.render(code), active, {}),
                updateInstanceFiles=False, validate=False)
        self.conf = conf_pool[key]
        self.conf._concrete = self.concrete
        self.handed = None
        self.handed_kind = "N"
        self.held = {}            # label -> the dictionary given to update_component / add_component(insert_copy=False)

    # -- observation ------------------------------------------------------------------------
    def cache_keys(self):
        out = {}
        for k in self.concrete._cache.keys():
            parts = k.split(":", 3)
            if len(parts) != 4 or parts[0] != "component" or not parts[2].startswith("stage"):
                out[k] = None
                continue
            try:
                cid = (int(parts[2][5:]), parts[3])
            except ValueError:
                out[k] = None
                continue
            out[k] = (self.world.label_of.get(cid), parts[1])
        return out

    def cache_entry(self, key):
        """MISSING when the entry is gone (peeking is only an early warning; the property speaks about answers)"""
        return self.concrete._cache._cache.get(key, MISSING)

    def clone(self):
        """A copy of the live FlowIRConcrete (description, cache and every other attribute) on which a confirming query can be
        asked without disturbing the live object (a query may itself change what later queries answer).  None if it cannot be made."""
        try:
            src = self.concrete
            dst = object.__new__(type(src))
            for k, v in vars(src).items():
                if k == "_cache":
                    c = type(v)()
                    for ck, cv in vars(v).items():
                        if ck != "_lock":
                            setattr(c, ck, copy.deepcopy(cv))
                    dst._cache = c
                else:
                    setattr(dst, k, copy.deepcopy(v))
            return dst
        except Exception:
            return None

    def side_query(self, label, p, flavour):
        """the answer the live object would give now, asked on a clone"""
        obj = self.clone()
        return self.query(label, p, flavour, 2, obj=obj) if obj is not None else self.query(label, p, flavour, 2)

    # -- the actions ------------------------------------------------------------------------
    def query(self, label, p, flavour, variant=0, obj=None):
        cid = self.world.cid[label]
        kw = dict(FLAVOURS[flavour])
        obj = obj or self.concrete
        if obj is self.concrete and p == self.active and flavour != "lenient" and variant % 3 == 0:
            return self.conf.configurationForNode(self.world.node[label], raw=kw["raw"], omitDefault=not kw["include_default"],
                                                  is_primitive=kw.get("is_primitive", False),
                                                  inject_missing_fields=kw.get("inject_missing_fields", True))
        if obj is self.concrete and p == self.active and variant % 3 == 1:
            return obj.get_component_configuration(cid, **kw)          # platform=None: the active platform
        return obj.get_component_configuration(cid, platform=p, **kw)

    def apply(self, a, variant=0):
        """Executes one spec action; returns (kind, result dictionary or None)."""
        try:
            return self._apply(a, variant)
        except Exception as e:                       # the spec says which exceptions are legitimate
            name = type(e).__name__
            return KINDS.get(name, "error:" + name), None

    def _apply(self, a, variant):
        act, c, p, st, x, how = a["act"], a["c"], a["p"], a["st"], a["x"], a["how"]
        conc, conf, w = self.concrete, self.conf, self.world
        if act == "Query":
            uses = x in ("full", "lenient")
            before = uses and (c, p) in self.cache_keys().values()
            r = self.query(c, p, x, variant)
            self.handed = r
            self.handed_kind = "H" if before else ("M" if uses and (c, p) in self.cache_keys().values() else "O")
            return "ok", r
        if act == "Peek":
            # calls that read the configuration without going through the cache; their outcome is not part of the model
            try:
                if x == "varrefs":
                    conc.get_component_variable_references(w.cid[c])
                elif x == "getopt":
                    conf.getOptionForNode(w.node[c], "#command.arguments")
                elif x == "nodevars":
                    conf.variablesForNode(w.node[c])
                elif x == "validate":
                    conc.validate()
                elif x == "instance":
                    conc.instance(ignore_errors=True)
                elif x == "replicate":
                    conc.replicate(ignore_errors=True)
                else:
                    raise ValueError(x)
            except ValueError:
                raise
            except Exception:
                pass
            return "done", None
        if act == "MutateReturned":
            scribble(self.handed)
            self.handed = None
            self.handed_kind = "N"
            return "done", None
        cid = w.cid.get(c)
        node = w.node.get(c)
        if act == "SetCompVar":
            if how == "api":
                conc.set_component_variable(cid, "v", x)
            elif how == "conf":
                conf.setOptionForNode(node, "v", x)
            else:
                conc.get_component(cid, return_copy=False)["variables"]["v"] = x
        elif act == "DelCompVar":
            if how == "api":
                conc.delete_component_variable(cid, "v")
            else:
                conf.removeOptionForNode(node, "v")
        elif act in ("SetArgs", "SetNp", "SetRi", "SetIp"):
            route = OPTION_ROUTE[act]
            value = {"SetArgs": ARGS, "SetNp": NP, "SetRi": RI, "SetIp": IP}[act][x]
            if how == "api":
                conc.set_component_option(cid, route, value)
            elif how == "conf":
                # repeatInterval keeps its integer type: isRepeat is derived before any type conversion
                conf.setOptionForNode(node, route, value if act == "SetRi" else str(value))
            else:
                d = conc.get_component(cid, return_copy=False)
                f1, f2 = route[1:].split(".")
                d[f1][f2] = value
        elif act in ("DelNp", "DelRi", "DelIp"):
            if how == "api":
                conc.remove_component_option(cid, OPTION_ROUTE[act])
            else:
                conf.removeOptionForNode(node, OPTION_ROUTE[act])
        elif act == "ReplaceComp":
            d = w.render_component(c, *TEMPLATES[x])
            conc.update_component(cid, d)
            self.held[c] = d
        elif act == "ReplaceSame":
            # the caller edits a nested section of the dictionary it handed over, then submits the very same object again
            d = self.held[c]
            section, field, value = EDITS[x]
            if value is None:
                d[section].pop(field, None)
            else:
                d[section][field] = value
            conc.update_component(cid, d)
        elif act == "AddComp":
            d = w.render_component(c, *TEMPLATES[x])
            conc.add_component(d, insert_copy=(how != "ref"))
            if how == "ref":
                self.held[c] = d
            else:
                self.held.pop(c, None)
        elif act == "DeleteComp":
            conc.delete_component(cid)
            self.held.pop(c, None)
        elif act == "SetGlobal":
            conc.set_global_variable("v", x)
        elif act == "SetStageVar":
            conc.set_stage_variable(st, "v", x)
        elif act == "SetPlatformGlobal":
            conc.set_platform_global_variable("v", x, p)
        elif act == "SetPlatformStage":
            conc.set_platform_stage_variable(st, "v", x, p)
        elif act == "InPlaceGlobal":
            if p == "default" and variant % 2:
                d = conc.get_default_global_variables(return_copy=False)
            else:
                d = conc.get_platform_global_variables(p, return_copy=False)
            if x == U:
                d.pop("v", None)
            else:
                d["v"] = x
        elif act == "InPlaceStage":
            if p == "default" and variant % 2:
                d = conc.get_default_stage_variables(st, return_copy=False)
            else:
                d = conc.get_platform_stage_variables(st, p, return_copy=False)
            if x == U:
                d.pop("v", None)
            else:
                d["v"] = x
        else:
            raise ValueError("unknown action %r" % (act,))
        return "done", None


class Runner:
    """Executes histories and checks every step.  One per process."""

    def __init__(self):
        from . import realenv  # noqa: F401  (disables the logging of the runtime)
        import experiment.model.frontends.flowir as FL
        import experiment.model.conf as CONF
        self.FL, self.CONF = FL, CONF
        self.conf_pool = {}
        self.scratch_memo = {}        # canonical raw() -> {(label, platform, flavour): outcome}
        self.worlds = {}
        self.self_miss = {}

    def world(self, wid):
        if wid not in self.worlds:
            self.worlds[wid] = World(wid)
        return self.worlds[wid]

    def regex_misses_itself(self, w, label):
        """Does the real per-component invalidation fail to remove the component's own entry (or raise)?  Observed on the
        real code with one dummy entry; used only to attribute a stale entry to the named deviation `Hits`."""
        k = (w.id, label)
        if k not in self.self_miss:
            conc = self.FL.FlowIRConcrete(w.render(w.plain_code()), "default", {})
            key = "component:default:stage%s:%s" % w.cid[label]
            conc._cache[key] = {}
            try:
                conc.invalidate_cache_for_component(w.cid[label])
                self.self_miss[k] = key in conc._cache.keys()
            except Exception:
                self.self_miss[k] = True
        return self.self_miss[k]

    def from_scratch(self, live, rawkey, raw, label, p, flavour):
        """The oracle of the property: the same query answered by a brand new FlowIRConcrete built from raw()."""
        memo = self.scratch_memo.get(rawkey)
        if memo is None:
            if len(self.scratch_memo) > 20000:
                self.scratch_memo.clear()
            memo = self.scratch_memo[rawkey] = {"obj": self.FL.FlowIRConcrete(raw, live.active, copy.deepcopy(live.concrete._documents))}
        k = (label, p, flavour)
        if k not in memo:
            memo["obj"]._cache.clear()          # every answer of the oracle is computed, never looked up
            try:
                memo[k] = ("ok", live.query(label, p, flavour, 2, obj=memo["obj"]))
            except Exception as e:
                name = type(e).__name__
                memo[k] = (KINDS.get(name, "error:" + name), None)
        return memo[k]

    def run_walk(self, wid, active, init_code, steps, widx=0, track=False):
        """steps: list of {"a": call record incl. the spec's ret, "t": spec state code after the call}.
        Returns dict(executed, finding or None, drift list)."""
        w = self.world(wid)
        live = Live(self.FL, self.CONF, w, init_code, active, self.conf_pool)
        out = {"executed": 0, "finding": None, "known": [], "drift": [], "queries": 0, "hits": 0}
        history = []
        probe = False

        def finding(kind, key, what, i):
            out["finding"] = {"kind": kind, "key": key, "what": what, "step": i,
                              "replay": {"world": wid, "active": active, "init": init_code, "steps": steps[:i + 1], "widx": widx,
                                         "track": track}}
            return out

        for i, stp in enumerate(steps):
            a, tcode = stp["a"], stp["t"]
            spec = a["ret"]
            was_cached = None
            if a["act"] == "Query":
                was_cached = [k for k, v in live.cache_keys().items() if v == (a["c"], a["p"])]
            kind, res = live.apply(a, variant=widx + i)
            out["executed"] += 1
            history.append(describe(a))
            raw = live.concrete.raw()
            rawkey = json.dumps(raw, sort_keys=True, default=str)
            tag = "%s %s" % (wid, " ; ".join(history[-6:]))
            # (1) outcome of the call
            if a["act"] == "Query":
                out["queries"] += 1
                out["hits"] += 1 if was_cached else 0
                fkind, fres = self.from_scratch(live, rawkey, raw, a["c"], a["p"], a["x"])
                same = (kind == fkind) and (kind != "ok" or typed_equal(res, fres))
                if not same:
                    key = classify_query(self, w, a, kind, res, fkind, fres, steps[:i], was_cached, raw)
                    f = finding("violation", key,
                                "query %s returned %s but the configuration computed from scratch from the current description is %s  [history: %s]"
                                % (describe(a), show(kind, res), show(fkind, fres), tag), i)
                    if key not in STATELESS_DEVIATIONS:
                        return f
                    # a named deviation that leaves no trace in the state: report it and go on with the history
                    out["known"].append(out["finding"])
                    out["finding"] = None
                got = dict(kind=kind, **(project_result(res) if kind == "ok" else NO_RESULT))
                if same and got != spec:
                    return finding("drift", "resolve", "query %s: real code (also from scratch) gives %s, spec Resolve gives %s [%s]"
                                   % (describe(a), got, spec, tag), i)
            else:
                want = "done" if spec["kind"] == "done" else spec["kind"]
                if kind != want:
                    if kind == "error:error" and a["act"] in COMP_SCOPED and has_meta(w.cid[a["c"]][1]) and self.regex_misses_itself(w, a["c"]):
                        return finding("violation", "unescaped-component-name-in-invalidation-regex",
                                       "%s raised re.error (the component name is used un-escaped in the invalidation regular expression) [%s]"
                                       % (describe(a), tag), i)
                    if kind == "error:FlowIRInconsistency" and a["act"] == "InPlaceStage" and lacks_stages_scope(raw, a["p"]):
                        finding("violation", "platform-created-through-global-variable-lacks-stages-scope",
                                "%s raised FlowIRInconsistency: the platform was created without its stages scope [%s]" % (describe(a), tag), i)
                        out["known"].append(out["finding"])
                        out["finding"] = None
                    else:
                        return finding("drift", "outcome", "%s: real outcome %s, spec %s [%s]" % (describe(a), kind, want, tag), i)
            # (2) the description
            dcode = w.project_description(raw, live.held if track else ())
            if dcode != tcode.rsplit("|", 2)[0]:
                if a["act"] in ("MutateReturned", "Query"):
                    return finding("violation", "private:description-changed-by-%s" % a["act"],
                                   "after %s the description is %s, expected %s: a returned configuration is not a private copy [%s]"
                                   % (describe(a), dcode, tcode, tag), i)
                return finding("drift", "description", "after %s the description is %s, spec %s [%s]" % (describe(a), dcode, tcode, tag), i)
            # (3) Coherent on the real cache
            keys = live.cache_keys()
            for k, who in sorted(keys.items()):
                if who is None or who[0] is None:
                    # The property does not say how the cache labels its entries.  An entry under a label this driver cannot
                    # attribute is noted, and from now on the ANSWERS are probed after every call (below).
                    if not probe:
                        out["drift"].append({"what": "cache entry under an unrecognised label %r: cacheable queries are probed after every call from here on [%s]" % (k, tag),
                                             "act": a["act"], "c": a["c"]})
                    probe = True
                    continue
                fkind, fres = self.from_scratch(live, rawkey, raw, who[0], who[1], "full")
                entry = live.cache_entry(k)
                if entry is MISSING:
                    continue
                if fkind != "ok" or not typed_equal(entry, fres):
                    # confirm with a real query: the stale entry is what a caller gets
                    try:
                        qk, qr = "ok", live.side_query(who[0], who[1], "full")
                    except Exception as e:
                        qk, qr = type(e).__name__, None
                    if qk == fkind and typed_equal(qr, fres):
                        continue      # the entry is not what is served (cannot happen with the current code)
                    if a["act"] == "MutateReturned":
                        key = "private:cache-changed-by-MutateReturned"
                    else:
                        key = classify_stale(self, w, a, who, entry, fkind, steps[:i + 1])
                    probe = {"act": "Query", "c": who[0], "p": who[1], "st": -1, "x": "full", "how": U, "hit": True,
                             "ret": dict(kind=fkind, **(project_result(fres) if fkind == "ok" else NO_RESULT))}
                    f = finding("violation", key,
                                "after %s the cached configuration of %s on platform %s is stale: a query returns %s, from scratch %s [%s]"
                                % (describe(a), w.node[who[0]], who[1], show(qk, qr), show(fkind, fres), tag), i)
                    f["finding"]["replay"]["steps"] = steps[:i + 1] + [{"a": probe, "t": tcode}]
                    if key in KNOWN_DEVIATIONS and a["act"] != "MutateReturned":
                        # a named deviation of the code (see ConfigCache.tla): report it, drop the stale entry so that the
                        # real state is the design's state again, and go on -- the rest of the history is still checked
                        out["known"].append(out["finding"])
                        out["finding"] = None
                        live.concrete._cache.invalidate_reference(k)
                        keys = dict(keys)
                        del keys[k]
                        continue
                    return f
            # (3b) unrecognised labels in the cache: whatever they hold, every query that may be answered from the cache must
            #      still equal the from-scratch resolution (this fills the real cache; the comparison of keys below is only a note)
            if probe:
                for l in w.labels:
                    for p in PLATS:
                        for f in ("full", "lenient"):
                            fkind, fres = self.from_scratch(live, rawkey, raw, l, p, f)
                            try:
                                qk, qr = "ok", live.side_query(l, p, f)
                            except Exception as e:
                                qk, qr = KINDS.get(type(e).__name__, "error:" + type(e).__name__), None
                            if qk != fkind or (qk == "ok" and not typed_equal(qr, fres)):
                                probe_q = {"act": "Query", "c": l, "p": p, "st": -1, "x": f, "how": U, "hit": True,
                                           "ret": dict(kind=fkind, **(project_result(fres) if fkind == "ok" else NO_RESULT))}
                                fnd = finding("violation", "stale-%s-read-after:%s" % (f, a["act"]),
                                              "after %s the %s query of %s on platform %s returns %s, from scratch %s (cache entries under unrecognised labels: %s) [%s]"
                                              % (describe(a), f, w.node[l], p, show(qk, qr), show(fkind, fres),
                                                 sorted(k for k, v in keys.items() if v is None or v[0] is None)[:3], tag), i)
                                fnd["finding"]["replay"]["steps"] = steps[:i + 1] + [{"a": probe_q, "t": tcode}]
                                return fnd
                keys = live.cache_keys()
            # (4) cached keys versus the spec (a note only: the property does not prescribe what is cached under which label)
            ccode = w.cache_code(set(v for v in keys.values() if v is not None and v[0] is not None))
            if ccode != tcode.split("|")[2] and len(out["drift"]) < 3:
                out["drift"].append({"what": "after %s cached keys %s, spec %s [%s]" % (describe(a), ccode, tcode.split("|")[2], tag),
                                     "act": a["act"], "c": a["c"]})
        return out


STATELESS_DEVIATIONS = {"derived-isRepeat-frozen-outside-fully-resolved-queries",
                        "platform-created-through-global-variable-lacks-stages-scope"}


def lacks_stages_scope(raw, p):
    pv = raw.get("variables", {}).get(p)
    return isinstance(pv, dict) and "stages" not in pv


def without_is_repeat(r):
    r = copy.deepcopy(r)
    r.get("workflowAttributes", {}).pop("isRepeat", None)
    return r


def describe(a):
    parts = [a["act"]]
    for f in ("c", "p", "x", "how"):
        if a.get(f, U) != U:
            parts.append(str(a[f]))
    if a.get("st", -1) != -1:
        parts.append("stage%d" % a["st"])
    return "(" + " ".join(parts) + ")"


def show(kind, res):
    if kind != "ok":
        return kind
    p = project_result(res)
    wa = res.get("workflowAttributes", {})
    return "ok[v=%s args=%s np=%s repeatInterval=%s isRepeat=%s expandArguments=%s]" % (
        p["v"], res.get("command", {}).get("arguments"), res.get("resourceRequest", {}).get("numberProcesses", U),
        wa.get("repeatInterval", U), wa.get("isRepeat", U), res.get("command", {}).get("expandArguments", U))


def classify_stale(runner, w, a, who, entry, fkind, steps):
    """Key = class of the history that leaves a stale entry behind."""
    if a["act"] in COMP_SCOPED and a["c"] == who[0] and has_meta(w.cid[a["c"]][1]) and runner.regex_misses_itself(w, a["c"]):
        return "unescaped-component-name-in-invalidation-regex"
    if fkind == "ConvertError" and any(s["a"]["act"] == "Query" and s["a"]["x"] == "lenient" for s in steps):
        return "lenient-query-result-cached-for-strict-queries"
    how = a.get("how", U)
    return "stale-entry-after:%s%s%s" % (a["act"], "/" + how if how not in (U, "api") else "",
                                          ":other-component" if a.get("c", U) not in (U, who[0]) else "")


def classify_query(runner, w, a, kind, res, fkind, fres, before, was_cached, raw):
    if kind == "error:FlowIRInconsistency" and fkind != kind and lacks_stages_scope(raw, a["p"]):
        return "platform-created-through-global-variable-lacks-stages-scope"
    if kind == "ok" and fkind == "ok" and a["x"] not in ("full", "lenient") and without_is_repeat(res) == without_is_repeat(fres):
        return "derived-isRepeat-frozen-outside-fully-resolved-queries"
    if was_cached:
        lenient_before = any(s["a"]["act"] == "Query" and s["a"]["x"] == "lenient" and s["a"]["c"] == a["c"] for s in before)
        if fkind == "ConvertError" and lenient_before:
            return "lenient-query-result-cached-for-strict-queries"
        if a["x"] != "full":
            return "cached-result-served-to-%s-query" % a["x"]
        # which mutator since the entry was stored?
        for s in reversed(before):
            if s["a"]["act"] not in ("Query", "MutateReturned"):
                m = s["a"]
                if m["act"] in COMP_SCOPED and m["c"] == a["c"] and has_meta(w.cid[m["c"]][1]) and runner.regex_misses_itself(w, m["c"]):
                    return "unescaped-component-name-in-invalidation-regex"
                return "stale-read-after:%s" % m["act"]
            if s["a"]["act"] == "MutateReturned":
                return "private:cache-changed-by-MutateReturned"
        return "stale-read:cached-entry-differs-without-mutator"
    return "wrong-result:%s-query-not-from-cache" % a["x"]
