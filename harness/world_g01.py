"""Environment of the G01 conformance driver (spec/EngineLifecycle.tla): the REAL experiment.runtime.engine.Engine
(non-repeating) launch / termination / emission pipeline, single-threaded and deterministic.

What is real:   Engine.__init__, _create_termination_observable, emit_now, run (InitPerformanceInfo .. Terminate), restart,
                kill, shutdown, _setExitReason, exitReason/isAlive/returncode, stateDictionary, _create_state_updates,
                stateUpdates, notifyFinished -- constructed for a real Job of a real Experiment built from generated FlowIR.
What is replaced (the environment; module attributes of this process only, /repo is not touched):
  * rx thread pools / NewThreadScheduler / ThreadPoolScheduler / TimeoutScheduler.singleton -> lanes of one queue
    (harness.world: World, Lane, Installed).  No thread is created; nothing runs until the driver pops an item, so the
    driver chooses the interleaving of every rx hop and every timer;
  * engine.datetime -> a strictly increasing virtual clock (one microsecond per reading): "time always advances", so the
    time-valued keys of stateDictionary (outputWaitTime, lastTaskRunTime while ticking) differ between two readings,
    deterministically;
  * the task: `FakeTask` returned by a scripted task generator (or the generator raises OSError / JobLaunchError /
    ValueError); `wait()` RE-ENTERS the driver (nested pump) and returns when the driver lets the task exit.

The driver (`Driver`) offers the two binding directions of harness/checks/g01.py:
  * replay(hist, order): environment action sequences computed by TLC (quiescent-state granularity: after every
    environment action all internal work is settled in the canonical order of the specification), observations after
    every step;
  * random_run(rnd, ...): seeded random interleavings at the granularity of single rx items, one logged record per step
    (validated against the specification by TLC, EngineLifecycle_trace.tla).
"""
import datetime
import os
import threading
import types

from . import realenv  # noqa: F401  (disables logging, imports experiment.model.*)
from . import world as W

import experiment.model.codes as codes
import experiment.runtime.engine as eng
import experiment.runtime.errors as rerrors
import experiment.utilities.data

# return codes a backend would report for the exit reasons (only their relation to the engine's 0/1 code matters)
RC = {"Success": 0, "KnownIssue": 1, "ResourceExhausted": 24, "Killed": -9, "Cancelled": -15, "SystemIssue": 130,
      "UnknownIssue": -11, "SubmissionFailed": 1}

META = ("sourceType", "reference")
CONSTANT_KEYS = ("backend", "taskDateWait", "taskDateExecute", "taskDateComplete")


class EndOfScript(BaseException):
    """Raised out of FakeTask.wait() when the scenario ends while the task is still running (BaseException: rx operators
    only catch Exception, so it unwinds to the driver)."""


class NotEnabled(Exception):
    """The specification says an environment action is possible (the start timer / the clock is pending) but the real engine
    has no such item: a conformance failure of the engine, not of the harness."""


class HarnessDrift(Exception):
    """The real engine no longer has the plumbing the driver identifies items by (machinery error, not a verdict)."""


class VirtualClock:
    """engine.datetime: datetime.datetime.now() strictly increasing; everything else is the real module."""

    def __init__(self, world):
        clock = self
        self.world = world
        self.reads = 0

        class VDT(datetime.datetime):
            @classmethod
            def now(cls, tz=None):
                clock.reads += 1
                return W.EPOCH + datetime.timedelta(seconds=clock.world.now, microseconds=clock.reads)
        self.datetime = VDT
        self.timedelta = datetime.timedelta

    def __getattr__(self, name):
        return getattr(datetime, name)


class FakeTask:
    """What Engine reads of a Task: wait, kill, isAlive, returncode, exitReason, status, schedulerId, performanceInfo."""

    def __init__(self, driver, n):
        self.d = driver
        self.n = n
        self.alive = True
        self.reason = None
        self.returncode = None
        self.kill_requested = False
        self.waiting = False

    def wait(self):
        if self.alive:
            self.waiting = True
            try:
                self.d.task_wait(self)
            finally:
                self.waiting = False

    def isAlive(self):
        return self.alive

    def kill(self):
        if self.alive:
            self.kill_requested = True

    terminate = kill

    def poll(self):
        return self.returncode

    @property
    def exitReason(self):
        return self.reason

    @property
    def status(self):
        if self.alive:
            return codes.RUNNING_STATE
        return codes.FINISHED_STATE if self.returncode == 0 else codes.FAILED_STATE

    @property
    def schedulerId(self):
        return "sid%d" % self.n

    @property
    def performanceInfo(self):
        return experiment.utilities.data.Matrix()

    def finish(self, reason):
        self.d.world.now += 100000.0 * self.n
        self.alive = False
        self.reason = reason
        self.returncode = RC[reason]


def coarse(key, v):
    """Abstract value of one stateDictionary entry (the classes the specification distinguishes)."""
    if v is True:
        return "T"
    if v is False:
        return "F"
    if v is None:
        return "None"
    if isinstance(v, datetime.timedelta):
        return "td"
    if isinstance(v, datetime.datetime):
        return "d"
    if isinstance(v, float):
        return "fl"
    if isinstance(v, int):
        return str(v)
    return str(v)


def abstract_update(d):
    return {k: coarse(k, v) for k, v in d.items() if k not in META}


def make_job(scratch, max_restarts=None):
    """One real Job (backend local, no restart hook: restartHookOn = [ResourceExhausted], budget 3)."""
    comp = realenv.simple_component("c", 0)
    if max_restarts is not None:
        comp["workflowAttributes"] = {"maxRestarts": max_restarts}
    exp = realenv.experiment_from_flowir({"components": [comp]}, scratch)
    job = exp._stages[0].jobWithName("c")
    _cache_configuration(job)
    return exp, job


_config_cache = {}


def _cache_configuration(job):
    """ComponentSpecification.configuration deep-copies the resolved FlowIR of the component on every access (job.type,
    job.workflowAttributes, ... : ~20 accesses per engine life).  The configuration never changes in a G01 run: the first
    copy is served again (read-only use).  As harness/world_c12.py does."""
    import experiment.model.graph as graph
    cls = graph.ComponentSpecification
    if getattr(cls, "_g01_cached", False):
        return
    real = cls.configuration.fget

    def getter(self):
        hit = _config_cache.get(id(self))
        if hit is None or hit[0] is not self:
            hit = (self, real(self))
            _config_cache[id(self)] = hit
        return hit[1]
    cls.configuration = property(getter)
    cls._g01_cached = True


class Driver:
    """One real Engine on one deterministic World."""

    def __init__(self, job, engine_factory=None):
        self.job = job
        self.world = W.World()
        self.tasks = []
        self.nlaunch = 0
        self.next_kind = "ok"
        self.updates = []          # abstract updates received from engine.stateUpdates since the last observation
        self.all_updates = []
        self.completed = False
        self.stream_error = None
        self.notify = []           # emissions of engine.notifyFinished
        self.item_errors = []      # exceptions that escaped from rx items (a thread pool would swallow them)
        self.snap_items = []       # first-hop items of emit_now snapshots, in creation order
        self.held = []             # items the replay holds back (the launch hop during KillLate)
        self.last_restart = "-"
        self.launch_kind = "-"
        self.engine_factory = engine_factory or (lambda job, gen: eng.Engine(job, gen))
        self._inst = None
        # script state (replay) / random state
        self.mode = None

    # ---------------------------------------------------------------- set-up
    def __enter__(self):
        self.base_threads = set(threading.enumerate())
        self._inst = W.Installed(self.world)
        inst = self._inst.__enter__()
        self.clock = VirtualClock(self.world)
        inst._set(eng, "datetime", self.clock)
        self.engine = e = self.engine_factory(self.job, self._taskgen)
        orig_emit = e.emit_now
        drv = self

        def emit_now(what=None):
            n0 = len(drv.world.items)
            r = orig_emit(what)
            new = [i for i in drv.world.items[n0:] if not i.dead]
            if len(new) != 1 or new[0].lane != "pool:EngineTrigger":
                raise HarnessDrift("emit_now scheduled %r (expected one EngineTrigger hop)" % (new,))
            drv.snap_items.append(new[0])
            return r
        e.emit_now = emit_now     # internal calls go through self.emit_now: observation only, the real method runs
        e.stateUpdates.subscribe(on_next=self._on_update, on_completed=self._on_completed, on_error=self._on_error)
        e.notifyFinished.subscribe(on_next=lambda x: self.notify.append(abstract_update(x[0])))
        return self

    def __exit__(self, *exc):
        self._inst.__exit__(*exc)
        self.threads = W.assert_no_threads(self.base_threads)
        return False

    def _taskgen(self, job):
        self.nlaunch += 1
        if self.mode == "random":
            self.next_kind = self.rnd.choice(self.kinds)     # the outcome of this launch is decided (and logged) here
            self.launch_kind = self.next_kind
        # the specification treats the frozen durations of different tasks (outputWaitTime, lastTaskRunTime) as different
        # values: virtual time makes them so (the k-th launch happens k*1000 s late, the k-th task runs k*100000 s)
        self.world.now += 1000.0 * self.nlaunch
        k = self.next_kind
        if k == "oserror":
            raise OSError("g01: task generator raises OSError")
        if k == "launcherror":
            raise rerrors.JobLaunchError("g01: task generator raises JobLaunchError", None)
        if k == "exception":
            raise ValueError("g01: task generator raises ValueError")
        t = FakeTask(self, self.nlaunch)
        self.tasks.append(t)
        return t

    def _on_update(self, x):
        u = abstract_update(x[0])
        self.updates.append(u)
        self.all_updates.append(u)

    def _on_completed(self):
        self.completed = True

    def _on_error(self, e):
        self.stream_error = repr(e)

    # ---------------------------------------------------------------- items
    def run_item(self, item):
        try:
            self.world.run(item)
        except EndOfScript:
            raise
        except Exception as e:   # a worker thread of the pool would log and swallow it
            self.item_errors.append("%s: %r" % (item.tag, e))

    def live_items(self):
        self.world.items = [i for i in self.world.items if not i.dead]
        return self.world.items

    def classify(self, item):
        tag = item.tag or ""
        if item in self.snap_items:
            return "snap"
        if item.lane == "pool:EngineTask":
            return "task"
        if "periodic" in tag:
            return "tick"
        if "observable_timer_timespan" in tag:
            return "timer"
        if "observable_delay_timespan" in tag:
            return "delay"
        if item.due > self.world.now:
            return "future"
        return "hop"

    def task(self):
        return self.tasks[-1] if self.tasks else None

    # ---------------------------------------------------------------- observation
    def observe(self):
        e = self.engine
        t = self.task()
        proc = e.process
        o = dict(alive=bool(e.isAlive()), reason=e.exitReason() or "none", rc=coarse("", e.returncode()), shut=bool(e.isShutdown),
                 nlaunch=self.nlaunch, tkill=bool(proc is not None and proc.kill_requested and proc.alive),
                 talive=bool(proc is not None and proc.alive), restarts=e.restarts, done=self.completed,
                 rcode=self.last_restart, ups=self.updates)
        if self.mode == "random":
            o.update(nsnap=len([i for i in self.snap_items if not i.dead]), waiting=bool(proc is not None and proc.waiting),
                     lk=self.launch_kind)
            self.launch_kind = "-"
        self.updates = []
        return o

    # ================================================================ direction (a): replay of TLC behaviours
    def replay(self, hist, order):
        """hist: environment actions ("Run", "Kill", "Fire:<kind>", "FireKL:<kind>" (start passes the gate, then kill() is called
        and delivered before the launch hop runs), "Exit:<reason>", "Restart", "Shutdown", "Tick");
        order: "fifo" | "lifo" -- the order in which pending emit_now snapshots enter the emitter.
        Returns the observations: one for the initial state and one after every action (quiescent points)."""
        self.mode = "replay"
        self.order = order
        self.hist = list(hist)
        self.pos = 0
        self.obs = []
        self.need_obs = True       # the initial observation
        self.not_enabled = None
        try:
            self._settle()
            self._play(None)
        except EndOfScript:
            pass
        except NotEnabled as e:
            self.not_enabled = "%s (action %d: %s)" % (e, self.pos, self.hist[self.pos - 1])
        return self.obs

    def _record(self):
        if self.need_obs:
            self.obs.append(self.observe())
            self.need_obs = False

    def _settle(self):
        """Canonical settling: every due hop (FIFO), then one snapshot (by order), ...; the blocking task-lane item last."""
        guard = 0
        while True:
            guard += 1
            if guard > 5000:
                raise HarnessDrift("settling does not terminate")
            items = [i for i in self.live_items() if i not in self.held]
            hops = [i for i in items if self.classify(i) == "hop"]
            if hops:
                self.run_item(min(hops, key=lambda i: i.seq))
                continue
            snaps = [i for i in items if self.classify(i) == "snap"]
            if snaps:
                it = min(snaps, key=lambda i: i.seq) if self.order == "fifo" else max(snaps, key=lambda i: i.seq)
                self.run_item(it)
                continue
            tl = [i for i in items if self.classify(i) == "task" and i.due <= self.world.now]
            if tl:
                self.run_item(min(tl, key=lambda i: i.seq))     # may enter FakeTask.wait -> task_wait -> nested _play
                continue
            break
        self._record()

    def task_wait(self, task):
        if self.mode == "replay":
            self._record()                 # quiescent: everything else is settled, the task thread blocks in wait()
            self._play(task)
            if task.alive:
                raise EndOfScript()
        else:
            self._random_wait(task)

    def _find(self, cls):
        its = [i for i in self.live_items() if self.classify(i) == cls]
        return min(its, key=lambda i: i.seq) if its else None

    def _play(self, until):
        while self.pos < len(self.hist):
            a = self.hist[self.pos]
            self.pos += 1
            self.need_obs = True
            if a != "Tick" and not a.startswith("Fire:"):
                self.last_restart = "-"      # what the last environment CALL returned (time passing is not a call)
            e = self.engine
            if a == "Run":
                e.run()
            elif a == "Kill":
                e.kill()
            elif a.startswith("Fire:") or a.startswith("FireKL:"):
                late = a.startswith("FireKL:")
                self.next_kind = a.split(":", 1)[1]
                t = self._find("timer")
                if t is not None:
                    self.run_item(t)
                d = self._find("delay")
                if d is None:
                    raise NotEnabled("Fire: no start timer / launch delay is pending in the real engine")
                n0 = set(id(i) for i in self.live_items())
                self.run_item(d)
                if late:
                    # the start value passed the gate; the launch hop is held back while kill() is called and delivered
                    new = [i for i in self.live_items() if id(i) not in n0 and self.classify(i) == "hop"]
                    if len(new) != 1:
                        raise HarnessDrift("Fire: the start value scheduled %r (expected the launch hop)" % (new,))
                    self.held = new
                    e.kill()
                    self._settle_held()
                    self.held = []
            elif a.startswith("Exit:"):
                t = self.task()
                t.finish(a[5:])
                if until is t:
                    return              # wait() returns; the outer settling goes on and records the observation
            elif a == "Restart":
                self.last_restart = e.restart()
            elif a == "Shutdown":
                e.shutdown()
            elif a == "Tick":
                t = self._find("tick")
                if t is None:
                    raise NotEnabled("Tick: the periodic clock of the real engine is not pending (stream ended?)")
                self.run_item(t)
            else:
                raise HarnessDrift("unknown action %r" % a)
            self._settle()

    def _settle_held(self):
        """KillLate: deliver the kill everywhere while the launch hop is held back (no observation in between)."""
        while True:
            hops = [i for i in self.live_items() if i not in self.held and self.classify(i) == "hop"]
            if not hops:
                return
            self.run_item(min(hops, key=lambda i: i.seq))

    # ================================================================ direction (b): random interleavings, logged
    def random_run(self, rnd, reasons, kinds, max_steps=400, p_env=0.25, allow_run_dead=False):
        """Seeded random interleaving at single-item granularity.  Returns the logged steps."""
        self.mode = "random"
        self.rnd = rnd
        self.reasons, self.kinds = list(reasons), list(kinds)
        self.p_env = p_env
        self.trace = []
        self.budget = max_steps
        self.nkill = self.ntick = self.nrestart = 0
        self.run_called = False
        self.allow_run_dead = allow_run_dead
        self.want_shutdown = rnd.random() < 0.7
        self.kill_budget = rnd.choice([0, 1, 1, 2])
        self.tick_budget = rnd.choice([0, 1, 2, 3])
        self.restart_budget = rnd.choice([0, 1, 2, 4])
        self.updates = []
        self.closing = False
        self.killed_alive = False
        self.shutdown_called = False
        self._random_loop(None)
        return self.trace

    def _log(self, ev, arg="-"):
        o = self.observe()
        ups = o.pop("ups")
        if len(ups) > 1:
            raise HarnessDrift("one step delivered %d updates" % len(ups))
        o["upd"] = ups[0] if ups else None
        o["ev"], o["arg"] = ev, arg
        self.trace.append(o)

    def _env_choices(self):
        e = self.engine
        out = []
        if self.closing:
            # closing phase: every task ends, a dead engine is shut down (if this run wants to), nothing else
            if e.process is not None and e.process.alive:
                out.append(("Exit", "Killed" if e.process.kill_requested else "Success"))
            elif not e.isAlive() and not e.isShutdown and self.want_shutdown:
                out.append(("Shutdown", "-"))
            return out
        if not self.run_called and not e.isShutdown and (e.isAlive() or self.allow_run_dead):
            out.append(("Run", "-"))
        if self.nkill < self.kill_budget:
            out.append(("Kill", "-"))
        if e.process is not None and e.process.alive:
            r = "Killed" if (e.process.kill_requested and self.rnd.random() < 0.7) else self.rnd.choice(self.reasons)
            out.append(("Exit", r))
        if not e.isAlive() and not e.isShutdown:
            if self.nrestart < self.restart_budget:
                out.append(("Restart", "-"))
            if self.want_shutdown:
                out.append(("Shutdown", "-"))
        return out

    def _random_loop(self, until):
        """until: the task whose wait() this loop runs in (None at top level)."""
        while True:
            self.budget -= 1
            if self.budget <= 0 and not self.closing:
                self.closing = True          # drive the run to quiescence (fair schedule): liveness on the code
            if self.budget < -3000:
                raise HarnessDrift("the closing phase does not terminate")
            items = self.live_items()
            due = [i for i in items if i.due <= self.world.now and self.classify(i) in ("hop", "snap", "task")]
            timers = [i for i in items if self.classify(i) in ("timer", "delay", "tick", "future")]
            if self.ntick >= self.tick_budget or self.closing:
                timers = [i for i in timers if self.classify(i) != "tick"]
            envs = self._env_choices()
            if self.closing:
                # hops first (FIFO), then time, then the environment
                if due:
                    due = [min(due, key=lambda i: i.seq)]
                    timers, envs = [], []
                elif timers:
                    timers = [min(timers, key=lambda i: i.seq)]
                    envs = []
            if not due and not timers and not envs:
                if until is not None and until.alive:
                    raise HarnessDrift("nothing can happen while a task is waited for")
                return
            pick_env = envs and (not due and not timers or self.rnd.random() < self.p_env)
            if pick_env:
                ev, arg = self.rnd.choice(envs)
                e = self.engine
                self.last_restart = "-"
                if ev == "Run":
                    self.run_called = True
                    e.run()
                elif ev == "Kill":
                    self.nkill += 1
                    if e.isAlive():
                        self.killed_alive = True
                    e.kill()
                elif ev == "Exit":
                    t = e.process
                    t.finish(arg)
                    if t.waiting:
                        if until is not t:
                            raise HarnessDrift("a task waits outside the innermost loop")
                        self.exit_arg = arg
                        return          # wait() returns: HandleTaskExit runs in the carrier item, logged by the caller
                elif ev == "Restart":
                    self.nrestart += 1
                    self.last_restart = e.restart()
                elif ev == "Shutdown":
                    self.shutdown_called = True
                    e.shutdown()
                self._log(ev, arg)
                continue
            if due and (not timers or self.rnd.random() < 0.85):
                it = self.rnd.choice(due)
            else:
                it = self.rnd.choice(timers)
            cls = self.classify(it)
            arg = "-"
            if cls == "delay":
                ev = "Fire"
            elif cls == "tick":
                self.ntick += 1
                ev = "Tick"
            elif cls == "snap":
                live = sorted((i for i in self.snap_items if not i.dead), key=lambda i: i.seq)
                ev, arg = "Snap", str(live.index(it) + 1)
            elif cls == "task":
                ev = "HopTask"
            elif it.lane == "pool:EngineTrigger":
                ev = "HopTrigger"
            elif it.lane == "pool:Engine":
                ev = "HopEngine"
            elif it.lane.startswith("tp"):
                ev = "HopFilter"
            else:
                ev = "HopOther"
            self.exit_arg = None
            self.run_item(it)
            if cls == "task" and self.exit_arg is not None:
                ev, arg = "Exit", self.exit_arg     # the carrier returned: task exit + HandleTaskExit in one step
                self.exit_arg = None
            self._log(ev, arg)

    def _random_wait(self, task):
        self._log("HopTask")         # the task-lane item entered wait(): a step of its own
        self._random_loop(task)
        if task.alive:
            raise HarnessDrift("wait() returns while the task is alive")

    def finish_run(self):
        """After random_run (which ends with a fair closing phase): one clock tick, settle, then the liveness obligations
        on the real engine.  -> None or (key, what)"""
        e = self.engine
        self.order = "fifo"
        self.need_obs = False
        t = self._find("tick")
        if t is not None:
            self.run_item(t)
        self.mode = "replay"
        self._settle()
        self.mode = "random"
        if e.isAlive() and (self.run_called or self.killed_alive):
            return ("prop:engine-alive-at-quiescence", "run() called: %s, kill() on a live engine: %s, yet isAlive() at quiescence" % (self.run_called, self.killed_alive))
        if self.shutdown_called and not self.completed:
            return ("prop:stream-not-completed-after-shutdown", "shutdown() was called, the update stream did not complete")
        if not e.isAlive():
            seen = [u["isAlive"] for u in self.all_updates if "isAlive" in u]
            if not seen or seen[-1] != "F":
                return ("prop:consumer-believes-alive-at-quiescence", "engine dead (%s), isAlive values seen in updates: %s" % (e.exitReason(), seen[-6:]))
        return None
