"""Workflow shapes for Scheduler.tla: one source for the TLA+ constants and for the FlowIR given to the real code.

A shape lists *base* components (before replication); `expand()` produces the nodes after replication the same way
the runtime does (replica i of a consumer reads replica i of a replicated producer; an aggregating consumer reads all
replicas).  The driver cross-checks the expansion against the graph the real code builds (drift = machinery error).
"""
import itertools

# outcome sequences (exit reason per execution; later executions succeed)
OUTSEQS = [
    ["Success"],                                        # 1
    ["KnownIssue"],                                     # 2
    ["ResourceExhausted", "Success"],                   # 3
    ["UnknownIssue"],                                   # 4
    ["SubmissionFailed", "Success"],                    # 5
    ["ResourceExhausted", "ResourceExhausted", "KnownIssue"],   # 6
    ["SubmissionFailed"] * 7,                           # 7
    ["ResourceExhausted"] * 5,                          # 8
]


def comp(name, stage=0, prods=(), repeat=False, agg=False, replicate=0, shutOn=(), restOn=("ResourceExhausted",),
         maxR=None, outs=(1, 2), loop=False, cond=False, fname=None):
    """loop: the component belongs to the (single) DoWhile document of the shape; cond: it produces the loop's condition.
    A looped component has one node per iteration (`<i>#<name>`), all but iteration 0 instantiated at run time.
    fname: the name of the component in the workflow when it differs from `name` (`name` is unique within the shape, the
    workflow's names only within a stage: `stage0.prep` and `stage1.prep` are different components)."""
    return dict(name=name, stage=stage, prods=list(prods), repeat=repeat, agg=agg, replicate=replicate,
                shutOn=list(shutOn), restOn=list(restOn), maxR=maxR, outs=list(outs), loop=loop, cond=cond, fname=fname or name)


DW_ITERS = 3          # iteration slots per looped component (the environment answers "True" at most DW_ITERS - 1 times)
COND_ANSWERS = ("True", "False", "garbage")


KI = ("KnownIssue",)

BASE_SHAPES = {
    # chain in one stage; B shuts down on KnownIssue
    "chain2": [comp("a", outs=(1, 2, 3, 4)), comp("b", prods=["a"], shutOn=KI, outs=(1, 2, 3))],
    "chain2s": [comp("a", shutOn=KI, outs=(1, 2, 4, 5)), comp("b", prods=["a"], outs=(1, 2))],
    "chain3": [comp("a", shutOn=KI, outs=(1, 2)), comp("b", prods=["a"], outs=(1, 4)), comp("c", prods=["b"], outs=(1, 2))],
    # two stages
    "stages2": [comp("a", shutOn=KI, outs=(1, 2, 4)), comp("b", stage=1, prods=["a"], outs=(1, 2)), comp("x", stage=1, outs=(1, 4))],
    # fan-in, one producer may shut down
    "fanin": [comp("a", shutOn=KI, outs=(1, 2)), comp("b", outs=(1, 4)), comp("c", prods=["a", "b"], outs=(1, 2))],
    # observer of a subject in the same stage
    "obs": [comp("p", shutOn=KI, outs=(1, 2, 3, 4)), comp("o", prods=["p"], repeat=True, outs=(1, 2))],
    # observer with a producer from the previous stage and a subject in its own (the round-0 example)
    "obs2": [comp("z", outs=(1, 4)), comp("p", stage=1, shutOn=KI, outs=(1, 2)), comp("o", stage=1, prods=["z", "p"], repeat=True, outs=(1,))],
    # subject that itself depends on a component that may shut down
    "obschain": [comp("x", shutOn=KI, outs=(1, 2)), comp("p", prods=["x"], outs=(1,)), comp("o", prods=["p"], repeat=True, outs=(1,))],
    # replication + aggregation + plain input
    "agg": [comp("r", replicate=2, shutOn=KI, outs=(1, 2)), comp("x", shutOn=KI, outs=(1, 2)), comp("g", prods=["r", "x"], agg=True, outs=(1,))],
    # replicated follower then aggregation
    "aggchain": [comp("r", replicate=2, shutOn=KI, outs=(1, 2)), comp("m", prods=["r"], outs=(1, 4)), comp("g", prods=["m"], agg=True, outs=(1,))],
    # cross-stage consumers of a producer that fails while its own stage is still winding down (slow sibling s)
    "xfail": [comp("a", outs=(1, 4)), comp("s", outs=(1,)), comp("b", stage=1, prods=["a"], outs=(1,))],
    "aggfail": [comp("r", replicate=2, outs=(1, 4)), comp("s", outs=(1,)), comp("g", stage=1, prods=["r"], agg=True, outs=(1,))],
    # restart budgets
    "restart": [comp("a", maxR=1, outs=(3, 6, 8)), comp("b", prods=["a"], maxR=0, outs=(1, 3, 5)), comp("c", maxR=-1, restOn=("ResourceExhausted", "KnownIssue"), outs=(6, 7, 8))],
    # diamond over two stages with a final-stage leaf that may be shut down
    "diamond": [comp("a", shutOn=KI, outs=(1, 2)), comp("b", prods=["a"], outs=(1,)), comp("c", prods=["a"], shutOn=KI, outs=(1, 2)),
                comp("d", stage=1, prods=["b", "c"], outs=(1, 4))],
    # three stages (restart from stage 1 or 2; a failure / shutdown in the middle stage)
    "stages3": [comp("a", shutOn=KI, outs=(1, 2)), comp("b", stage=1, prods=["a"], outs=(1, 4)), comp("y", stage=1, outs=(1, 2), shutOn=KI),
                comp("c", stage=2, prods=["b", "y"], outs=(1,))],
    # an observer in the last of three stages whose producers sit in both earlier stages, plus a same-stage subject
    "obs3": [comp("z", outs=(1,)), comp("w", stage=1, prods=["z"], outs=(1, 4)), comp("p", stage=2, shutOn=KI, outs=(1, 2)),
             comp("o", stage=2, prods=["w", "p"], repeat=True, outs=(1,))],
    # a task that fails next to a long-running sibling and the sibling's not yet staged consumer (what a postponed
    # finishedCheck still has to stop at wake-up: _stopComponents for the one, fake finish for the other)
    "sibs": [comp("a", outs=(4, 1)), comp("s", outs=(1,)), comp("t", prods=["s"], outs=(1,))],
    # an observer with two subjects in its stage, one of which is staged late (it waits for a slow producer): the observer may
    # only start when BOTH are staged; the two shapes list the subjects in the two possible reference orders
    "obssub_a": [comp("slow", outs=(1,)), comp("sa", prods=["slow"], outs=(1,)), comp("sb", outs=(1,)),
                 comp("o", prods=["sa", "sb"], repeat=True, outs=(1,))],
    "obssub_b": [comp("slow", outs=(1,)), comp("sa", prods=["slow"], outs=(1,)), comp("sb", outs=(1,)),
                 comp("o", prods=["sb", "sa"], repeat=True, outs=(1,))],
    # producers with the same name in different stages consumed by one component (the later one finishes last)
    "samename": [comp("prep0", fname="prep", outs=(1,)), comp("prep1", fname="prep", stage=1, outs=(1, 4)),
                 comp("cons", stage=1, prods=["prep0", "prep1"], outs=(1,))],
    "samename_b": [comp("prep0", fname="prep", outs=(1,)), comp("prep1", fname="prep", stage=1, outs=(1,)),
                   comp("cons", stage=1, prods=["prep1", "prep0"], outs=(1,))],
    # DoWhile at run time: a loop (body, cond) fed by pre, consumed by post in the next stage; y runs next to the loop
    "dw1": [comp("pre", outs=(1,)), comp("body", prods=["pre"], loop=True, outs=(1, 4)),
            comp("cond", prods=["body"], loop=True, cond=True, shutOn=KI, outs=(1, 2)),
            comp("post", stage=1, prods=["body"], outs=(1,))],
    # the loop and its consumer in the same (only) stage, a long-running sibling, a condition that may be restarted
    "dw2": [comp("cond", loop=True, cond=True, outs=(1, 3, 4)), comp("s", outs=(1,)), comp("post", prods=["cond"], outs=(1,))],
}

QUICK = ["chain2", "chain2s", "chain3", "stages2", "fanin", "obs", "obs2", "obschain", "agg", "restart", "xfail", "aggfail",
         "obssub_a", "obssub_b", "samename", "samename_b"]
THOROUGH = QUICK + ["aggchain", "diamond"]
# growth item G02 (external kill, restart from a later stage, sleep / wake-up, memoization)
G02_QUICK = ["chain2", "stages2", "fanin", "obs", "obs2", "agg", "xfail", "aggfail", "restart", "stages3", "sibs"]
G02_THOROUGH = G02_QUICK + ["chain3", "obschain", "diamond", "obs3"]
G02_DW = ["dw1", "dw2"]


def expand(base):
    """Nodes after replication.  Returns list of dict(name, base, replica, stage, prods[names], repeat, agg, repl, ...)."""
    byname = {c["name"]: c for c in base}
    repcount = {}

    def count(c):   # replication propagates to non-aggregating consumers
        if c["name"] in repcount:
            return repcount[c["name"]]
        n = c["replicate"]
        if not c["agg"]:
            for p in c["prods"]:
                n = max(n, count(byname[p]))
        repcount[c["name"]] = n
        return n
    nodes = []
    looped = {c["name"] for c in base if c.get("loop")}
    conds = [c["name"] for c in base if c.get("cond")]
    for c in base:
        if c.get("loop"):
            # one node per iteration; inside the loop a reference means the same iteration
            for it in range(DW_ITERS):
                prods = ["%d#%s" % (it, p) if p in looped else p for p in c["prods"]]
                nodes.append(dict(c, node="%d#%s" % (it, c["name"]), rnode="%d#%s" % (it, c["fname"]), replica=None, prods=prods,
                                  repl=False, iter=it, base=c["name"]))
            continue
        if any(p in looped for p in c["prods"]):
            # a consumer of a looped component depends on every instance of it and on every condition component
            prods = []
            for p in c["prods"]:
                if p in looped:
                    prods += ["%d#%s" % (it, q) for it in range(DW_ITERS) for q in dict.fromkeys([p] + conds)]
                else:
                    prods.append(p)
            nodes.append(dict(c, node=c["name"], rnode=c["fname"], replica=None, prods=list(dict.fromkeys(prods)), repl=False, iter=0, base=None))
            continue
        n = count(c)
        for i in (range(n) if n else [None]):
            prods = []
            for p in c["prods"]:
                pn = count(byname[p])
                if pn and c["agg"]:
                    prods += ["%s%d" % (p, k) for k in range(pn)]
                elif pn:
                    prods.append("%s%d" % (p, i))
                else:
                    prods.append(p)
            sfx = "" if i is None else str(i)
            nodes.append(dict(c, node=c["name"] + sfx, rnode=c["fname"] + sfx, replica=i, prods=prods, repl=bool(n), iter=0, base=None))
    return nodes


def tla_set(xs, quote=True):
    return "{" + ", ".join(('"%s"' % x) if quote else str(x) for x in xs) + "}"


def shape_to_tla(nodes):
    idx = {n["node"]: i + 1 for i, n in enumerate(nodes)}
    f = lambda xs: "<<" + ", ".join(xs) + ">>"
    bases = list(dict.fromkeys(n["base"] for n in nodes if n.get("loop")))
    return "[" + ", ".join([
        "n |-> %d" % len(nodes),
        "nstages |-> %d" % (max(n["stage"] for n in nodes) + 1),
        "stage |-> " + f(str(n["stage"]) for n in nodes),
        "prod |-> " + f(tla_set([idx[p] for p in n["prods"]], False) for n in nodes),
        "repeat |-> " + f("TRUE" if n["repeat"] else "FALSE" for n in nodes),
        "agg |-> " + f("TRUE" if n["agg"] else "FALSE" for n in nodes),
        "repl |-> " + f("TRUE" if n["repl"] else "FALSE" for n in nodes),
        "shutOn |-> " + f(tla_set(n["shutOn"]) for n in nodes),
        "restOn |-> " + f(tla_set(n["restOn"]) for n in nodes),
        "maxR |-> " + f(str(3 if n["maxR"] is None else n["maxR"]) for n in nodes),
        "outs |-> " + f(tla_set(n["outs"], False) for n in nodes),
        # DoWhile: iteration of every node (0 outside the loop), looped / condition flags, a number per looped base component
        "iter |-> " + f(str(n["iter"]) for n in nodes),
        "looped |-> " + f("TRUE" if n.get("loop") else "FALSE" for n in nodes),
        "cond |-> " + f("TRUE" if n.get("cond") else "FALSE" for n in nodes),
        "base |-> " + f(str(bases.index(n["base"]) + 1 if n.get("loop") else 0) for n in nodes),
        "K |-> %d" % (DW_ITERS if bases else 1),
    ]) + "]"


def outseqs_to_tla():
    return "<<" + ", ".join("<<" + ", ".join('"%s"' % r for r in s) + ">>" for s in OUTSEQS) + ">>"


def data_module(shape_names):
    shapes = [shape_to_tla(expand(BASE_SHAPES[s])) for s in shape_names]
    return """---- MODULE SchedData ----
EXTENDS Integers
\\* generated by harness/sched_shapes.py: %s
Shapes == <<
  %s
>>
OutSeqs == %s
====
""" % (" ".join(shape_names), ",\n  ".join(shapes), outseqs_to_tla())


def is_dowhile(base):
    return any(c.get("loop") for c in base)


def dowhile_package(base):
    """(main FlowIR, DoWhile document) for a shape with looped components: conf/flowir_package.yaml + conf/dowhile.yaml.
    Producers outside the loop are bound through inputBindings (type ref); the condition is the file `flag` in the
    working directory of the condition component of the latest iteration."""
    looped = [c for c in base if c.get("loop")]
    names = {c["name"] for c in looped}
    stage = looped[0]["stage"]
    assert all(c["stage"] == stage for c in looped)
    rm = {"config": {"backend": "simulator"}}

    def wattrs(c):
        wa = {"shutdownOn": list(c["shutOn"]), "restartHookOn": list(c["restOn"])}
        if c["maxR"] is not None:
            wa["maxRestarts"] = c["maxR"]
        if c["repeat"]:
            wa["repeatInterval"] = 10
        if c["agg"]:
            wa["aggregate"] = True
        return wa
    bind = {}
    inner = []
    for c in looped:
        refs = []
        for p in c["prods"]:
            if p in names:
                refs.append("%s:ref" % p)
            else:
                b = "in_%s" % p
                bind[b] = "stage%d.%s:ref" % (next(x for x in base if x["name"] == p)["stage"], p)
                refs.append("%s:ref" % b)
        inner.append({"name": c["name"], "references": refs, "command": {"executable": "fake_executable", "arguments": " ".join(refs)},
                      "workflowAttributes": wattrs(c), "resourceManager": {"config": dict(rm["config"])}})
    cond = next(c for c in looped if c.get("cond"))
    doc = {"type": "DoWhile", "inputBindings": {b: {"type": "ref"} for b in bind}, "loopBindings": {},
           "condition": "%s/flag:output" % cond["name"], "components": inner}
    comps = []
    for c in base:
        if c.get("loop"):
            continue
        refs = ["stage%d.%s:ref" % (next(x for x in base if x["name"] == p)["stage"], p) for p in c["prods"]]
        comps.append({"name": c["name"], "stage": c["stage"], "references": refs,
                      "command": {"executable": "fake_executable", "arguments": " ".join(refs)},
                      "workflowAttributes": wattrs(c), "resourceManager": {"config": dict(rm["config"])}})
    comps.append({"name": "theloop", "stage": stage, "$import": "dowhile.yaml", "bindings": bind})
    return {"components": comps}, doc


def node_ref(n):
    """The reference of a node (of expand()) in the real workflow graph."""
    return "stage%d.%s" % (n["stage"], n.get("rnode", n["node"]))


def flowir(base):
    comps = []
    byname = {x["name"]: x for x in base}
    for c in base:
        refs = ["stage%d.%s:ref" % (byname[p]["stage"], byname[p]["fname"]) for p in c["prods"]]
        wa = {"shutdownOn": list(c["shutOn"]), "restartHookOn": list(c["restOn"])}
        if c["maxR"] is not None:
            wa["maxRestarts"] = c["maxR"]
        if c["repeat"]:
            wa["repeatInterval"] = 10
        if c["agg"]:
            wa["aggregate"] = True
        if c["replicate"]:
            wa["replicate"] = c["replicate"]
        comps.append({"name": c["fname"], "stage": c["stage"], "references": refs,
                      "command": {"executable": "fake_executable", "arguments": " ".join(refs)},
                      "workflowAttributes": wa,
                      "resourceManager": {"config": {"backend": "simulator"}}})
    return {"components": comps}
