"""G05, part 1: execute the cases of spec/ExecutorChain.tla (Part = "resolve" / "render") on the REAL classes.

Everything here calls experiment.model.executors (Command, Executor, LocalExecutableChecker), graph.ComponentSpecification
(command, checkExecutable), data.Job.command and runtime.backends.LocalTaskGenerator as a user of the runtime would; the only
things made up are files: a fixture directory <base> (bin/tool, bin/lnk -> real/tool, bin/noexec, bin/dump, data/) and the
packages generated per batch of cases.
"""
import json
import os
import re
import shutil
import subprocess

from . import realenv  # noqa: F401  (silences logging, imports experiment.model.*)
import experiment.model.executors as X

DUMP = """#!/venv/bin/python -SE
import sys, os, json
out = os.environ.get("G05_OUT", "dump.json")
with open(out + ".tmp", "w") as f:
    json.dump({"argv": sys.argv[1:], "env": dict(os.environ)}, f)
os.replace(out + ".tmp", out)
"""
SHELL_ADDED = {"PWD", "OLDPWD", "SHLVL", "_", "LC_CTYPE"}


class Fixture:
    def __init__(self, root):
        self.base = os.path.realpath(root)
        b = self.base
        shutil.rmtree(b, ignore_errors=True)
        for d in ("bin", "real", "empty", "wd", "data"):
            os.makedirs(os.path.join(b, d))
        self._mk(os.path.join(b, "real", "tool"))
        self._mk(os.path.join(b, "bin", "tool"))
        self._mk(os.path.join(b, "bin", "noexec"), False)
        os.symlink(os.path.join(b, "real", "tool"), os.path.join(b, "bin", "lnk"))
        with open(os.path.join(b, "bin", "dump"), "w") as f:
            f.write(DUMP)
        os.chmod(os.path.join(b, "bin", "dump"), 0o755)
        with open(os.path.join(b, "data", "f"), "w") as f:
            f.write("x")
        ls = shutil.which("ls", path="/usr/bin:/bin")
        if ls is None or os.path.realpath(ls) != ls or shutil.which("which", path=os.path.dirname(ls)) is None:
            raise RuntimeError("no plain `ls` + `which` in one system directory: the symbolic root S cannot be bound on this host")
        self.sysdir = os.path.dirname(ls)
        self.repl = "/G05-remote-root"
        self.echo_escapes = subprocess.run(["/bin/sh", "-c", 'echo "a\\tb"'], capture_output=True, text=True).stdout == "a\tb\n"

    @staticmethod
    def _mk(p, x=True):
        with open(p, "w") as f:
            f.write("#!/bin/sh\nexit 0\n")
        os.chmod(p, 0o755 if x else 0o644)

    # -- symbolic -> real --------------------------------------------------------------------------------------------
    def path(self, segs, bare=False, base=None):
        if bare:
            return segs[0]
        root = {"B": base or self.base, "S": self.sysdir}[segs[0]]
        return os.path.join(root, *segs[1:])

    def given(self, k, base=None):
        b = base or self.base
        return {"abs": b + "/bin/tool", "abslnk": b + "/bin/lnk", "absmiss": b + "/bin/nosuch", "absnox": b + "/bin/noexec",
                "rel": "bin/tool", "reldot": "./bin/lnk", "relmiss": "bin/nosuch", "bare": "tool", "barelnk": "lnk", "baremiss": "nosuch",
                "baresys": "ls", "envref": "$D/tool", "envbrace": "${D}/lnk", "envundef": "$U/tool", "envbare": "$T"}[k]

    def env(self, pm, base=None):
        b = base or self.base
        e = {"D": b + "/bin", "T": "tool", "V": "val"}
        if pm == "has":
            e["PATH"] = b + "/bin:" + self.sysdir
        elif pm == "other":
            e["PATH"] = b + "/empty"
        return e

    def text(self, s):
        """rendered string of the specification -> real text"""
        return s.replace("<B>", self.base).replace("<R>", self.repl).replace("<TAB>", "\t")

    def render_env(self):
        return {"PATH": self.base + "/bin:" + self.sysdir, "V": "val", "SP": "a  b", "REF": "$V/x", "BASE": self.base + "/data"}


RP = {"true": True, "false": False, "none": None}
RP_BACK = {True: "true", False: "false", None: "none"}


def resolve_case(fx, case):
    """-> {"ok", "exe", "rp"} of the real classes; {"error": ...} for anything that is neither a result nor a ValueError"""
    X.LocalExecutableChecker.cache.clear()
    exe, env = fx.given(case["k"]), fx.env(case["pm"])

    def make(rp):
        return X.Command(exe, "a", workingDir=fx.base + "/wd", environment=env, basePath=fx.base, resolvePath=rp)
    try:
        rp = RP[case["rp"]]
        if case["prior"] != "none":
            prp = rp if case["prior"] == "same" else (not bool(rp))
            make(prp).updatePath()
        c = make(rp)
        op = case["op"]
        try:
            if op == "updatePath":
                c.updatePath()
            elif op == "check":
                c.checkExecutable()
            elif op == "updateAndCheck":
                c.updateAndCheckExecutable()
            elif op == "wrap":
                ex = X.Executor(c, "/usr/bin/env", arguments="", environment={})
                if ex.target is not c:
                    return {"error": "Executor.target is not the command it was given"}
        except ValueError:
            return {"ok": False}
        return {"ok": True, "exe": c.executable, "rp": RP_BACK.get(c.resolvePath, repr(c.resolvePath))}
    except Exception as e:      # noqa
        return {"error": "%s: %s" % (type(e).__name__, str(e)[:200])}


def expected_resolve(fx, res):
    if not res["ok"]:
        return {"ok": False}
    return {"ok": True, "exe": fx.path(res["exe"], res["bare"]), "rp": res["rp"]}


def render_case(fx, case, raw):
    """Command level: -> {"ok", "line"}"""
    try:
        try:
            c = X.Command(fx.base + "/bin/dump", raw, workingDir=fx.base + "/wd", environment=fx.render_env(), basePath=fx.base,
                          resolvePath=False, resolveShellSubstitutions=case["rss"], expandArguments=case["mode"])
        except ValueError:
            return {"ok": False}
        target = c
        if case.get("wrap"):
            c = X.Executor(target, fx.base + "/bin/tool", arguments="-x $V", environment={"V": "exec", "E": "e"})
        if case["rw"]:
            c.setRewriteRule({"pattern": re.escape(fx.base), "replacement": fx.repl})
        try:
            a = c.commandLine
            b = c.commandLine
        except ValueError:
            return {"ok": False}
        if a != b:
            return {"error": "commandLine read twice: %r then %r" % (a, b)}
        cwd = os.getcwd()
        out = {"ok": True, "line": a, "cwd": cwd}
        if case.get("wrap"):
            env = c.environment
            out["wenv"] = {"V": env.get("V"), "E": env.get("E")}
            if c.workingDir != target.workingDir:
                return {"error": "Executor.workingDir %r differs from its target's %r" % (c.workingDir, target.workingDir)}
            if set(target.environment) - set(env):
                return {"error": "Executor.environment lacks variables of its target: %s" % sorted(set(target.environment) - set(env))}
        return out
    except Exception as e:      # noqa
        return {"error": "%s: %s" % (type(e).__name__, str(e)[:200])}


def shell_words(fx, text, env):
    """what /bin/sh makes of `text` as arguments (used to validate the token tables of the specification against the shell itself)"""
    out = os.path.join(fx.base, "wd", "words.json")
    if os.path.exists(out):
        os.remove(out)
    e = dict(env)
    e["G05_OUT"] = out
    p = subprocess.run(["/bin/sh", "-c", "%s/bin/dump %s" % (fx.base, text)], env=e, cwd=fx.base + "/wd", capture_output=True, text=True)
    if not os.path.exists(out):
        return None, p.returncode
    with open(out) as f:
        return json.load(f)["argv"], p.returncode


# ----------------------------------------------------------------------------------------------------------------------
# component level

def package_for(fx, cases, raws):
    """one package, one component per case: the executable is the dump tool, the arguments are the case's tokens"""
    comps = []
    for i, (case, raw) in enumerate(zip(cases, raws)):
        cmd = {"executable": fx.base + "/bin/dump", "arguments": raw, "environment": "myenv", "expandArguments": case["mode"]}
        if case["interp"]:
            cmd["interpreter"] = "bash"
        comps.append({"name": "c%d" % i, "stage": 0, "command": cmd})
    env = {"DEFAULTS": "PATH", "V": "val", "SP": "a  b", "BASE": fx.base + "/data", "G05_OUT": "dump.json"}
    return {"environments": {"default": {"myenv": env}}, "components": comps}


def run_components(fx, cases, raws, scratch):
    """-> list of {"line", "argv", "env", "cenv", "rc"} / {"error"} per case: Job.command -> LocalTaskGenerator -> the real process"""
    import experiment.runtime.backends as B
    out = []
    try:
        exp = realenv.experiment_from_flowir(package_for(fx, cases, raws), scratch)
    except Exception as e:      # noqa
        return [{"error": "package rejected: %s: %s" % (type(e).__name__, str(e)[:300])} for _c in cases]
    try:
        for i, case in enumerate(cases):
            try:
                job = exp.graph.nodes["stage0.c%d" % i]["componentInstance"]
                line = job.command.commandLine
                cenv = job.command.environment
                t = B.LocalTaskGenerator(job)
                t.wait()
                p = os.path.join(job.workingDirectory.path, "dump.json")
                d = None
                if os.path.exists(p):
                    with open(p) as f:
                        d = json.load(f)
                out.append({"line": line, "argv": d and d["argv"], "env": d and d["env"], "cenv": cenv, "rc": t.returncode,
                            "mode": job.componentSpecification.commandDetails.get("expandArguments")})
            except Exception as e:      # noqa
                out.append({"error": "%s: %s" % (type(e).__name__, str(e)[:300])})
    finally:
        shutil.rmtree(exp.instanceDirectory.location, ignore_errors=True)
    return out


def check_executable_components(fx, cases, scratch):
    """ComponentSpecification.checkExecutable for one component per case (k, pm, rp, prior); prior = "other": the sibling component
    with the same executable and environment but the other resolvePath is checked first.  The fixture of relative executables is
    created inside the instance directory (they are resolved against it).  -> list of {"ok", "exe", "persisted"} / {"error"}"""
    import experiment.model.errors as E
    comps, envs = [], {}
    for pm in ("has", "other", "nopath"):
        e = fx.env(pm)
        e.pop("V", None)
        envs["env" + pm] = e
    for i, case in enumerate(cases):
        for tag, rp in (("c", RP[case["rp"]]), ("s", not bool(RP[case["rp"]]))):
            cmd = {"executable": fx.given(case["k"]), "arguments": "x", "environment": "env" + case["pm"]}
            if rp is not None:
                cmd["resolvePath"] = rp
            comps.append({"name": "%s%d" % (tag, i), "stage": 0, "command": cmd})
    try:
        exp = realenv.experiment_from_flowir({"environments": {"default": envs}, "components": comps}, scratch)
    except Exception as e:      # noqa
        return [{"error": "package rejected: %s: %s" % (type(e).__name__, str(e)[:300])} for _c in cases], None
    inst = exp.instanceDirectory.location
    out = []
    try:
        for d in ("bin", "real"):
            os.makedirs(os.path.join(inst, d), exist_ok=True)
        Fixture._mk(os.path.join(inst, "real", "tool"))
        Fixture._mk(os.path.join(inst, "bin", "tool"))
        if not os.path.lexists(os.path.join(inst, "bin", "lnk")):
            os.symlink(os.path.join(inst, "real", "tool"), os.path.join(inst, "bin", "lnk"))
        for i, case in enumerate(cases):
            X.LocalExecutableChecker.cache.clear()
            try:
                if case["prior"] == "other":
                    try:
                        exp.graph.nodes["stage0.s%d" % i]["componentSpecification"].checkExecutable()
                    except E.ComponentExecutableCannotBeFoundError:
                        pass
                spec = exp.graph.nodes["stage0.c%d" % i]["componentSpecification"]
                try:
                    spec.checkExecutable()
                except E.ComponentExecutableCannotBeFoundError:
                    out.append({"ok": False})
                    continue
                out.append({"ok": True, "exe": spec.command.executable, "persisted": spec.commandDetails["executable"],
                            "job": exp.graph.nodes["stage0.c%d" % i]["componentInstance"].command.executable})
            except Exception as e:      # noqa
                out.append({"error": "%s: %s" % (type(e).__name__, str(e)[:300])})
    finally:
        shutil.rmtree(inst, ignore_errors=True)
    return out, os.path.realpath(inst)
