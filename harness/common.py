"""Shared machinery for all checks: evidence files, violations, known findings, scratch dirs.

Exit-code contract (DESIGN.md 3.5):
  0  property held on everything explored (KNOWN-FINDING lines allowed)
  1  at least one violation not listed in known_findings.json (a VIOLATION line was printed)
  2  machinery failure (TLC crashed, spec drift, zero coverage ...), never a verdict
"""
import json
import os
import shutil
import sys
import time
import hashlib

VERIF = os.path.dirname(os.path.dirname(os.path.abspath(__file__)))
OUT = os.path.join(VERIF, "out")
SPEC = os.path.join(VERIF, "spec")
EVIDENCE = os.path.join(VERIF, "evidence")
KNOWN = os.path.join(VERIF, "known_findings.json")


class MachineryError(Exception):
    pass


def seed():
    try:
        return int(os.environ.get("VERIF_SEED", "0"))
    except ValueError:
        return 0


def load_known():
    if not os.path.exists(KNOWN):
        return []
    with open(KNOWN) as f:
        return json.load(f)["findings"]


class Check:
    """One run of one property check."""

    def __init__(self, pid, tier, level="model_checking"):
        self.pid = pid
        self.tier = tier
        self.level = level
        self.t0 = time.time()
        self.seed = seed()
        self.violations = []       # (key, what, replay_path)
        self.known_hit = {}        # key -> count
        self.known = [k for k in load_known() if k["property"] == pid and k.get("status", "open") == "open"]
        self.known_keys = {k["key"]: k for k in self.known}
        self.cov = {"states": 0, "transitions": 0, "traces_validated_against_impl": 0, "samples": [],
                    "evaluations": 0, "distinct_nontrivial": 0, "rule": "", "tlc": []}
        self.assumptions = []
        self.scratch = os.path.join(OUT, "%s_%s_%d" % (pid, tier, os.getpid()))
        if os.path.exists(self.scratch):
            shutil.rmtree(self.scratch)
        os.makedirs(self.scratch)
        self.replay_dir = os.path.join(OUT, "replay", pid)
        os.makedirs(self.replay_dir, exist_ok=True)
        self._nviol_files = 0
        self._distinct = set()

    # -- coverage helpers -------------------------------------------------
    def add_tlc(self, res):
        self.cov["states"] += res.get("distinct", 0)
        self.cov["transitions"] += res.get("generated", 0)
        self.cov["tlc"].append({k: res.get(k) for k in ("cmd", "generated", "distinct", "depth", "wall_s", "mode", "coverage")})

    def sample(self, s, limit=5):
        if len(self.cov["samples"]) < limit:
            self.cov["samples"].append(s)

    def evaluated(self, case_key=None, nontrivial=True, n=1):
        self.cov["evaluations"] += n
        if case_key is not None and nontrivial:
            h = hashlib.md5(json.dumps(case_key, sort_keys=True, default=str).encode()).digest()[:8]
            self._distinct.add(h)

    def trace_validated(self, n=1):
        self.cov["traces_validated_against_impl"] += n

    # -- violations ---------------------------------------------------------
    def violation(self, key, what, replay=None):
        """key: canonical identity of the failing case class (input / call site / history)."""
        if key in self.known_keys:
            self.known_hit[key] = self.known_hit.get(key, 0) + 1
            return False
        path = None
        if self._nviol_files < 50:
            self._nviol_files += 1
            path = os.path.join(self.replay_dir, "%s_%d.json" % (self.tier, self._nviol_files))
            with open(path, "w") as f:
                json.dump({"property": self.pid, "key": key, "what": what, "replay": replay}, f, indent=1, default=str)
        self.violations.append((key, what, path))
        if len(self.violations) <= 20:
            print("VIOLATION property=%s replay=%s" % (self.pid, path))
            print("  key=%s :: %s" % (key, what))
            sys.stdout.flush()
        return True

    # -- end ----------------------------------------------------------------
    def finish(self):
        self.cov["distinct_nontrivial"] = len(self._distinct)
        if self.cov["traces_validated_against_impl"] == 0 and self.cov["evaluations"] > 0:
            # function specifications: every case is a one-step behaviour of the spec executed on the implementation and
            # compared with the spec's result; those that agreed are the behaviours validated against the implementation
            self.cov["traces_validated_against_impl"] = max(0, self.cov["evaluations"] - len(self.violations) - sum(self.known_hit.values()))
            self.cov["traces_note"] = "one-step behaviours (cases) executed on the implementation and found equal to the specification"
        for k in self.known:
            n = self.known_hit.get(k["key"], 0)
            if n:
                print("KNOWN-FINDING: property=%s %s [key=%s, %d case(s) this run]" % (self.pid, k["what"], k["key"], n))
            else:
                print("note: known finding key=%s of %s was not exercised/reproduced in this run" % (k["key"], self.pid))
        self.cov["known_findings_reproduced"] = dict(self.known_hit)
        ev = {
            "property_id": self.pid,
            "tier": self.tier,
            "seed": self.seed,
            "level": self.level,
            "coverage": self.cov,
            "assumptions": self.assumptions,
            "wall_s": round(time.time() - self.t0, 2),
            "violations": len(self.violations),
        }
        os.makedirs(EVIDENCE, exist_ok=True)
        tmp = os.path.join(EVIDENCE, ".%s.json.tmp" % self.pid)
        with open(tmp, "w") as f:
            json.dump(ev, f, indent=1, default=str)
        os.replace(tmp, os.path.join(EVIDENCE, "%s.json" % self.pid))
        shutil.rmtree(self.scratch, ignore_errors=True)
        if len(self.violations) > 20:
            print("... %d violations in total" % len(self.violations))
        print("%s tier=%s: states=%d transitions=%d cases=%d distinct=%d traces=%d violations=%d known=%d wall=%.1fs" % (
            self.pid, self.tier, self.cov["states"], self.cov["transitions"], self.cov["evaluations"],
            self.cov["distinct_nontrivial"], self.cov["traces_validated_against_impl"], len(self.violations),
            sum(self.known_hit.values()), time.time() - self.t0))
        return 1 if self.violations else 0
