"""Worker of the C15 check: loads packages in THIS process and dumps canonical projections.

Started by harness/checks/c15.py as   PYTHONHASHSEED=<seed> /venv/bin/python harness/c15_worker.py <job.json> <out.json>
(one process per hash seed and slice; many cases per process because importing `experiment` costs seconds).

The job file names, per case, the package directory of this worker's *variant* (same documents, mapping keys in a
different order) and the list of user variable files.  Before `experiment` is imported the worker replaces
os.listdir / os.scandir / glob.glob by versions that return their (complete) results in a seeded random order, so
that every dependence on the order in which the file system lists files becomes visible as a difference between the
dumps of two processes.

Nothing in here judges: the worker only reports what the real code computed (or the exception class it raised).
"""
import glob as _glob
import json
import os
import random
import sys


def install_shuffled_listing(seed):
    rng = random.Random(seed)
    real_listdir, real_scandir, real_glob, real_iglob = os.listdir, os.scandir, _glob.glob, _glob.iglob

    def listdir(path="."):
        out = list(real_listdir(path))
        out.sort()
        rng.shuffle(out)
        return out

    class Scan:
        """stands in for the iterator os.scandir returns (context manager + iterator + close)"""

        def __init__(self, path):
            with real_scandir(path) as it:
                self._entries = sorted(it, key=lambda e: e.name)
            rng.shuffle(self._entries)
            self._it = iter(self._entries)

        def __iter__(self):
            return self

        def __next__(self):
            return next(self._it)

        def __enter__(self):
            return self

        def __exit__(self, *a):
            return False

        def close(self):
            pass

    def scandir(path="."):
        return Scan(path)

    def iglob(*a, **kw):           # glob.glob itself calls the module-level iglob: only real_iglob may be used here
        out = sorted(real_iglob(*a, **kw))
        rng.shuffle(out)
        return iter(out)

    def glob(*a, **kw):
        return list(iglob(*a, **kw))

    os.listdir, os.scandir, _glob.glob, _glob.iglob = listdir, scandir, glob, iglob


def canon(obj):
    """JSON-able, order-free rendering: mappings by sorted key, sets sorted, everything else by str()"""
    if isinstance(obj, dict):
        return {str(k): canon(obj[k]) for k in sorted(obj, key=str)}
    if isinstance(obj, (list, tuple)):
        return [canon(x) for x in obj]
    if isinstance(obj, (set, frozenset)):
        return sorted((canon(x) for x in obj), key=lambda x: json.dumps(x, sort_keys=True))
    if obj is None or isinstance(obj, (bool, int, float, str)):
        return obj
    return str(obj)


def main():
    job = json.load(open(sys.argv[1]))
    install_shuffled_listing(job["listing_seed"])
    # the hash seed is fixed at interpreter start; the variable itself must not differ between the processes'
    # environments, because component environments may legitimately inherit the process environment
    hashseed = os.environ.pop("PYTHONHASHSEED", None)
    os.environ.pop("VERIF_NO_REEXEC", None)
    import logging
    import warnings
    warnings.simplefilter("ignore")
    logging.disable(logging.CRITICAL)
    import copy
    import shutil
    import yaml
    import experiment.model.frontends.flowir as FL
    import experiment.model.conf as conf
    import experiment.model.data as data
    import experiment.model.graph as graph
    import experiment.model.storage as storage

    root = job["scratch"]
    os.makedirs(root, exist_ok=True)
    os.chdir(job["cwd"])          # user variable files are named relatively to the variant directory
    counter = [0]
    packages, documents = {}, {}

    def args_of(concrete, cid):
        return concrete.get_component_configuration(cid, raw=False, include_default=True)["command"]["arguments"]

    def guarded(fn):
        try:
            return fn()
        except Exception as e:   # reported, never judged here
            if os.environ.get("C15_WORKER_DEBUG"):
                import traceback
                traceback.print_exc()
            return {"exception": type(e).__name__, "text": str(e)[:200]}

    def uservars_case(case):
        out = {}
        files = case["variable_files"]
        pkgdir = case["package"]

        def user_of(c):
            return canon(c.get_user_variables())

        def e1():       # FlowIRExperimentConfiguration.__init__ (conf.py ~283), package document already parsed
            if pkgdir not in documents:
                with open(os.path.join(pkgdir, "conf", "flowir_package.yaml")) as f:
                    documents[pkgdir] = yaml.safe_load(f)
            c = conf.FlowIRExperimentConfiguration(
                path=None, platform=None, variable_files=list(files), system_vars={}, is_instance=False,
                createInstanceFiles=False, primitive=True, updateInstanceFiles=False,
                concrete=FL.FlowIRConcrete(copy.deepcopy(documents[pkgdir]), None, {}))
            cc = c.get_flowir_concrete(return_copy=False)
            return {"c0": args_of(cc, (0, "c0")), "c1": args_of(cc, (1, "c1")), "user": user_of(c)}

        def e1d():      # the same constructor, reached by loading the package directory
            c = conf.ExperimentConfigurationFactory.configurationForExperiment(pkgdir, variable_files=list(files))
            cc = c.get_flowir_concrete(return_copy=False)
            return {"c0": args_of(cc, (0, "c0")), "c1": args_of(cc, (1, "c1")), "user": user_of(c)}

        def the_package():
            if pkgdir not in packages:
                packages[pkgdir] = storage.ExperimentPackage.packageFromLocation(pkgdir)
            return packages[pkgdir]

        def e2():       # FlowIRExperimentConfiguration.parametrize (conf.py ~484) of a package that is already loaded
            pkg = the_package()
            c = pkg.configuration
            c.parametrize(platform=None, systemvars={}, createInstanceFiles=False, updateInstanceFiles=False, primitive=True,
                          variable_files=list(files), is_instance=False, manifest=pkg.manifestData)
            cc = c.get_flowir_concrete(return_copy=False)
            return {"c0": args_of(cc, (0, "c0")), "c1": args_of(cc, (1, "c1")), "user": user_of(c)}

        def e2g():      # parametrize as WorkflowGraph.graphFromPackage calls it
            g = graph.WorkflowGraph.graphFromPackage(the_package(), variable_files=list(files), createInstanceConfiguration=False)
            return {"c0": g.configurationForNode("stage0.c0")["command"]["arguments"],
                    "c1": g.configurationForNode("stage1.c1")["command"]["arguments"],
                    "user": user_of(g.configuration)}

        def e3():       # Experiment.experimentFromPackage: layers the files itself (data.py ~1057)
            counter[0] += 1
            loc = os.path.join(root, "i%d" % counter[0])
            os.makedirs(loc)
            try:
                pkg = storage.ExperimentPackage.packageFromLocation(pkgdir)
                exp = data.Experiment.experimentFromPackage(pkg, location=loc, variable_files=list(files))
                r = {"c0": exp.graph.nodes["stage0.c0"]["componentSpecification"].commandDetails["arguments"],
                     "c1": exp.graph.nodes["stage1.c1"]["componentSpecification"].commandDetails["arguments"],
                     "user": canon(exp.configuration.get_user_variables())}
            finally:
                shutil.rmtree(loc, ignore_errors=True)
            return r
        out["e1"] = guarded(e1)
        out["e2"] = guarded(e2)
        if case.get("instantiate"):
            out["e1d"] = guarded(e1d)
            out["e2g"] = guarded(e2g)
            out["e3"] = guarded(e3)
        return out

    def rich_case(case):
        counter[0] += 1
        loc = os.path.join(root, "r%d" % counter[0])
        os.makedirs(loc)
        try:
            pkg = storage.ExperimentPackage.packageFromLocation(case["package"], platform=case.get("platform"))
            exp = data.Experiment.experimentFromPackage(
                pkg, location=loc, platform=case.get("platform"), inputs=case.get("inputs") or None,
                variable_files=case.get("variable_files") or None)
            exp.validateExperiment(checkExecutables=False)
            inst = exp.instanceDirectory.location
            for rel, text in sorted((case.get("outputs") or {}).items()):      # files "produced" by components
                node, fname = rel.split("/", 1)
                wd = exp.graph.nodes[node]["componentInstance"].directory
                with open(os.path.join(wd, fname), "w") as f:
                    f.write(text)
            g = exp.experimentGraph
            nodes = sorted(g.graph.nodes)
            dump = {"nodes": nodes, "edges": sorted([u, v] for (u, v) in g.graph.edges),
                    "platform": g.configuration.platform_name, "components": {}}
            for n in reversed(nodes):
                g.graph.nodes[n]["componentSpecification"].memoization_reset()
            for n in nodes:
                spec = g.graph.nodes[n]["componentSpecification"]
                d = {"configuration": canon(g.configurationForNode(n)),
                     # FLOW_RUN_ID is a fresh uuid per instance by design: not part of the projection
                     "environment": guarded(lambda: {k: v for k, v in canon(spec.environment).items() if k != "FLOW_RUN_ID"}),
                     "producers": sorted(p.identification.identifier for p in spec.producers.values()) if hasattr(spec.producers, "values") else canon(spec.producers),
                     "references": [r.stringRepresentation for r in spec.dataReferences],
                     "command_line": guarded(lambda: spec.resolveArguments(ignoreErrors=True)),
                     "memoization": [spec.memoization_hash, spec.memoization_hash_fuzzy]}
                dump["components"][n] = d
            # the same package as a PRIMITIVE configuration (no replication), resolved per component
            def primitive():
                pc = conf.ExperimentConfigurationFactory.configurationForExperiment(
                    case["package"], platform=case.get("platform"), primitive=True, variable_files=case.get("variable_files") or None)
                pcc = pc.get_flowir_concrete(return_copy=False)
                return {"stage%d.%s" % cid: canon(pcc.get_component_configuration(cid, raw=False, include_default=True, is_primitive=True))
                        for cid in sorted(pcc.get_component_identifiers(False))}
            dump["primitive"] = guarded(primitive)
            dump["user"] = canon(g.configuration.get_user_variables())
            dump["global_variables"] = canon(g.configuration.get_global_variables())
            text = json.dumps(dump, sort_keys=True)
            # the instance lives somewhere else in every process (and carries a time stamp): not part of the projection
            for path, label in ((inst, "<INSTANCE>"), (os.path.realpath(inst), "<INSTANCE>"), (loc, "<LOCATION>"),
                                (case["package"], "<PACKAGE>"), (os.path.dirname(case["package"]), "<VARIANT>")):
                text = text.replace(path, label)
            return json.loads(text)
        finally:
            shutil.rmtree(loc, ignore_errors=True)

    def env_case(case):
        """resolved environments of a package (by name and per component), for each platform"""
        out = {}
        if case.get("dsl"):         # DSL 2.0 package: what namespace_to_flowir made of it (environments it invented, components)
            c = conf.ExperimentConfigurationFactory.configurationForExperiment(case["package"])
            raw = c.get_flowir_concrete(return_copy=False).raw()
            g = graph.WorkflowGraph(configuration=c, platform=c.platform_name, primitive=True)
            comps = {"stage%d.%s" % (x.get("stage", 0), x["name"]): x for x in raw.get("components", [])}
            return {"environments": canon(raw.get("environments")),
                    "components": {n: canon(x) for n, x in comps.items()},
                    "nodes": {n: guarded(lambda: canon(g.environmentForNode(n))) for n in sorted(comps)}}
        for plat in case["platforms"]:
            c = conf.ExperimentConfigurationFactory.configurationForExperiment(case["package"], platform=plat)
            g = graph.WorkflowGraph(configuration=c, platform=c.platform_name, primitive=True)
            out[plat or "default"] = {
                "ids": sorted("stage%d.%s" % cid for cid in c.get_flowir_concrete(return_copy=False).get_component_identifiers(False)),
                "named": {str(n): guarded(lambda: canon(c.environmentWithName(n))) for n in case["names"]},
                "raw": {str(n): guarded(lambda: canon(c.environmentWithName(n, expand=False))) for n in case["names"]},
                "nodes": {n: guarded(lambda: canon(g.environmentForNode(n))) for n in case["nodes"]}}
        return out

    def scope_case(case):
        """non-primitive load (replicate() -> FlowIRConcrete.instance()): resolved variables and command line per component"""
        doc = yaml.safe_load(case["doc_yaml"])
        out = {}

        def memory():
            c = conf.FlowIRExperimentConfiguration(
                path=None, platform=None, variable_files=[], system_vars={}, is_instance=False, createInstanceFiles=False,
                primitive=False, updateInstanceFiles=False, concrete=FL.FlowIRConcrete(copy.deepcopy(doc), None, {}))
            cc = c.get_flowir_concrete(return_copy=False)
            r = {}
            for name in case["names"]:
                cfgd = cc.get_component_configuration((0, name), raw=False, include_default=True)
                r[name] = {"line": cfgd["command"]["arguments"], "prefix": cfgd["variables"].get("prefix"), "label": cfgd["variables"].get("label")}
            return r

        def instance():     # from disk, with generation of the instance files
            counter[0] += 1
            loc = os.path.join(root, "s%d" % counter[0])
            os.makedirs(os.path.join(loc, "p.package", "conf"))
            with open(os.path.join(loc, "p.package", "conf", "flowir_package.yaml"), "w") as f:
                f.write(case["doc_yaml"])
            try:
                pkg = storage.ExperimentPackage.packageFromLocation(os.path.join(loc, "p.package"))
                exp = data.Experiment.experimentFromPackage(pkg, location=loc)
                with open(os.path.join(exp.instanceDirectory.location, "conf", "flowir_instance.yaml")) as f:
                    stored = yaml.safe_load(f)
                by_name = {c["name"]: c for c in stored.get("components", []) if c.get("stage", 0) == 0}
                r = {}
                for name in case["names"]:
                    spec = exp.graph.nodes["stage0.%s" % name]["componentSpecification"]
                    variables = spec.configuration["variables"]
                    r[name] = {"line": spec.commandDetails["arguments"], "prefix": variables.get("prefix"), "label": variables.get("label"),
                               "stored_variables": canon(by_name.get(name, {}).get("variables"))}
                return r
            finally:
                shutil.rmtree(loc, ignore_errors=True)
        out["memory"] = guarded(memory)
        if case.get("instantiate"):
            out["instance"] = guarded(instance)
        return out

    dumps = {}
    for case in job["cases"]:
        if case["kind"] == "scope":
            dumps[case["id"]] = scope_case(case)
            continue
        if case["kind"] == "envfamily":
            dumps[case["id"]] = guarded(lambda: env_case(case))
            continue
        if case["kind"] == "uservars":
            dumps[case["id"]] = uservars_case(case)
        else:
            dumps[case["id"]] = guarded(lambda: rich_case(case))
    with open(sys.argv[2] + ".tmp", "w") as f:
        json.dump({"hashseed": hashseed, "dumps": dumps}, f, sort_keys=True)
    os.replace(sys.argv[2] + ".tmp", sys.argv[2])
    shutil.rmtree(root, ignore_errors=True)


if __name__ == "__main__":
    main()
