"""G03: what the specification and the harness share -- scenarios (one source for the FlowIR of the real package and for the
constants of ExperimentLifecycle.tla), the projection of a status document, the rendering of recorded runs as TLA+ data.
Nothing here imports the runtime."""

FIELDS = ("experiment-state", "stage-state", "exit-status", "current-stage", "total-progress", "stage-progress",
          "error-description", "created-on", "completed-on", "updated-on")

ES = ("Initialising", "running", "finished", "failed")
SS = ("Initialising", "running", "finished", "failed", "component_shutdown")
XS = ("N/A", "Success", "Failed", "Stopped")
NODOC = ("none", "none", "N/A", 0, 0, 0, False, False, False)


def parse_status_text(text):
    d = {}
    for line in text.split("\n"):
        if "=" in line:
            k, v = line.split("=", 1)
            d[k.strip()] = v.strip()
    return d


class Scenario:
    """nc[k] components in stage k; out[k][i] in ok | fail | shut (exit with KnownIssue: FAILED / SHUTDOWN through shutdownOn);
    coe[k]: continue-on-error of stage k; start: None or the (0-based) stage a restart begins with; prior: the projected
    status document the restarted instance holds; setup: ok | badpkg (nothing can be loaded) | badexe (instance created,
    validation fails); chain: every component of stage k > 0 consumes the first component of stage k - 1."""

    def __init__(self, nc, out, coe=None, start=None, setup="ok", prior=None, name=None, chain=True):
        self.chain = chain
        self.nc, self.out = list(nc), [list(o) for o in out]
        self.ns = len(self.nc)
        self.coe = list(coe) if coe else [False] * self.ns
        self.start = start
        self.setup = setup
        self.prior = tuple(prior) if prior is not None else None
        self.name = name or self.key()
        # stage weights in units: 2 of 2 | 2,2 of 4 | 2,2,4 of 8 (exact binary fractions, declared in the package)
        self.w = {1: [2], 2: [2, 2], 3: [2, 2, 4]}[self.ns]
        self.full = sum(self.w)

    def key(self):
        s = "-".join("".join(o[0] for o in outs) + ("c" if c else "") for outs, c in zip(self.out, self.coe))
        if self.start is not None:
            s += "@r%d" % self.start
        if self.setup != "ok":
            s += "@" + self.setup
        if not self.chain:
            s += "@free"
        return s

    def restarted(self, start, prior, out=None):
        return Scenario(self.nc, out or self.out, self.coe, start=start, setup="ok", prior=prior, chain=self.chain)

    def comp_name(self, k, i):
        return "c%d%s" % (k, "ab"[i])

    def ref(self, k, i):
        return "stage%d.%s" % (k, self.comp_name(k, i))

    def flowir(self):
        comps = []
        for k in range(self.ns):
            for i in range(self.nc[k]):
                c = {"name": self.comp_name(k, i), "stage": k,
                     "command": {"executable": "echo" if self.setup != "badexe" else "/no/such/executable-g03", "arguments": "x"},
                     "workflowAttributes": {"shutdownOn": ["KnownIssue"] if self.out[k][i] == "shut" else []}}
                if self.chain and k > 0:
                    c["references"] = ["stage%d.%s:ref" % (k - 1, self.comp_name(k - 1, 0))]
                    c["command"]["arguments"] = c["references"][0]
                if self.setup == "badpkg":
                    c["references"] = ["stage0.nosuchcomponent:ref"]
                    c["command"]["arguments"] = c["references"][0]
                comps.append(c)
        doc = {"components": comps,
               "status-report": {k: {"stage-weight": self.w[k] / float(self.full)} for k in range(self.ns)}}
        st = {k: {"continue-on-error": 1} for k in range(self.ns) if self.coe[k]}
        if st:
            doc["variables"] = {"default": {"stages": st}}
        return doc

    # -- TLA+ --
    def tla(self):
        out = "<<" + ", ".join("<<" + ", ".join('"%s"' % o for o in outs) + ">>" for outs in self.out) + ">>"
        coe = "<<" + ", ".join("TRUE" if c else "FALSE" for c in self.coe) + ">>"
        w = "<<" + ", ".join(str(x) for x in self.w) + ">>"
        return ('[ns |-> %d, w |-> %s, out |-> %s, coe |-> %s, restart |-> %s, start |-> %d, prior |-> %s, setup |-> "%s", chain |-> %s]' % (
            self.ns, w, out, coe, tla_bool(self.start is not None), (self.start or 0) + 1, tla_doc(self.prior or NODOC), self.setup,
            tla_bool(self.chain)))


def tla_bool(b):
    return "TRUE" if b else "FALSE"


def tla_doc(d):
    return '<<"%s", "%s", "%s", %d, %d, %d, %s, %s, %s>>' % (d[0], d[1], d[2], d[3], d[4], d[5], tla_bool(d[6]), tla_bool(d[7]), tla_bool(d[8]))


def project_doc(d, full):
    """status document (dict of strings) -> the tuple of the specification; unknown values are kept (and rejected by TLC)"""
    if d is None:
        return NODOC
    cur = d.get("current-stage", "None")
    if cur == "None":
        cur = 0
    elif cur.startswith("stage") and cur[5:].isdigit():
        cur = int(cur[5:]) + 1
    else:
        cur = 99

    def units(v, scale):
        try:
            x = float(v) * scale
        except (TypeError, ValueError):
            return 98
        return int(round(x)) if abs(x - round(x)) < 1e-6 else 97
    return (d.get("experiment-state", "?"), d.get("stage-state", "?"), d.get("exit-status", "?"), cur,
            units(d.get("total-progress"), full), units(d.get("stage-progress"), 2),
            "error-description" in d, d.get("completed-on", "N/A") != "N/A", d.get("created-on", "N/A") != "N/A")


def data_module(scens):
    return ("---- MODULE LifecycleData ----\n\\* generated by harness/g03_model.py\nScenarios == <<\n  %s\n>>\n====\n"
            % ",\n  ".join(s.tla() for s in scens))


# ---------------------------------------------------------------------------------------------------------------------------
# recorded runs -> TLA+

def step_tuple(t, full):
    """one record of Harness.trace -> (ev, s1, s2, n1, n2, mem, disk, ost, cst, cs, dn, mon, code)"""
    ev, arg, st = t["ev"], t["arg"], t["st"]
    s1 = s2 = "-"
    n1 = n2 = 0
    if ev in ("NewStatus", "Signal", "RunRaised"):
        s1 = str(arg)
    elif ev == "Write":
        s1 = arg["who"]
        s2 = "ok" if arg["ok"] else "failed"
    elif ev == "Set":
        s1, s2 = arg[0], arg[1] if arg[1] is not None else "-"
    elif ev == "Comp":
        n1, n2, s1 = arg[0] + 1, arg[1] + 1, arg[2]
    elif ev == "Done":
        n1, n2 = arg[0] + 1, arg[1] + 1
    elif ev in ("StageInit", "RunBegin"):
        n1 = arg + 1
    elif ev == "RunEnd":
        n1, s1 = arg[0] + 1, arg[1]
    elif ev in ("Increment", "SetStage"):
        n1 = arg + 1
    elif ev == "Tick":
        s1 = "last" if arg["last"] else "periodic"
        s2 = "error" if arg["error"] else ("wrote" if arg["wrote"] else "quiet")
    elif ev == "Exit":
        n1 = 99 if arg is None else arg
    return (ev, s1, s2, n1, n2, project_doc(st["mem"], full), project_doc(st["disk"], full),
            1 if st["ostage"] is None else st["ostage"] + 1, 0 if st["cstage"] is None else st["cstage"] + 1,
            [[c[0] for c in row] for row in st["comps"]], [[bool(c[1]) for c in row] for row in st["comps"]],
            st["mon"] or "off")


def tla_step(s):
    ev, s1, s2, n1, n2, mem, disk, ost, cst, cs, dn, mon = s
    return '<<"%s", "%s", "%s", %d, %d, %s, %s, %d, %d, %s, %s, "%s">>' % (
        ev, s1, s2, n1, n2, tla_doc(mem), tla_doc(disk), ost, cst,
        "<<" + ", ".join("<<" + ", ".join('"%s"' % x for x in row) + ">>" for row in cs) + ">>",
        "<<" + ", ".join("<<" + ", ".join(tla_bool(x) for x in row) + ">>" for row in dn) + ">>", mon)


def trace_module(runs):
    """runs: list of (scenario index (1-based), [step tuples])"""
    body = ",\n  ".join("[sc |-> %d, steps |-> <<\n    %s\n  >>]" % (sc, ",\n    ".join(tla_step(s) for s in steps)) for sc, steps in runs)
    return "---- MODULE LifecycleTraceData ----\nEXTENDS TLC\nTraces == <<\n  %s\n>>\n====\n" % body


# ---------------------------------------------------------------------------------------------------------------------------
# where a signal label of the harness is in the specification's program
LABEL_PC = {"setup": ("start",), "deployed": ("deployed",), "pre-controller": ("pre_ctl",), "in-run": ("in_run",),
            "monitor-started": ("stage_top", "set_stage"), "init": ("stage_top",), "run": ("inited",), "turn": ("running",),
            "stage-end": ("stage_end",), "increment": ("stage_end",), "post-run": ("post_run",), "cleanup-begin": ("cleanup",),
            "after-monkill": ("c_killed",), "cleanup": ("c_killed",), "after-cleanup": ("c_cleaned",), "join-wait": ("c_cleaned",),
            "before-join": ("c_joined",)}
