"""Abstract workflow (spec/Replicate.tla, spec/Validate.tla)  <->  real FlowIR, and projections of the real results.

Shared by the drivers of C03 (replication) and C11 (validation).  The functions that touch the runtime import it lazily so
that the pure rendering/parsing helpers can be used without paying the import.

Abstract component as emitted by Replicate!CComp:  {"n": name, "s": stage, "rep": choice, "g": aggregate,
                                                     "r": [[p, spelling, path, method, argstyle], ...]}
"""
import copy
import re

# the variables of spec/Replicate.tla (GlobalScope / StageScope / CompScope)
GLOBAL_VARS = {"rg": 2, "rs": 3, "rc": 3, "ag": "false"}
STAGE1_VARS = {"rs": 2}           # C11 runs with svals = <<0, 2>>


def _ag(v):
    return "true" if v % 2 == 1 else "false"


def stage_scope(v):
    """what a stage scope defines when svals[stage] = v > 0 (spec: StageScope / AgLookup)"""
    return {"rs": v, "ag": _ag(v)}


def comp_scope(c):
    """component-level variables (spec: CompScope / AgLookup)"""
    d = {}
    pv = c.get("pv", 0)
    if pv > 0:
        d = {"rg": pv, "rs": pv, "rc": pv, "ag": _ag(pv)}
    if c["rep"] == "vc":
        d["rc"] = COMP_VARS["rc"]
    return d
COMP_VARS = {"rc": 2}
REP_RENDER = {"n1": 1, "n2": 2, "n3": 3, "n11": 11, "vg": "%(rg)s", "vs": "%(rs)s", "vc": "%(rc)s"}
TAILS = {"tail": ["/sub/f.txt"], "tail2": ["/x.txt", "/y.txt"]}


def ref_string(prod, path, method, absolute):
    s = prod["n"] + ("/" + path if path else "") + ":" + method
    return ("stage%d." % prod["s"] + s) if absolute else s


def mentions(owner, ref, comps):
    """The argument tokens that mention reference `ref` of component `owner` (spec: ArgStyles)."""
    p, sp, path, method, style = ref
    prod = comps[p - 1]
    absolute = sp == "abs"
    if style == "flip" and prod["s"] == owner["s"]:
        absolute = not absolute
    base = ref_string(prod, path, method, absolute)
    return [base + t for t in TAILS.get(style, [""])]


def render_component(c, comps):
    refs = [ref_string(comps[r[0] - 1], r[2], r[3], r[1] == "abs") for r in c["r"]]
    toks = ["-x"]
    for r in c["r"]:
        toks += mentions(c, r, comps)
    d = {"name": c["n"], "stage": c["s"], "command": {"executable": "echo", "arguments": " ".join(toks)}}
    if refs:
        d["references"] = refs
    wa = {}
    if c["rep"] != "none":
        wa["replicate"] = REP_RENDER[c["rep"]]
    if c.get("av"):
        wa["aggregate"] = "%(ag)s"          # the flag through a variable (it may resolve to false)
    elif c["g"]:
        wa["aggregate"] = True
    if wa:
        d["workflowAttributes"] = wa
    cv = comp_scope(c)
    if cv:
        d["variables"] = cv
    ov = c.get("ov", 0)
    if ov > 0:      # the component's override for platform "other" (spec: override scope, highest priority when "other" is loaded)
        d["override"] = {OTHER_PLATFORM: {"variables": {"rg": ov, "rs": ov, "rc": ov, "ag": _ag(ov)}}}
    return d


def render_flowir(case):
    comps = case["comps"]
    out = [render_component(c, comps) for c in comps]
    if case.get("order") == "rev":
        out.reverse()
    variables = {"default": {"global": dict(GLOBAL_VARS)}}
    sv = list(case.get("sv") or [0, 2]) + [0, 0, 0, 0]          # <<v0, v1, platform, other-global, other-stage0, other-stage1>>
    has = {s: any(c["s"] == s for c in comps) for s in (0, 1)}
    stages = {s: stage_scope(sv[s]) for s in (0, 1) if sv[s] > 0 and has[s]}
    if stages:
        variables["default"]["stages"] = stages
    doc = {"variables": variables, "components": out}
    # what platform "other" defines is in the document whatever platform is loaded (spec: decoys on the default platform)
    other = {}
    if sv[3] > 0:
        other["global"] = {"rg": sv[3], "rs": sv[3], "rc": sv[3], "ag": _ag(sv[3])}
    ostages = {s: stage_scope(sv[4 + s]) for s in (0, 1) if sv[4 + s] > 0 and has[s]}
    if ostages:
        other["stages"] = ostages
    if case.get("ovr"):
        # every consumer repeats its references and arguments in an override for the platform that is loaded: by the documented
        # layering the override wins and says the same, so the expected expansion is the same
        plat = OTHER_PLATFORM if sv[2] == 1 else "default"
        for d in out:
            if d.get("references"):
                d.setdefault("override", {}).setdefault(plat, {}).update(
                    {"references": list(d["references"]), "command": {"arguments": d["command"]["arguments"]}})
    if other or sv[2] == 1 or any(c.get("ov", 0) > 0 for c in comps):
        doc["platforms"] = ["default", OTHER_PLATFORM]
        if other:
            variables[OTHER_PLATFORM] = other
    return doc


OTHER_PLATFORM = "other"


def case_platform(case):
    sv = case.get("sv") or []
    return OTHER_PLATFORM if len(sv) > 2 and sv[2] == 1 else None


# ---------------------------------------------------------------------------------------------------------------------
# parsing what the code produced (independent of the repository's parsers)
REF_RE = re.compile(r"^(?:stage(\d+)\.)?([^/:\s]+)(?:/([^:\s]*))?:([A-Za-z]+)(/\S*)?$")


def parse_ref(tok, owner_stage):
    """-> ("ref", stage, name, path, method, tail) or ("lit", tok)"""
    if not isinstance(tok, str):            # whatever the code produced is compared, never a reason to crash the harness
        return ("lit", repr(tok))
    m = REF_RE.match(tok)
    if not m:
        return ("lit", tok)
    stage = int(m.group(1)) if m.group(1) is not None else owner_stage
    return ("ref", stage, m.group(2), m.group(3) or "", m.group(4), m.group(5) or "")


def parse_args(text, owner_stage):
    if text is None:
        return []
    if not isinstance(text, str):
        return [("lit", repr(text))]
    return [parse_ref(t, owner_stage) for t in text.split()]


# ---------------------------------------------------------------------------------------------------------------------
# executing on the real code (called in forked worker processes; results are plain data)
def _err(e):
    return {"error": type(e).__name__, "msg": str(e)[:400], "mro": [k.__name__ for k in type(e).__mro__]}


def run_graph(flowir, platform=None):
    """WorkflowGraph.graphFromFlowIR(flowir, {}, platform=..., primitive=False) -> projection"""
    import experiment.model.graph as G
    try:
        wg = G.WorkflowGraph.graphFromFlowIR(copy.deepcopy(flowir), {}, platform=platform, primitive=False)
        g = wg.graph
        nodes = {}
        for n in g.nodes:
            conf = wg.configurationForNode(n, raw=True)
            nodes[n] = {"stage": conf["stage"], "name": conf["name"], "refs": list(conf.get("references") or []),
                        "args": conf["command"].get("arguments"), "replica": (conf.get("variables") or {}).get("replica"),
                        "rep": conf["workflowAttributes"].get("replicate"), "agg": conf["workflowAttributes"].get("aggregate"),
                        "preds": sorted(g.predecessors(n))}
        return {"nodes": nodes, "n": g.number_of_nodes()}
    except Exception as e:
        return _err(e)


def run_concrete(flowir, platform=None):
    """FlowIRConcrete(flowir, platform).replicate(platform=...) -> projection (no graph: no preds; references stay as written)"""
    import experiment.model.frontends.flowir as FL
    try:
        platform = platform or FL.FlowIR.LabelDefault
        conc = FL.FlowIRConcrete(copy.deepcopy(flowir), platform, {})
        rep = conc.replicate(platform=platform, ignore_errors=True)      # as FlowIRExperimentConfiguration.replicate does
        nodes = {}
        dup = []
        for c in rep["components"]:
            nid = "stage%d.%s" % (c.get("stage", 0), c["name"])
            if nid in nodes:
                dup.append(nid)
            wa = c.get("workflowAttributes") or {}
            nodes[nid] = {"stage": c.get("stage", 0), "name": c["name"], "refs": list(c.get("references") or []),
                          "args": (c.get("command") or {}).get("arguments"), "replica": (c.get("variables") or {}).get("replica"),
                          "rep": wa.get("replicate"), "agg": wa.get("aggregate"), "preds": None}
        return {"nodes": nodes, "n": len(rep["components"]), "dup": dup}
    except Exception as e:
        return _err(e)


class _Hang(Exception):
    pass


def _guarded(fn, flowir, platform=None, timeout=60):
    """Run one load of the real code: any exception (also a hang, a RecursionError, ...) becomes a result, not a crash."""
    import signal

    def on_alarm(*_):
        raise _Hang("no answer within %ds" % timeout)
    old = signal.signal(signal.SIGALRM, on_alarm)
    signal.alarm(timeout)
    try:
        return fn(flowir, platform)
    except BaseException as e:          # run_* catch Exception themselves; this is the alarm / SystemExit / KeyboardInterrupt net
        if isinstance(e, KeyboardInterrupt):
            raise
        return _err(e)
    finally:
        signal.alarm(0)
        signal.signal(signal.SIGALRM, old)


def exec_case(args):
    """(case, paths) -> {path: projection}"""
    case, paths = args
    flowir = render_flowir(case)
    res = {}
    if "graph" in paths:
        res["graph"] = _guarded(run_graph, flowir, case_platform(case))
    if "concrete" in paths:
        res["concrete"] = _guarded(run_concrete, flowir, case_platform(case))
    return res


def pool_map(fn, items, procs, chunk=64):
    """Deterministic parallel map over forked processes (results in input order)."""
    import multiprocessing
    if procs <= 1 or len(items) < 2 * chunk:
        return [fn(x) for x in items]
    ctx = multiprocessing.get_context("fork")
    with ctx.Pool(procs) as pool:
        return pool.map(fn, items, chunksize=chunk)


# =====================================================================================================================
# C11: mutated workflows of spec/Validate.tla (producers are named, option faults are annotations)
#   component: {"n","s","rep","g","msg","xkey","xtype","r": [[pstage, pname, spelling, path, method, argstyle], ...]}
V_GLOBAL = {"rg": 2, "rs": 3, "rc": 3, "msg": "hello", "unused": 1}
KEY_RENAMES = {"command": ("command", "comand"), "references": ("references", "refrences"),
               "workflowAttributes": ("workflowAttributes", "workflowAttribute")}
NESTED_KEY_RENAMES = {"arguments": ("command", "arguments", "argumnts"), "executable": ("command", "executable", "executble"),
                      "replicate": ("workflowAttributes", "replicate", "replicat"),
                      "aggregate": ("workflowAttributes", "aggregate", "agregate")}


TYPE_VALUES = {"ffrac": 2.5, "fwhole": 2.0, "int": 2, "bool": True, "numstr": "2", "word": "two", "list": [2], "dict": {"a": 1},
               "none": None}
TYPE_SITE_PATH = {
    "numberProcesses": ("resourceRequest", "numberProcesses"), "numberThreads": ("resourceRequest", "numberThreads"),
    "ranksPerNode": ("resourceRequest", "ranksPerNode"), "threadsPerCore": ("resourceRequest", "threadsPerCore"),
    "gpus": ("resourceRequest", "gpus"), "maxRestarts": ("workflowAttributes", "maxRestarts"),
    "repeatRetries": ("workflowAttributes", "repeatRetries"), "replicate": ("workflowAttributes", "replicate"),
    "gracePeriod": ("resourceManager", "kubernetes", "gracePeriod"), "walltime": ("resourceManager", "config", "walltime"),
    "cpuUnitsPerCore": ("resourceManager", "kubernetes", "cpuUnitsPerCore"),
    "statusRequestInterval": ("resourceManager", "lsf", "statusRequestInterval"), "arguments": ("command", "arguments"),
    "executable": ("command", "executable"), "queue": ("resourceManager", "lsf", "queue"),
    "aggregate": ("workflowAttributes", "aggregate"), "isMigratable": ("workflowAttributes", "isMigratable"),
    "resolvePath": ("command", "resolvePath"), "references": ("references",), "shutdownOn": ("workflowAttributes", "shutdownOn"),
    "backend": ("resourceManager", "config", "backend"), "stage": ("stage",),
}


def v_ref_string(owner, r):
    ps, pn, sp, path, method, _ = r
    s = pn + ("/" + path if path else "") + ":" + method
    # the relative spelling means "same stage": it is only used when it denotes the producer the spec names
    return s if (sp == "rel" and ps == owner["s"]) else "stage%d.%s" % (ps, s)


def v_render_component(c):
    refs = [v_ref_string(c, r) for r in c["r"]]
    toks = ["-x"]
    for r, s in zip(c["r"], refs):
        toks += [s + t for t in TAILS.get(r[5], [""])]
    if c["msg"]:
        toks.append("%(msg)s")
    d = {"name": c["n"], "stage": c["s"], "command": {"executable": "echo", "arguments": " ".join(toks)}}
    if refs:
        d["references"] = refs
    wa = {}
    if c["rep"] != "none":
        wa["replicate"] = REP_RENDER[c["rep"]]
    if c["g"]:
        wa["aggregate"] = True
    if wa:
        d["workflowAttributes"] = wa
    if c["rep"] == "vc":
        d["variables"] = dict(COMP_VARS)
    # a misspelled option key
    k = c["xkey"]
    if k in KEY_RENAMES:
        old, new = KEY_RENAMES[k]
        d[new] = d.pop(old)
    elif k in NESTED_KEY_RENAMES:
        sec, old, new = NESTED_KEY_RENAMES[k]
        d[sec][new] = d[sec].pop(old)
    elif k == "backend":
        d["resourceManager"] = {"config": {"backnd": "local"}}
    elif k == "alien":
        d["command"]["zzqx"] = 1
    elif k == "ovrkey":
        d["override"] = {OTHER_PLATFORM: {"command": {"argumnts": "-y"}}}
    elif k == "toplevel":
        pass                    # rendered at document level (v_render_flowir)
    elif k:
        raise ValueError("unknown key site %r" % k)
    # an option given a value of another class (spec: Rule(site, cls))
    t = c["xtype"]
    if t:
        if t not in TYPE_SITE_PATH:
            raise ValueError("unknown type site %r" % t)
        cls = c["xcls"]
        if cls == "boolstr":
            val = ("true" if c["g"] else "false") if t == "aggregate" else ("false" if t == "isMigratable" else "true")
        elif cls in TYPE_VALUES:
            val = copy.deepcopy(TYPE_VALUES[cls])
        else:
            raise ValueError("unknown value class %r" % cls)
        route = TYPE_SITE_PATH[t]
        tgt = d
        for k in route[:-1]:
            tgt = tgt.setdefault(k, {})
        tgt[route[-1]] = val
    return d


def v_render_flowir(case):
    comps = [v_render_component(c) for c in case["comps"]]
    variables = {"default": {"global": {k: V_GLOBAL[k] for k in sorted(case["gvars"])}}}
    sv = list(case.get("sv") or [0, 2]) + [0] * 7           # spec: svals = <<v0, v1, -, -, -, -, 1 + stage that also defines msg>>
    stages = {}
    for st in (0, 1):
        if not any(c["s"] == st for c in case["comps"]):
            continue
        d = {}
        if sv[st] > 0:
            d["rs"] = sv[st]
        if sv[6] == st + 1:
            d["msg"] = "hello from stage %d" % st
        if d:
            stages[st] = d
    if stages:
        variables["default"]["stages"] = stages
    doc = {"variables": variables, "components": comps}
    if any(c["xkey"] == "ovrkey" for c in case["comps"]):
        doc["platforms"] = ["default", OTHER_PLATFORM]
    if any(c["xkey"] == "toplevel" for c in case["comps"]):
        doc["enviroments"] = {"default": {}}
    return doc


def _accept_checks(graph, conf_for_node, ncomponents):
    """What C11 promises about a workflow that loaded. -> list of problems"""
    import networkx
    bad = []
    if not networkx.is_directed_acyclic_graph(graph):
        bad.append("the graph has a cycle: %s" % (networkx.find_cycle(graph),))
    if ncomponents is not None and ncomponents != graph.number_of_nodes():
        bad.append("%d components but %d graph nodes (identifiers are not unique)" % (ncomponents, graph.number_of_nodes()))
    for n in sorted(graph.nodes):
        try:
            conf = conf_for_node(n)
        except Exception as e:
            bad.append("configuration of %s cannot be resolved: %s: %s" % (n, type(e).__name__, str(e)[:160]))
            continue
        for ref in conf.get("references") or []:
            p = parse_ref(ref, conf.get("stage", 0))
            if p[0] == "ref" and ("stage%d.%s" % (p[1], p[2])) not in graph:
                bad.append("%s references %s which is not a component" % (n, ref))
    return bad


def v_run(flowir, path, scratch, timeout=30, platform=None):
    """-> {"accepted": bool, "problems": [...]} | {"error":..., "mro": [...]} | {"hang": True}"""
    import signal

    def on_alarm(*_):
        raise _Hang()
    old = signal.signal(signal.SIGALRM, on_alarm)
    signal.alarm(timeout)
    try:
        if path in ("graph", "primitive"):
            import experiment.model.graph as G
            wg = G.WorkflowGraph.graphFromFlowIR(copy.deepcopy(flowir), {}, platform=platform, primitive=(path == "primitive"))
            ncomp = len(wg.configuration.get_flowir_concrete(return_copy=False).get_components())
            problems = _accept_checks(wg.graph, lambda n: wg.configurationForNode(n, raw=False), ncomp)
        else:
            import shutil
            from . import realenv
            exp = realenv.experiment_from_flowir(copy.deepcopy(flowir), scratch)
            try:
                wg = exp.experimentGraph
                ncomp = len(exp.configuration.get_flowir_concrete(return_copy=False).get_components())
                problems = _accept_checks(wg.graph, lambda n: wg.configurationForNode(n, raw=False), ncomp)
            finally:
                shutil.rmtree(exp.instanceDirectory.location, ignore_errors=True)
        signal.alarm(0)
        return {"accepted": True, "problems": problems}
    except _Hang:
        return {"hang": True}
    except KeyboardInterrupt:
        raise
    except BaseException as e:          # also SystemExit & co: whatever the real code raises is a result, not a harness crash
        signal.alarm(0)
        return _err(e)
    finally:
        signal.alarm(0)
        signal.signal(signal.SIGALRM, old)


def v_exec_case(args):
    case, paths, scratch = args
    try:
        flowir = v_render_flowir(case)
    except Exception as e:
        return {"render_error": repr(e)}
    platform = None
    if case.get("appdep"):
        # The package declares an application dependency named like the first component for the DEFAULT platform and an explicitly
        # EMPTY list for platform "other", for which the workflow is loaded: there the name is a component, nothing else
        flowir["platforms"] = ["default", OTHER_PLATFORM]
        flowir["application-dependencies"] = {"default": ["%s.application" % case["appdep"]], OTHER_PLATFORM: []}
        platform = OTHER_PLATFORM
    return {p: v_run(flowir, p, scratch, platform=platform) for p in paths}
