"""Lock-step world for C13: the REAL RepeatingEngine.run() + the REAL monitor.CreateMonitor poll loop, executed
deterministically under a virtual clock (DESIGN.md 3.4, Appendix B).

What is replaced is the environment only:
  * rx schedulers/pools -> `Lane`s that put every scheduled item into one queue with a virtual due time
    (kill-after-producers-done-delay timer, interval(5) ticks, observe_on hops); nothing runs until the main
    thread pops it;
  * experiment.runtime.monitor.threading.Thread -> the monitor thread is real but gated by two semaphores: exactly
    one of {main thread, monitor thread} runs at any time; the monitor thread hands control back at every
    time.sleep(), at Task.wait() and in the WINDOW (after job.producersHaveOutputSinceDate returned);
  * experiment.runtime.engine.datetime / monitor.datetime -> a namespace whose datetime.now() is the virtual clock;
  * the task generator -> FakeTask (duration and outcome chosen by the schedule);
  * the producers -> real files with chosen mtimes in the producer's working directory, so that the real
    Job.producersHaveOutputSinceDate / Engine.canConsume answer from the modelled output timeline.

Filesystem faults: a schedule entry {a: check, s: 1} makes the k-th listing of the (output-less) producer directory
by canConsume() fail: the directory is renamed away around the REAL WorkingDirectory._listdir, so the real os.listdir
raises OSError and the real code converts it (only for producers whose earlier output check does not list the directory).

Time: the monitor's instants are whole seconds; environment events carry stamps in half seconds (odd stamp 2t+1 =
while the monitor is blocked after instant t, even stamp 2t = in the WINDOW at instant t), see spec/Repeating.tla.
"""
import datetime as _dt
import heapq
import os
import threading
import types

from .common import MachineryError

# --------------------------------------------------------------------------------------------------------------
# virtual clock + rx lanes (installed before any st4sd runtime object exists)

import reactivex
import reactivex.scheduler
from reactivex.disposable import Disposable, SingleAssignmentDisposable
from reactivex.scheduler.periodicscheduler import PeriodicScheduler

BASE = _dt.datetime(2031, 3, 4, 12, 0, 0)


class World:
    def __init__(self):
        self.now = 0.0
        self.queue = []
        self.seq = 0
        self.errors = []
        # lock-step
        self.main_sem = threading.Semaphore(0)
        self.mon_sem = threading.Semaphore(0)
        self.thread = None
        self.blocked = None
        self.done = True
        self.abort = False

    def reset(self):
        if self.thread is not None and not self.done:
            raise MachineryError("previous lock-step thread still running")
        self.now = -0.5
        self.queue = []
        self.seq = 0
        self.errors = []
        self.thread = None
        self.blocked = None
        self.done = True
        self.abort = False
        self.main_sem = threading.Semaphore(0)
        self.mon_sem = threading.Semaphore(0)

    # -- rx queue ------------------------------------------------------------------------------------------
    def push(self, due, lane, fn):
        self.seq += 1
        heapq.heappush(self.queue, (due, self.seq, lane, fn))

    def next_due(self):
        return self.queue[0][0] if self.queue else None

    def pump_one(self):
        due, _, lane, fn = heapq.heappop(self.queue)
        if due > self.now:
            self.now = due
        try:
            fn()
        except Exception as e:        # report_exceptions() re-raises into the scheduler
            self.errors.append("%s: %r" % (lane, e))

    def pump(self, upto):
        """run every queued item with due <= upto in (due, fifo) order; the clock follows the items"""
        n = 0
        while self.queue and self.queue[0][0] <= upto:
            due, _, lane, fn = heapq.heappop(self.queue)
            if due > self.now:
                self.now = due
            try:
                fn()
            except Exception as e:        # report_exceptions() re-raises into the scheduler
                self.errors.append("%s: %r" % (lane, e))
            n += 1
            if n > 100000:
                raise MachineryError("rx queue does not drain")
        return n

    # -- lock-step -----------------------------------------------------------------------------------------
    def yield_(self, kind, **info):
        """called on the monitor thread: hand control to the main thread until it resumes us"""
        if threading.current_thread() is not self.thread:
            raise MachineryError("yield %s from a thread that is not the lock-step thread" % kind)
        self.blocked = (kind, info)
        self.main_sem.release()
        self.mon_sem.acquire()
        if self.abort:
            raise _Abort()

    def resume(self):
        """called on the main thread: let the monitor thread run until its next yield / its end"""
        self.blocked = None
        self.mon_sem.release()
        if not self.main_sem.acquire(timeout=60):
            raise MachineryError("lock-step thread did not yield within 60 s (wall clock)")
        return self.blocked

    def stop_thread(self):
        """unwind a monitor thread that is still blocked (run cut at the horizon)"""
        if self.thread is not None and not self.done:
            self.abort = True
            self.mon_sem.release()
            self.main_sem.acquire(timeout=60)
            self.thread.join(60)
            if self.thread.is_alive():
                raise MachineryError("could not stop the lock-step thread")
        self.thread = None


class _Abort(SystemExit):
    pass


W = World()


class Lane(PeriodicScheduler):
    def __init__(self, name):
        super().__init__()
        self.name = name

    @property
    def now(self):
        return BASE + _dt.timedelta(seconds=W.now)

    def _put(self, delay, action, state):
        sad = SingleAssignmentDisposable()

        def run():
            if not sad.is_disposed:
                sad.disposable = self.invoke_action(action, state)
        W.push(W.now + max(delay, 0.0), self.name, run)
        return sad

    def schedule(self, action, state=None):
        return self._put(0.0, action, state)

    def schedule_relative(self, duetime, action, state=None):
        return self._put(self.to_seconds(duetime), action, state)

    def schedule_absolute(self, duetime, action, state=None):
        return self._put((self.to_datetime(duetime) - self.now).total_seconds(), action, state)


_lanes = {}


def lane(name):
    if name not in _lanes:
        _lanes[name] = Lane(name)
    return _lanes[name]


_installed = False


def install():
    """Point every scheduler/pool/thread/clock the repeating engine uses at this world. Idempotent."""
    global _installed
    if _installed:
        return
    import reactivex.scheduler.timeoutscheduler as ts
    ts.TimeoutScheduler.singleton = classmethod(lambda cls: lane("timeout"))
    reactivex.scheduler.NewThreadScheduler = lambda *a, **k: lane("newthread")
    reactivex.scheduler.ThreadPoolScheduler = lambda *a, **k: lane("pool")
    import experiment.runtime.utilities.rx as urx
    urx.ThreadPoolGenerator.get_pool = classmethod(lambda cls, pool: lane("pool:%s" % getattr(pool, "value", pool)))
    import experiment.runtime.engine as eng
    import experiment.runtime.monitor as mon
    eng.Engine.enginePoolScheduler = lane("pool:Engine")
    eng.Engine.triggerPoolScheduler = lane("pool:EngineTrigger")
    eng.Engine.taskPoolScheduler = lane("pool:EngineTask")

    class VDateTime(_dt.datetime):
        @classmethod
        def now(cls, tz=None):
            return BASE + _dt.timedelta(seconds=W.now)

    ns = types.SimpleNamespace(datetime=VDateTime, timedelta=_dt.timedelta, date=_dt.date, time=_dt.time)
    eng.datetime = ns
    mon.datetime = ns

    class GatedThread:
        def __init__(self, target=None, name=None, **kw):
            self._target, self._name = target, name

        def start(self):
            if not W.done:
                raise MachineryError("a second lock-step thread was started")
            W.done = False

            def body():
                W.mon_sem.acquire()
                try:
                    if not W.abort:
                        self._target()
                except _Abort:
                    pass
                except BaseException as e:
                    W.errors.append("monitor thread: %r" % (e,))
                finally:
                    W.blocked = ("done", {})
                    W.done = True
                    W.main_sem.release()
            W.thread = threading.Thread(target=body, name=self._name or "lockstep", daemon=True)
            W.thread.start()

    class _Threading:
        Thread = GatedThread

        def __getattr__(self, n):
            return getattr(threading, n)

    class _Time:
        @staticmethod
        def sleep(s):
            W.yield_("sleep", secs=s)

        def __getattr__(self, n):
            import time
            return getattr(time, n)

    mon.threading = _Threading()
    mon.time = _Time()
    _installed = True


# --------------------------------------------------------------------------------------------------------------
# the fake back-end

RC = {"ok": (0, "Success"), "fail": (1, "KnownIssue"), "rexh": (24, "ResourceExhausted"), "killed": (-9, "Killed")}


class _Perf:
    def getElements(self):
        return {}


class FakeTask:
    """What a back-end Task offers to RepeatingEngine: wait() blocks (a yield) until the harness ends the task."""

    def __init__(self, runner, duration, outcome):
        self.runner = runner
        self.start = int(W.now)
        self.end = self.start + duration
        self.outcome = outcome          # delivered unless the task is killed
        self.killed = False
        self.running = True
        self.returncode = None
        self._reason = None
        self.schedulerId = "fake-%d" % len(runner.launches)
        self.performanceInfo = _Perf()

    @property
    def exitReason(self):
        return self._reason

    @property
    def status(self):
        import experiment.model.codes as codes
        if self.running:
            return codes.RUNNING_STATE
        return codes.FINISHED_STATE if self.returncode == 0 else codes.FAILED_STATE

    def isAlive(self):
        return self.running

    def poll(self):
        return self.returncode

    def kill(self):
        # a running task dies within the second; a finished one ignores the signal
        if self.running and W.now < self.end:
            self.killed = True
            self.end = int(W.now) + 1

    terminate = kill

    def _finish(self):
        kind = "killed" if self.killed else self.outcome
        self.returncode, reason = RC[kind]
        import experiment.model.codes as codes
        self._reason = codes.exitReasons[reason]
        self.running = False
        self.rc_kind = kind

    def wait(self):
        W.yield_("wait", task=self)
        return self.returncode


# --------------------------------------------------------------------------------------------------------------
# real experiment per configuration

MODES = ("repeatingProducer", "plainProducer", "earlierStage", "noCheck")


# mirror of ShapeProducers in spec/Repeating.tla: the observer's references in order, (stage, name, alive at stageIn)
SHAPES = {
    "one": [(1, "Simulate", True)],
    "two": [(1, "Simulate", True), (1, "Analyse", True)],
    "sameNameEarlierLast": [(1, "Simulate", True), (0, "Simulate", False)],
    "sameNameEarlierFirst": [(0, "Simulate", False), (1, "Simulate", True)],
    "twoAndEarlier": [(1, "Simulate", True), (0, "Simulate", False), (1, "Analyse", True), (0, "Analyse", False)],
    "earlierOnly": [(0, "Simulate", False)],
}


def flowir_for_shape(cfg):
    """plain producers in stages 0/1 and the repeating observer stage1.Monitor that references them in the given order"""
    prods = SHAPES[cfg["shape"]]
    comps = []
    for stage, name, _ in sorted(set(prods)):
        comps.append({"name": name, "stage": stage, "command": {"executable": "echo", "arguments": "p"}})
    if not any(stage == 0 for stage, _, _ in prods):
        comps.insert(0, {"name": "Setup", "stage": 0, "command": {"executable": "echo", "arguments": "s"}})     # stages are numbered from 0
    refs = ["stage%d.%s:ref" % (stage, name) for stage, name, _ in prods]
    obs = {"name": "Monitor", "stage": 1, "command": {"executable": "echo", "arguments": " ".join(refs)}, "references": refs,
           "workflowAttributes": {"repeatInterval": cfg["R"], "repeatRetries": cfg["retries0"]}}
    if cfg["die"] > 0:
        obs["variables"] = {"kill-after-producers-done-delay": "%d.0" % cfg["die"]}
    comps.append(obs)
    return {"components": comps}


def flowir_for(cfg):
    if cfg.get("shape", "direct") != "direct":
        return flowir_for_shape(cfg)
    mode = cfg["mode"]
    prod = {"name": "producer", "stage": 0, "command": {"executable": "echo", "arguments": "p"}}
    if mode in ("repeatingProducer", "noCheck", "mixedProducers"):
        # a repeating producer that itself observes a plain source
        src = {"name": "source", "stage": 0, "command": {"executable": "echo", "arguments": "s"}}
        prod["references"] = ["source:ref"]
        prod["command"]["arguments"] = "source:ref"
        prod["workflowAttributes"] = {"repeatInterval": 7}
        comps = [src, prod]
    else:
        comps = [prod]
    refs = ["stage0.producer:ref"]
    if mode == "mixedProducers":
        # ... and a second producer that does not repeat; it is referenced first
        comps.append({"name": "plain", "stage": 0, "command": {"executable": "echo", "arguments": "q"}})
        refs = ["stage0.plain:ref", "stage0.producer:ref"]
    obs = {"name": "observer", "stage": 1 if mode == "earlierStage" else 0,
           "command": {"executable": "echo", "arguments": " ".join(refs)},
           "references": refs,
           "workflowAttributes": {"repeatInterval": cfg["R"], "repeatRetries": cfg["retries0"]},
           "variables": {}}
    if cfg["die"] > 0:
        obs["variables"]["kill-after-producers-done-delay"] = "%d.0" % cfg["die"]
    if mode == "noCheck":
        obs["variables"]["check-producer-output"] = "false"
    if not obs["variables"]:
        del obs["variables"]
    comps.append(obs)
    return {"components": comps}


class Runner:
    """Executes schedules on real RepeatingEngines. One Runner per check run (owns a scratch directory)."""

    def __init__(self, scratch):
        install()
        self.scratch = scratch
        self._exps = {}
        self.launches = []

    def job_for(self, cfg):
        shape = cfg.get("shape", "direct")
        key = (cfg["R"], cfg["retries0"], cfg["die"], cfg["mode"], shape)
        if key not in self._exps:
            from . import realenv
            exp = realenv.experiment_from_flowir(flowir_for(cfg), self.scratch)
            if shape == "direct":
                stage = 1 if cfg["mode"] == "earlierStage" else 0
                job = exp.findJob(stage, "observer")
                prods = job.producerInstances
                if len(prods) != (2 if cfg["mode"] == "mixedProducers" else 1):
                    raise MachineryError("observer has %d producers" % len(prods))
                prods = sorted(prods, key=lambda j: not j.isRepeat)       # the repeating producer first
            else:
                job = exp.findJob(1, "Monitor")
                prods = [exp.findJob(stage, name) for stage, name, _ in SHAPES[shape]]
            self._exps[key] = (exp, job, prods)
        return self._exps[key]

    # -- observation -----------------------------------------------------------------------------------------
    def observe(self, blk, wake=None):
        e = self.engine
        reason = e.exitReason()
        p = e.process
        now = int(W.now) if W.now >= 0 else -1
        return {"now": now, "blk": blk, "wake": now if wake is None else wake,
                "alive": bool(e.isAlive()), "reason": "none" if reason is None else str(reason),
                "retries": e._stateDict["repeatRetries"], "cancel": e.cancelMonitorEvent.is_set(),
                "suicide": bool(e._suicide), "consume": bool(e._consume), "pdone": bool(e._producers_are_finished),
                "proc": "none" if p is None else ("running" if p.running else "stale"),
                "rc": "-" if (p is None or p.running) else p.rc_kind,
                "nl": len(self.launches),
                "ll": int((e.lastLaunched - BASE).total_seconds()) if e.lastLaunched is not None else 0}

    def log(self, k, s, blk=None, wake=None, **extra):
        if wake is None:
            wake = self.task.end if (self.blk == "wait" and self.task is not None) else self.wake
        ev = {"k": k, "s": s, "o": self.observe(blk or self.blk, wake)}
        ev.update(extra)
        self.events.append(ev)
        return ev

    # -- environment events ------------------------------------------------------------------------------------
    def finish_component(self, cs):
        """what the controller sees and does when a plain component ends: its engine exits, the component is finished"""
        import experiment.model.codes as codes
        cs.engine._exitReason = codes.exitReasons["Success"]
        cs.engine.emit_now()
        cs.finish(codes.FINISHED_STATE)

    def do_env(self, a, s, p=None, src="-"):
        """perform one environment event at stamp s (the clock has been set by the caller)"""
        if a == "notify":
            self.engine.notify_all_producers_finished()
            self.notified_at = s
        elif a == "pfinish":
            # producer component p (index into the shape) finishes: the REAL ComponentState plumbing has to deliver
            # notify_all_producers_finished() once the last producer that was alive at stageIn() has finished
            self.log("pfin", s, p=p)
            self.finish_component(self.css[p - 1])
            self.pump_timers(W.now)
            self.log("pfinish", s, p=p)
            return
        elif a == "output":
            self.nout += 1
            dirs = self.out_dirs
            if src == "R":
                dirs = dirs[:1]
            elif src == "P":
                dirs = dirs[1:]
            for d in dirs:
                path = os.path.join(d, "out_%d.dat" % self.nout)
                with open(path, "w") as f:
                    f.write("x")
                ts = (BASE + _dt.timedelta(seconds=s / 2.0)).timestamp()
                os.utime(path, (ts, ts))
                self.files.append(path)
        elif a == "extkill":
            self.engine.kill()
        else:
            raise MachineryError("unknown environment event %r" % (a,))
        if a == "output":
            self.log(a, s, src=src)
        else:
            self.log(a, s)

    def pump_timers(self, upto):
        """run rx items due <= upto one by one; a firing kill-delay timer is logged as an environment event"""
        n = 0
        while W.queue and W.queue[0][0] <= upto:
            before = self.engine._suicide
            W.pump_one()
            if self.engine._suicide and not before:
                self.log("timer", int(round(W.now * 2)))
            n += 1
            if n > 100000:
                raise MachineryError("rx queue does not drain")

    # -- one run -----------------------------------------------------------------------------------------------
    def run(self, cfg, sched, horizon=None, default_task=(2, "ok")):
        """cfg: {R, retries0, die, mode, maxd}; sched: [{a: notify|output|extkill, s: stamp2} | {a: task, s: d} | {a: rc, s: code}]
        Returns {events, launches, final, late, errors, cut}."""
        import experiment.runtime.engine as eng
        exp, job, prods = self.job_for(cfg)
        shape = cfg.get("shape", "direct")
        prod = prods[0]
        W.reset()
        self.events, self.launches, self.files = [], [], []
        self.nout, self.notified_at = 0, None
        self.blk, self.wake, self.task = "idle", 0, None
        self.window_seen = False
        self.prod_dir = prod.workingDirectory.path
        # new output appears in the directory of every producer of the observer's stage
        self.out_dirs = [j.workingDirectory.path for j in prods] if shape == "direct" else [j.workingDirectory.path for j in prods if j.stageIndex == job.stageIndex]
        for d in set([self.prod_dir] + self.out_dirs):
            for fn in os.listdir(d):
                os.remove(os.path.join(d, fn))
        env = [dict(e) for e in sched if e["a"] in ("notify", "pfinish", "output", "extkill")]
        checks = [e["s"] for e in sched if e["a"] == "check"]
        ochecks = [e["s"] for e in sched if e["a"] == "ocheck"]
        self.nchecks = self.nochecks = 0
        self.fault_active = False
        durs = [e["s"] for e in sched if e["a"] == "task"]
        rcs = [("ok", "fail", "rexh", "killed")[e["s"]] for e in sched if e["a"] == "rc"]
        late = []
        runner = self

        def task_generator(j, outputFile=None, errorFile=None, **kw):
            i = len(runner.launches)
            d = durs[i] if i < len(durs) else default_task[0]
            # outcomes recorded by the spec include the "killed" entries: align by launch index
            rc = rcs[i] if i < len(rcs) else default_task[1]
            if rc == "killed":
                rc = "fail"
            t = FakeTask(runner, d, rc)
            runner.launches.append({"t": t.start, "saw": bool(runner.engine._producers_are_finished), "task": t})
            runner.log("launch", 2 * t.start, blk="running", wake=t.start)
            return t

        self.css = []
        if shape == "direct":
            engine = self.engine = eng.RepeatingEngine(job, task_generator)
            observer = None
        else:
            # the REAL ComponentState objects: producers (real Engines on lanes, never run) and the observer, whose
            # RepeatingEngine is the one ComponentState created; only its back-end is replaced
            import experiment.runtime.workflow as wf
            graph = exp.experimentGraph
            by_ref = {}
            for j in prods:
                if j.reference not in by_ref:
                    by_ref[j.reference] = wf.ComponentState(j, graph)
            self.css = [by_ref[j.reference] for j in prods]
            observer = self.observer = wf.ComponentState(job, graph)
            engine = self.engine = observer.engine
            engine.taskGenerator = task_generator
            real_notify = engine.notify_all_producers_finished

            def notify_logged():
                real_notify()
                runner.log("notified", int(round(W.now * 2)))
            engine.notify_all_producers_finished = notify_logged
        # transient filesystem fault: while the k-th canConsume() check lists the (output-less) producer directory the
        # directory is not there (as with a stale handle): the REAL os.listdir raises OSError inside WorkingDirectory._listdir
        wd = prod.workingDirectory
        real_listdir = wd._listdir
        fault_mode = cfg["mode"] in ("plainProducer", "noCheck") and shape == "direct"

        def listdir(directory):
            if runner.fault_active and os.path.realpath(directory) == os.path.realpath(runner.prod_dir):
                # the filesystem fault lasts for the whole attempt: every listing of the repeating producer's directory fails
                away = directory.rstrip("/") + ".away"
                os.rename(directory, away)
                try:
                    return real_listdir(directory)
                finally:
                    os.rename(away, directory)
            if not fault_mode or os.path.realpath(directory) != os.path.realpath(runner.prod_dir):
                return real_listdir(directory)
            i = runner.nchecks
            runner.nchecks += 1
            if i < len(checks) and checks[i] and not os.listdir(directory):
                away = directory.rstrip("/") + ".away"
                os.rename(directory, away)
                runner.log("fault", 2 * int(W.now), blk="running", wake=int(W.now))
                try:
                    return real_listdir(directory)
                finally:
                    os.rename(away, directory)
            return real_listdir(directory)
        wd._listdir = listdir
        real_check = job.producersHaveOutputSinceDate

        ofault_mode = cfg["mode"] == "repeatingProducer" and shape == "direct"

        def check_then_window(date):
            if ofault_mode and not runner.window_seen and not runner.fault_active:
                # first output check of this attempt: does the schedule make the filesystem fail during this attempt?
                i = runner.nochecks
                runner.nochecks += 1
                if i < len(ochecks) and ochecks[i]:
                    runner.fault_active = True
                    runner.window_seen = True            # an aborted attempt has no WINDOW
                    runner.log("ofault", 2 * int(W.now), blk="running", wake=int(W.now))
            r = real_check(date)
            if not runner.window_seen:          # one WINDOW per EngineTaskController call (a repaired engine may look twice)
                runner.window_seen = True
                W.yield_("window")
            return r
        job.producersHaveOutputSinceDate = check_then_window
        finished = []
        sub = engine.notifyFinished.subscribe(on_next=lambda x: finished.append(dict(x[0])), on_error=lambda e: W.errors.append(repr(e)))
        cut = False
        try:
            # before run(): stamp -1
            W.now = -0.5
            if observer is not None:
                # earlier stages are over; then the controller stages the observer in
                for (stage, name, alive), cs in zip(SHAPES[shape], self.css):
                    if not alive and cs.isAlive():
                        self.finish_component(cs)
                W.pump(W.now)
                observer.stageIn()
                self.pump_timers(W.now)
            self.log("blocked", -1, blk="idle", wake=0)
            while env and env[0]["s"] == -1:
                e = env.pop(0)
                self.do_env(e["a"], e["s"], e.get("p"), e.get("src", "-"))
            W.now = 0.0
            self.pump_timers(0.0)
            engine.run()
            if horizon is None:
                horizon = 400
            while True:
                b = W.resume()
                kind, info = b
                t = int(W.now)
                if kind == "done":
                    self.blk, self.wake = "done", t
                    self.log("blocked", 2 * t)
                    break
                if kind == "window":
                    self.blk, self.wake = "window", t
                    self.log("blocked", 2 * t)
                    while env and env[0]["s"] <= 2 * t:
                        e = env.pop(0)
                        if e["s"] != 2 * t:
                            late.append(e)
                        self.do_env(e["a"], 2 * t, e.get("p"), e.get("src", "-"))
                    continue
                self.window_seen = False
                self.fault_active = False
                if kind == "sleep":
                    end = t + int(info["secs"])
                    task = self.task = None
                    self.blk = "sleep"
                else:
                    task = self.task = info["task"]
                    end = task.end
                    self.blk = "wait"
                self.wake = end
                self.log("blocked", 2 * t)
                # environment events and rx items inside (t, end), in time order.  An event whose stamp is already
                # past (the monitor opened no WINDOW at its instant) is delivered late, at the next half second.
                while True:
                    if task is not None:
                        end = self.wake = task.end
                    eff = None
                    if env and env[0]["s"] < 2 * end:
                        eff = max(env[0]["s"] / 2.0, t + 0.5, W.now)
                        if eff == int(eff):
                            eff += 0.5
                        if eff >= end:
                            eff = None
                    nxt_rx = W.next_due()
                    if nxt_rx is not None and nxt_rx > end:
                        nxt_rx = None
                    if eff is None and nxt_rx is None:
                        break
                    if nxt_rx is not None and (eff is None or nxt_rx <= eff):
                        self.pump_timers(nxt_rx)
                    else:
                        e = env.pop(0)
                        W.now = eff
                        s2 = int(round(eff * 2))
                        if s2 != e["s"]:
                            late.append(e)
                        self.do_env(e["a"], s2, e.get("p"), e.get("src", "-"))
                W.now = float(end)
                if task is not None:
                    task._finish()
                    self.task = None
                    self.log("rc", 2 * end, blk="running", wake=end, rc=task.rc_kind)
                if end >= horizon:
                    cut = True
                    self.blk, self.wake = "cut", end
                    self.log("end", 2 * end)
                    break
        finally:
            try:
                del job.producersHaveOutputSinceDate
            except AttributeError:
                pass
            try:
                del wd._listdir
            except AttributeError:
                pass
            W.stop_thread()
            if observer is not None and observer.repeatingDisposable is not None:
                observer.repeatingDisposable.dispose()
        # let the emission pipeline drain (same virtual instant and the following interval tick)
        W.pump(W.now + 6.0)
        sub.dispose()
        final = self.observe("cut" if cut else "done")
        res = {"cfg": cfg, "events": self.events, "launches": [{"t": l["t"], "saw": l["saw"]} for l in self.launches],
               "final": final, "late": late, "unused": env, "errors": list(W.errors), "cut": cut,
               "finished_emissions": finished}
        W.queue = []
        self.css = []
        self.observer = None
        return res
