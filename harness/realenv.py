"""Helpers to build real st4sd objects from generated inputs (shared by the conformance drivers)."""
import logging
import os
import shutil
import sys
import uuid

import yaml

logging.disable(logging.CRITICAL)      # the runtime is very chatty; the drivers compare values, not logs

import experiment.model.data
import experiment.model.storage
import experiment.model.graph
import experiment.model.frontends.flowir as FL


def experiment_from_flowir(flowir, location, extra_files=None, variable_files=None, inputs=None, data=None,
                           platform=None, is_flowir=True, validate=True, check_executables=False):
    """As tests/utils.py:experiment_from_flowir. flowir: dict or YAML text."""
    if not isinstance(flowir, str):
        flowir = yaml.safe_dump(flowir, sort_keys=False)
    package_path = os.path.join(location, '%s.package' % uuid.uuid4().hex[:10])
    dir_conf = os.path.join(package_path, 'conf')
    os.makedirs(dir_conf)
    with open(os.path.join(dir_conf, 'flowir_package.yaml' if is_flowir else 'dsl.yaml'), 'w') as f:
        f.write(flowir)
    for path, text in (extra_files or {}).items():
        full = os.path.join(package_path, path)
        os.makedirs(os.path.dirname(full), exist_ok=True)
        with open(full, 'w') as f:
            f.write(text)
    pkg = experiment.model.storage.ExperimentPackage.packageFromLocation(package_path, platform=platform)
    exp = experiment.model.data.Experiment.experimentFromPackage(
        pkg, location=location, variable_files=variable_files, inputs=inputs, data=data, platform=platform)
    if validate:
        exp.validateExperiment(checkExecutables=check_executables)
    return exp


def simple_component(name, stage=0, args="hello", references=None, executable="echo", **extra):
    c = {"name": name, "stage": stage, "command": {"executable": executable, "arguments": args}}
    if references:
        c["references"] = list(references)
    c.update(extra)
    return c
