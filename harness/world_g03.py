"""G03 -- the REAL scripts/elaunch.py (Setup, Run, the finalisation in its __main__ block) in-process on the deterministic world.

What runs for real: every statement of elaunch.py's `if __name__ == "__main__":` block from `compExperiment = None` to the end of
the file (the call of Setup(), the status update after deployment, report_error() for a failed set-up, the creation of the
components / the Controller / the status database, Run(), the four `except` clauses that decide the exit status, and the whole
`finally:` clean-up ending in the final persistentUpdate() of status.txt and consolidate()).  The statements are taken from the
file's AST and executed in the module's own namespace, so nothing of them is replicated here.  Below them run the real
Controller / ComponentState / StatusMonitor / OutputAgent / Status / Experiment.

What is replaced (module attributes only, nothing under /repo is edited):
  * the part of the __main__ block BEFORE that statement (option parsing through build_parser() is real; logging set-up, the
    halt/kill file monitors and signal.signal() are not executed: see prelude() -- PRELUDE_SHA guards the skipped lines);
  * threads and time: harness.world lanes for every rx scheduler, experiment.runtime.monitor.CreateMonitor hands the periodic
    action (StatusMonitor's CheckStatus) to the harness, which runs it as "the monitor thread" at the points it chooses;
    elaunch's threading.Event is an event whose wait() lets the other "threads" run;
  * the task below the engines (harness.ctl.FakeEngine, contract-tested against the real Engine by G01); task outcomes come
    from the scenario; the status database (sqlite + thread) is a stub;
  * signals: a KeyboardInterrupt raised in the main thread at a chosen point (what elaunch's signal_handler does).
"""
import ast
import hashlib
import importlib.util
import logging
import optparse
import os
import random
import shutil
import sys
import threading
import types

import yaml

from . import world as W
from . import ctl
from . import realenv  # noqa: F401  (silences the runtime's logging)

import experiment
import experiment.model.codes as codes
import experiment.model.data as data_mod
import experiment.runtime.control as control
import experiment.runtime.engine as engine_mod
import experiment.runtime.monitor as monitor_mod
import experiment.runtime.output as output_mod
import experiment.runtime.status as status_mod
import experiment.runtime.workflow as workflow
import experiment.runtime.errors as rerrors
import experiment.settings


class Drift(Exception):
    """elaunch.py no longer has the structure this harness executes: machinery failure, never a verdict."""


class Stuck(Exception):
    pass


# sha256 of the source of the statements of the __main__ block that are NOT executed (everything before `compExperiment = None`)
PRELUDE_SHA = "9e76eeac211b39a90cff667b46d2874b484802bbc9282f6216e847b9199eb6bc"

STATE_NAME = {codes.RUNNING_STATE: "running", codes.POSTMORTEM_STATE: "running", codes.FINISHED_STATE: "finished",
              codes.FAILED_STATE: "failed", codes.SHUTDOWN_STATE: "shutdown"}

_ELAUNCH = {}


def elaunch_path():
    return os.path.normpath(os.path.join(os.path.dirname(experiment.__file__), "..", "..", "scripts", "elaunch.py"))


def _calls(node):
    out = set()
    for n in ast.walk(node):
        if isinstance(n, ast.Call):
            f = n.func
            out.add(f.id if isinstance(f, ast.Name) else f.attr if isinstance(f, ast.Attribute) else "?")
    return out


def load_elaunch():
    """-> (module, code object of the executed slice, sha of the skipped prelude)"""
    if _ELAUNCH:
        return _ELAUNCH["m"], _ELAUNCH["code"], _ELAUNCH["sha"]
    path = elaunch_path()
    with open(path) as f:
        src = f.read()
    tree = ast.parse(src)
    main = [n for n in tree.body if isinstance(n, ast.If) and isinstance(n.test, ast.Compare)
            and isinstance(n.test.left, ast.Name) and n.test.left.id == "__name__"]
    if len(main) != 1:
        raise Drift("no single `if __name__ == '__main__'` block in %s" % path)
    body = main[0].body
    start = [i for i, s in enumerate(body) if isinstance(s, ast.Assign) and len(s.targets) == 1
             and isinstance(s.targets[0], ast.Name) and s.targets[0].id == "compExperiment"
             and isinstance(s.value, ast.Constant) and s.value.value is None]
    if len(start) != 1:
        raise Drift("cannot find the statement `compExperiment = None` that opens the deployment part of the __main__ block")
    sl = body[start[0]:]
    tries = [s for s in sl if isinstance(s, ast.Try)]
    if len(tries) != 2 or "Setup" not in _calls(tries[0]) or "Run" not in _calls(tries[1]) or not tries[1].finalbody:
        raise Drift("the deployment part of the __main__ block is not `try: Setup ... ; try: ... Run ... finally: ...` any more")
    if "persistentUpdate" not in _calls(ast.Module(body=tries[1].finalbody, type_ignores=[])) or sl[-1] is not tries[1]:
        raise Drift("the finally clause does not end the file / does not write the final status any more")
    if not any(isinstance(s, ast.If) and "report_error" in _calls(s) for s in sl):
        raise Drift("the report_error() branch for a failed set-up is gone")
    lines = src.split("\n")
    prelude = "\n".join(lines[main[0].body[0].lineno - 1: sl[0].lineno - 1])
    sha = hashlib.sha256(prelude.encode()).hexdigest()
    code = compile(ast.Module(body=sl, type_ignores=[]), path, "exec")
    spec = importlib.util.spec_from_file_location("elaunch_g03", path)
    m = importlib.util.module_from_spec(spec)
    spec.loader.exec_module(m)
    for fn in ("Setup", "Run", "report_error", "generate_components", "build_parser"):
        if not callable(getattr(m, fn, None)):
            raise Drift("elaunch.%s is gone" % fn)
    _ELAUNCH.update(m=m, code=code, sha=sha)
    return m, code, sha


from .g03_model import Scenario, FIELDS, parse_status_text  # noqa: E402,F401


# ---------------------------------------------------------------------------------------------------------------------------
# stand-ins for the environment

class G03Engine(ctl.FakeEngine):
    """ctl.FakeEngine + the stream of updates completes after the shutdown update (the real engine's does: G01
    CompleteOnlyAfterShutdown), which is what Controller.workflowIsComplete waits for."""

    def _deliver(self, *_):
        d = self._outbox.pop(0)
        if self._outbox:
            self.lane.schedule(self._deliver)
        self._subject.on_next((d, self))
        if d.get("isShutdown"):
            self._subject.on_completed()


class FakeStatusDB:
    def __init__(self, location=None):
        self.location = location
        self.event_finished = types.SimpleNamespace(wait=lambda *a: True, set=lambda: None, is_set=lambda: True)

    def monitorComponent(self, *a, **k):
        pass

    def monitorEngine(self, *a, **k):
        pass

    def getWorkflowStatus(self, *a, **k):
        return None

    def close(self):
        pass


class PumpEvent:
    """elaunch's threading.Event: wait() is where the main thread sleeps and every other thread runs."""
    h = None

    def __init__(self):
        self._set = False

    def set(self):
        self._set = True

    def is_set(self):
        return self._set

    def clear(self):
        self._set = False

    def wait(self, timeout=None):
        h = PumpEvent.h
        idle = 0
        while not self._set:
            h.point("join-wait")
            if self._set:
                break
            if not h.progress_one():
                if not h.world.advance_to_next_timer():
                    raise Stuck("main thread waits for an event nobody will set")
                idle += 1
                if idle > 200:
                    raise Stuck("event still not set after %d timer advances" % idle)
        h.log("Joined")
        return True


class EnvTurn:
    def __init__(self, h):
        self.h = h

    def wait(self, timeout=None):
        self.h.environment_turn()
        return True

    def clear(self):
        pass

    def set(self):
        pass

    def is_set(self):
        return False


class Policy:
    """Seeded schedule.  tick_p: probability that the monitor thread runs its action at a point of the main thread; signals:
    list of (label, occurrence) -- the n-th time the main thread passes the point `label` a signal is delivered."""

    def __init__(self, seed, tick_p=0.3, burst_max=4, signals=(), eager=False, hold_until_signal=False):
        self.rnd = random.Random(seed)
        self.tick_p = tick_p
        self.burst_max = burst_max
        self.signals = [tuple(s) for s in signals]
        self.eager = eager
        self.hold_until_signal = hold_until_signal


# ---------------------------------------------------------------------------------------------------------------------------

class Harness:
    def __init__(self, scen, scratch, policy):
        self.sc = scen
        self.scratch = scratch
        self.policy = policy
        self.world = W.World()
        self.engines = {}
        self.trace = []
        self.versions = []            # every text written to status.txt, in order
        self.status_objs = []
        self.status_path = None
        self.monitor = None           # dict(fn, cancel, done, last)
        self.controller = None
        self.exp = None
        self.in_tick = False
        self.ctx = []                 # who is writing: setup / report / final
        self.counts = {}
        self.signalled = []
        self.turns = 0
        self.exit_code = None
        self.crash = None
        self.foreign = []             # status.txt contents that are none of the written versions
        self.comp_prev = None
        self.tick_errors = []
        self.item_errors = []
        self.override = None
        self.buffering = False        # the launcher prepares the loaded document for a restart: one RestartReset record
        self.ns = None                # elaunch's namespace

    # -- what ctl.FakeEngine needs --
    def event(self, name, arg=None, extra=None):
        pass

    def preempt(self, where, ref):
        pass

    # -- observation ----------------------------------------------------------------------------------------------------
    def mem_doc(self):
        if not self.status_objs:
            return None
        return dict(self.status_objs[-1].to_dict())

    def disk_doc(self):
        path = self.status_path
        exp = self.exp if self.exp is not None else (self.ns or {}).get("compExperiment")
        if path is not None and not os.path.exists(path) and exp is not None:
            # after consolidate() the output directory lives in the instance directory itself
            path = os.path.join(exp.instanceDirectory.location, "output", "status.txt")
        if path is None or not os.path.exists(path):
            return None
        with open(path) as f:
            text = f.read()
        if self.versions and text != self.versions[-1] and text not in self.foreign:
            self.foreign.append(text)
        return parse_status_text(text)

    def comp_states(self):
        """per stage: list of (state, done) in component order"""
        c = self.controller
        out = []
        graph = self.exp.graph if self.exp is not None else None
        for k in range(self.sc.ns):
            row = []
            for i in range(self.sc.nc[k]):
                ref = self.sc.ref(k, i)
                st, done = "running", False
                if graph is not None and ref in graph.nodes:
                    try:
                        comp = graph.nodes[ref]["component"]()
                        st = STATE_NAME[comp.state]
                    except Exception:
                        st = "running"
                    if c is not None:
                        done = ref in c.comp_done
                row.append((st, done))
            out.append(row)
        return out

    def snapshot(self):
        c = self.controller
        return dict(mem=self.mem_doc(), disk=self.disk_doc(),
                    ostage=(self.exp._currentStage if self.exp is not None else None),
                    cstage=(c.currentStage.index if c is not None and c.currentStage is not None else None),
                    stop=bool(c.stop_executing) if c is not None else False,
                    comps=self.comp_states(),
                    mon=(None if self.monitor is None else ("done" if self.monitor["done"] else "cancelled" if self.monitor["cancel"].is_set() else "on")))

    def log(self, ev, arg=None):
        self.sync_comps()
        self.trace.append(dict(ev=ev, arg=arg, st=self.snapshot()))

    def sync_comps(self):
        """component state changes since the last record become one record per change (the order inside one rx item is the
        order of the component list: the specification only counts)"""
        if self.controller is None or self.exp is None:
            return
        now = self.comp_states()
        prev = self.comp_prev
        if prev is None:
            self.comp_prev = now
            return
        if now == prev:
            return
        cur = [list(r) for r in prev]
        for k in range(self.sc.ns):
            for i in range(self.sc.nc[k]):
                if now[k][i][0] != prev[k][i][0]:
                    cur[k][i] = (now[k][i][0], cur[k][i][1])
                    self._log_comp("Comp", (k, i, now[k][i][0]), cur)
                if now[k][i][1] != prev[k][i][1]:
                    cur[k][i] = (cur[k][i][0], now[k][i][1])
                    self._log_comp("Done", (k, i), cur)
        self.comp_prev = now

    def _log_comp(self, ev, arg, comps):
        st = self.snapshot()
        st["comps"] = [list(r) for r in comps]
        if self.override:
            st.update(self.override)
        self.trace.append(dict(ev=ev, arg=arg, st=st))

    # -- the other threads ----------------------------------------------------------------------------------------------
    def env_actions(self):
        acts = []
        for ref, e in self.engines.items():
            if e._exitReason is None:
                if e.kill_requested:
                    acts.append(("KilledExit", ref))
                elif e.nrun > 0:
                    if self.policy.hold_until_signal and not self.signalled:
                        continue
                    acts.append(("TaskExit", ref))
        return acts

    def outcome(self, ref):
        for k in range(self.sc.ns):
            for i in range(self.sc.nc[k]):
                if self.sc.ref(k, i) == ref:
                    return {"ok": "Success", "fail": "KnownIssue", "shut": "KnownIssue"}[self.sc.out[k][i]]
        raise KeyError(ref)

    def choices(self):
        return [("item", i) for i in self.world.pending()] + [("env", a) for a in self.env_actions()]

    def progress_one(self):
        """one step of some thread other than the main one; False if none can move"""
        ch = self.choices()
        if not ch:
            return False
        if self.policy.eager:
            kind, x = ch[0]
        else:
            kind, x = self.policy.rnd.choice(ch)
        if kind == "item":
            try:
                self.world.run(x)
            except Exception as e:           # an exception escaping an rx item would kill a pool thread
                self.item_errors.append("%s: %r" % (x, e))
        else:
            name, ref = x
            e = self.engines[ref]
            e.env_exit("Killed" if name == "KilledExit" else self.outcome(ref))
        self.sync_comps()
        return True

    def monitor_tick(self):
        """the StatusMonitor thread performs its action once (the last time if it has been cancelled)"""
        m = self.monitor
        if m is None or m["done"]:
            return False
        last = m["cancel"].is_set()
        self.in_tick = True
        nv = len(self.versions)
        err = None
        try:
            m["fn"](last)
        except Exception as e:       # CreateMonitor logs and carries on
            err = "%s: %s" % (type(e).__name__, e)
            self.tick_errors.append(err)
        finally:
            self.in_tick = False
        if last:
            m["done"] = True
        self.log("Tick", dict(last=last, wrote=len(self.versions) > nv, error=err))
        return True

    def others(self, label):
        """the other threads may run while the main thread is at `label`"""
        p = self.policy
        n = p.rnd.randint(0, p.burst_max)
        for _ in range(n):
            if p.rnd.random() < p.tick_p and self.monitor is not None and not self.monitor["done"]:
                self.monitor_tick()
            elif not self.progress_one():
                break

    def point(self, label):
        """a point of the main thread: other threads run, a signal may arrive"""
        n = self.counts[label] = self.counts.get(label, 0) + 1
        self.others(label)
        if (label, n) in self.policy.signals:
            self.signalled.append(label)
            self.log("Signal", label)
            raise KeyboardInterrupt()

    def environment_turn(self):
        self.turns += 1
        if self.turns > 3000:
            raise Stuck("no termination after %d controller passes" % self.turns)
        before = len(self.trace), self.world.nrun
        self.point("turn")
        if (len(self.trace), self.world.nrun) == before and not self.choices():
            # nothing happened and nothing can: virtual time passes (5 s ticks of the state pipelines, the monitor's period)
            if self.policy.hold_until_signal and not self.signalled and self.turns > 400:
                raise Stuck("tasks are held until a signal that never comes")
            if not self.world.advance_to_next_timer():
                if self.monitor is not None and not self.monitor["done"]:
                    self.monitor_tick()
                elif not self.policy.hold_until_signal:
                    raise Stuck("controller waits but nothing is pending")

    # -- installation ---------------------------------------------------------------------------------------------------
    def install(self, inst, m):
        h = self
        PumpEvent.h = h

        def engine_for(job):
            e = G03Engine(job, h)
            h.engines[job.reference] = e
            return e
        inst._set(engine_mod.Engine, "engineForComponentSpecification", staticmethod(engine_for))
        inst._set(control, "time", types.SimpleNamespace(sleep=lambda s: None, time=lambda: h.world.now))
        inst._set(status_mod, "StatusDB", FakeStatusDB)

        def create_monitor(interval, action, cancelEvent=None, lastAction=True, name=None, default_polling_time=5.0):
            def start():
                h.monitor = dict(fn=action, cancel=cancelEvent, done=False, name=name)
                h.log("MonStart")
            return start
        inst._set(monitor_mod, "CreateMonitor", create_monitor)

        # Controller: real class, the environment turn instead of the 5 s wait, no completion-check hook thread
        RealController = control.Controller

        class HController(RealController):
            def __init__(self, *a, **k):
                if h.buffering:
                    h.buffering = False
                    h.log("RestartReset")
                super().__init__(*a, **k)
                self._event_scheduler = EnvTurn(h)
                self._observe_completionCheck = lambda stage: None
                h.controller = self
                h.exp = self.experiment
                h.log("Controller")

            def initialise(self, stage, statusDatabase):
                h.point("init")
                prev = self.currentStage
                r = super().initialise(stage, statusDatabase)
                # what initialise() did to the components (a restart marks the earlier stages finished) happened before it
                # recorded the new current stage
                h.override = dict(cstage=(prev.index if prev is not None else None))
                try:
                    h.sync_comps()
                finally:
                    h.override = None
                h.log("StageInit", stage.index)
                return r

            def run(self):
                k = self.currentStage.index
                h.point("run")
                h.log("RunBegin", k)
                try:
                    r = super().run()
                except rerrors.UnexpectedJobFailureError:
                    h.log("RunEnd", (k, "failed"))
                    raise
                except rerrors.FinalStageNoFinishedLeafComponents:
                    h.log("RunEnd", (k, "noleaf"))
                    raise
                except KeyboardInterrupt:
                    h.log("RunEnd", (k, "interrupted"))
                    raise
                except BaseException as e:
                    h.log("RunEnd", (k, "error:" + type(e).__name__))
                    raise
                h.log("RunEnd", (k, "ok"))
                return r

            def cleanUp(self):
                h.point("cleanup")
                r = super().cleanUp()
                h.log("CleanUp")
                h.point("after-cleanup")
                return r
        inst._set(control, "Controller", HController)

        # Status: every setter of the main thread and every write
        S = data_mod.Status
        orig_init, orig_update = S.__init__, S.update

        def s_init(self, filename, data, stages):
            orig_init(self, filename, data, stages)
            h.status_objs.append(self)
            h.status_path = filename
            h.log("NewStatus", "report" if "report" in h.ctx else ("load" if data else "new"))
        inst._set(S, "__init__", s_init)

        def s_update(self):
            r = orig_update(self)
            if r:
                with open(self.outputFile) as f:
                    h.versions.append(f.read())
            if not h.in_tick:
                who = h.ctx[-1] if h.ctx else "deploy"
                h.log("Write", dict(who=who, ok=bool(r)))
            return r
        inst._set(S, "update", s_update)

        def wrap_setter(name, field):
            orig = getattr(S, name)

            def setter(self, *a):
                r = orig(self, *a)
                if not h.in_tick and not h.buffering and self in h.status_objs:
                    h.log("Set", (field, (str(a[0]) if a and field in ("exit-status", "experiment-state") else None)))
                return r
            inst._set(S, name, setter)
        for name, field in (("setExitStatus", "exit-status"), ("setErrorDescription", "error-description"),
                            ("removeErrorDescription", "no-error-description"), ("setCompleted", "completed-on"),
                            ("setExperimentState", "experiment-state"), ("setCreated", "created-on")):
            wrap_setter(name, field)
        orig_persist = S.persistentUpdate

        def persist(self, timeout=600):
            h.ctx.append("final")
            try:
                return orig_persist(self, timeout)
            finally:
                h.ctx.pop()
        inst._set(S, "persistentUpdate", persist)

        # StatusMonitor
        SM = output_mod.StatusMonitor
        orig_kill, orig_join, orig_run = SM.kill, SM.join, SM.run

        def sm_run(self, controller):
            r = orig_run(self, controller)
            h.point("monitor-started")
            return r
        inst._set(SM, "run", sm_run)

        def sm_kill(self):
            h.point("cleanup-begin")
            r = orig_kill(self)
            h.log("MonKill")
            h.point("after-monkill")
            return r
        inst._set(SM, "kill", sm_kill)

        def sm_join(self):
            h.point("before-join")
            m_ = h.monitor
            if m_ is None:
                # the monitor was never started: nobody will ever set the event join() may wait for
                def never(*a, **k):
                    raise Stuck("join() of a status monitor that was never started")
                self._condition_stopped = types.SimpleNamespace(wait=never, set=lambda: None, clear=lambda: None, is_set=lambda: False)
            if m_ is not None and not m_["done"]:
                if not m_["cancel"].is_set():
                    raise Stuck("join() of a status monitor that was never cancelled")
                h.monitor_tick()
            r = orig_join(self)
            h.log("MonJoin")
            return r
        inst._set(SM, "join", sm_join)

        # OutputAgent / Experiment: points of the stage loop
        OA = output_mod.OutputAgent
        orig_ps = OA.process_stage

        def process_stage(self, stage):
            h.point("stage-end")
            return orig_ps(self, stage)
        inst._set(OA, "process_stage", process_stage)
        E = data_mod.Experiment
        orig_inc = E.incrementStage

        def increment(self):
            h.point("increment")
            r = orig_inc(self)
            h.log("Increment", r)
            return r
        inst._set(E, "incrementStage", increment)
        orig_scs = E.setCurrentStage

        def set_current_stage(self, value):
            r = orig_scs(self, value)
            h.log("SetStage", value)
            return r
        inst._set(E, "setCurrentStage", set_current_stage)
        orig_lso = experiment.settings.load_settings_orchestrator

        def lso(*a, **k):
            h.point("deployed")
            return orig_lso(*a, **k)
        inst._set(experiment.settings, "load_settings_orchestrator", lso)

        # elaunch's own functions
        orig_setup, orig_run_fn, orig_report, orig_gen = m.Setup, m.Run, m.report_error, m.generate_components

        def setup(path, options):
            h.ctx.append("setup")
            try:
                h.point("setup")
                r = orig_setup(path, options)
                if r[1] is None:
                    h.log("SetupFailed")
                return r
            finally:
                h.ctx.pop()
        inst._set(m, "Setup", setup)

        def run_fn(*a, **k):
            h.log("Run")
            h.point("in-run")
            try:
                r = orig_run_fn(*a, **k)
            except KeyboardInterrupt:
                raise
            except BaseException as e:
                h.log("RunRaised", type(e).__name__)
                raise
            h.log("RunReturned")
            h.point("post-run")
            return r
        inst._set(m, "Run", run_fn)

        def report(*a, **k):
            h.ctx.append("report")
            try:
                return orig_report(*a, **k)
            finally:
                h.ctx.pop()
        inst._set(m, "report_error", report)

        def gen(*a, **k):
            h.log("EnterTry")
            h.point("pre-controller")
            r = orig_gen(*a, **k)
            h.buffering = h.ns["options"].restart is not None
            return r
        inst._set(m, "generate_components", gen)
        inst._set(m, "threading", types.SimpleNamespace(Event=PumpEvent, Thread=threading.Thread, RLock=threading.RLock,
                                                        Lock=threading.Lock, current_thread=threading.current_thread))
        inst._set(m, "time", types.SimpleNamespace(sleep=lambda s: None, time=lambda: h.world.now))
        import signal as _signal
        inst._set(m, "signal", types.SimpleNamespace(signal=lambda *a: None, SIGALRM=_signal.SIGALRM, SIGINT=_signal.SIGINT,
                                                     SIGKILL=_signal.SIGKILL))
        inst._set(sys, "stderr", open(os.devnull, "w"))


def prelude(m, argv):
    """The statements of the __main__ block before `compExperiment = None` that matter for what follows, replicated (guarded by
    PRELUDE_SHA): parse_args, formatPriority split, --registerWorkflow / --useMemoization normalisation, inputs/data lists."""
    import itertools
    m.__dict__["usage"] = "usage: %prog [options] [package]"
    parser = m.build_parser()
    options, args = parser.parse_args(list(argv))
    options.formatPriority = options.formatPriority.split(',')
    if options.registerWorkflow is False:
        options.discoverer_monitor_dir = None
    if options.useMemoization is False:
        options.mongoEndpoint = None
    options.inputs = [el.split(',') for el in options.inputs]
    options.inputs = [el.strip() for el in itertools.chain(*options.inputs)]
    options.data = [el.strip() for el in options.data]
    return parser, options, args


def run_elaunch(scen, scratch, policy, argv, cwd):
    """One execution of the deployment part of elaunch.py.  -> Harness (trace, versions, exit_code, crash)"""
    m, code, sha = load_elaunch()
    h = Harness(scen, scratch, policy)
    h.prelude_sha = sha
    base_threads = set(threading.enumerate())
    root = logging.getLogger()
    handlers0 = list(root.handlers)
    if not root.handlers:
        root.addHandler(logging.NullHandler())
        handlers0 = list(root.handlers)
    old_cwd = os.getcwd()
    os.chdir(cwd)
    ns = m.__dict__
    h.ns = ns
    ns["compExperiment"] = None
    try:
        with W.Installed(h.world) as inst:
            h.install(inst, m)
            parser, options, args = prelude(m, argv)
            ns.update(options=options, args=args, opts_only_cmdline=options, parser=parser, cmdline_args=["elaunch.py"] + list(argv),
                      report_id="g03-report", rootLogger=root, setupLogFile=os.path.join(cwd, "setup.log"),
                      cancelHaltMon=threading.Event(), packagePath=args[0])
            try:
                exec(code, ns)
                h.exit_code = 0
            except SystemExit as e:
                h.exit_code = e.code if isinstance(e.code, int) else 1
            except Stuck as e:
                h.crash = "Stuck: %s" % e
            except KeyboardInterrupt:
                h.exit_code = 130
                h.crash = "KeyboardInterrupt"
            except BaseException as e:
                import traceback
                h.exit_code = 1
                h.crash = "%s: %s" % (type(e).__name__, e)
                h.crash_tb = traceback.format_exc()
            if h.exit_code is not None and h.crash is None and h.monitor is not None and not h.monitor["done"]:
                # the launcher is past its final status update and the monitor thread still has an action to perform: it performs it
                # (and overwrites the final status) -- the specification has no such step
                h.monitor_tick()
            if h.crash is not None and h.crash.startswith("Stuck"):
                h.log("Hung", h.crash)
            elif h.crash is not None and h.crash != "KeyboardInterrupt":
                h.log("Crash", h.crash)
            h.log("Exit", h.exit_code)
            sys.stderr.close()
    finally:
        os.chdir(old_cwd)
        for hd in list(root.handlers):
            if hd not in handlers0:
                root.removeHandler(hd)
                try:
                    hd.close()
                except Exception:
                    pass
        try:
            sys.path.remove(ns["compExperiment"].instanceDirectory.location)
        except Exception:
            pass
    h.threads = W.assert_no_threads(base_threads)
    h.final = h.disk_doc()
    return h


def make_package(scen, scratch, name="wf"):
    pk = os.path.join(scratch, "%s.package" % name)
    os.makedirs(os.path.join(pk, "conf"))
    with open(os.path.join(pk, "conf", "flowir_package.yaml"), "w") as f:
        f.write(yaml.safe_dump(scen.flowir(), sort_keys=False))
    return pk


def find_instance(cwd):
    return sorted(d for d in os.listdir(cwd) if d.endswith(".instance"))
