"""Environment of the G05 conformance driver (spec/ExecutorChain.tla, part 2): the pre / main / post executor chain of a task.

In st4sd-runtime-core the only code that RUNS a chain is experiment.runtime.backend_interfaces.lsf.Task: it composes the
ExecutionStack (pre commands given by the caller, then its own; post likewise), renders the three command lines through the
executors classes, hands them to LSF (`preExecCmd`, `command`, `postExecCmd`) and maps what LSF reports back to
(state, exitReason, returncode, isAlive).  (The local / docker / kubernetes back-ends receive `pre` and `post` and drop them.)

What is real:   lsf.Task (__init__, _constructExecutionStack, _submitTask, _requestStatus, status / returncode / exitReason /
                isAlive, terminate / kill), lsf.LSFJobInfo + LSFInfoWrapper (LSF job record -> state / exit reason / return code),
                experiment.model.executors Command / AggregatedCommand / ExecutionStack / MPIExecutor, lsf.DMStageOutCommand.
What is replaced (module attributes of this process only; /repo is not touched):
  * `pythonlsf.lsf` (not installed here): FakeLSF below -- the constants of lsbatch.h, lsb_submit / lsb_openjobinfo /
    lsb_readjobinfo / lsb_deletejob on top of a single-host batch daemon that executes the three command lines it was given
    as REAL `/bin/sh -c` processes in the task's working directory with the submitted environment.  Its rules are the
    documented LSF ones (bsub -E / -Ep): pre-exec first; main only if pre-exec exited 0, else the job exits with
    TERM_PRE_EXEC_FAIL (MAX_PREEXEC_RETRY = 1); post-exec after main whatever main's exit status; the job's status / exit status
    are main's, post-exec only adds JOB_STAT_PDONE / PERR; lsb_deletejob kills whatever runs and removes the record.
  * the processes of the chain are lock-stepped: every step of the scenario is the tiny script `g05step <name>` which reports
    its start through a FIFO and blocks on a second FIFO until the driver hands it its exit code (one fifo per step).  No sleeps, no polling.
  * lsf.LSFRequestArbitrator (4 worker processes + a thread in the original): SyncArbitrator builds the real LSFJobInfo in-line;
    monitor.CreateDeathAction -> nothing; lsf.time.sleep -> nothing; lsf.threading.Thread -> runs its target at start().
"""
import errno
import os
import select
import signal
import stat
import subprocess
import sys
import threading
import time as _time
import types

# ---------------------------------------------------------------------------------------------------------------------
# pythonlsf.lsf stand-in

TERM = ["TERM_UNKNOWN", "TERM_PREEMPT", "TERM_WINDOW", "TERM_LOAD", "TERM_OTHER", "TERM_RUNLIMIT", "TERM_DEADLINE", "TERM_PROCESSLIMIT",
        "TERM_FORCE_OWNER", "TERM_FORCE_ADMIN", "TERM_REQUEUE_OWNER", "TERM_REQUEUE_ADMIN", "TERM_CPULIMIT", "TERM_CHKPNT", "TERM_OWNER",
        "TERM_ADMIN", "TERM_MEMLIMIT", "TERM_EXTERNAL_SIGNAL", "TERM_RMS", "TERM_ZOMBIE", "TERM_SWAP", "TERM_THREADLIMIT", "TERM_SLURM",
        "TERM_BUCKET_KILL", "TERM_CTRL_PID", "TERM_CWD_NOTEXIST", "TERM_REMOVE_HUNG_JOB", "TERM_ORPHAN_SYSTEM", "TERM_PRE_EXEC_FAIL",
        "TERM_DATA", "TERM_MC_RECALL", "TERM_RC_RECLAIM"]
JOB_STAT = dict(JOB_STAT_PEND=0x01, JOB_STAT_PSUSP=0x02, JOB_STAT_RUN=0x04, JOB_STAT_SSUSP=0x08, JOB_STAT_USUSP=0x10, JOB_STAT_EXIT=0x20,
                JOB_STAT_DONE=0x40, JOB_STAT_PDONE=0x80, JOB_STAT_PERR=0x100, JOB_STAT_WAIT=0x200, JOB_STAT_UNKWN=0x10000)
SUB = dict(SUB_QUEUE=0x02, SUB_OUT_FILE=0x10, SUB_RES_REQ=0x40, SUB_PRE_EXEC=0x8000, SUB2_OVERWRITE_OUT_FILE=0x400, SUB2_USE_RSV=0x800000,
           SUB2_MODIFY_PEND_JOB=0x4000, SUB3_CWD=0x80, SUB3_POST_EXEC=0x04, SUB3_APP=0x01, SUB4_SUBMISSION_ENV_VARS=0x20000,
           SUB4_DATA_STAGING_REQ=0x4000, SUB4_OUTDIR=0x800, SUB4_GPU_REQ=0x400000)


class _Rec:
    def __init__(self, **kw):
        self.__dict__.update(kw)


class FakeLSF:
    """The module object that stands for pythonlsf.lsf AND the batch daemon behind it."""

    def __init__(self):
        self.jobs = {}
        self.nextid = 100
        self._open = None
        self.calls = []
        self.submit_fails = False

    # -- lsbatch API -------------------------------------------------------------------------------------------------
    def lsb_init(self, name):
        return 0

    def submit(self):
        return _Rec(options=0, options2=0, options3=0, options4=0, preExecCmd="", postExecCmd="", command="", resReq="", rLimits=None,
                    beginTime=0, termTime=0, outFile="", errFile="", queue="", cwd="", subEnvVars="", numProcessors=1, maxNumProcessors=1,
                    rsvId=None, app=None, outdir=None, dataSpecFile=None)

    def submitReply(self):
        return _Rec(queue="", badJobId=0, badJobName="")

    def lsb_submit(self, req, reply):
        self.calls.append("submit")
        if self.submit_fails:
            return -1
        jid = self.nextid
        self.nextid += 1
        self.jobs[jid] = Job(jid, req)
        return jid

    def lsb_openjobinfo(self, jobId, a, b, c, d, flags):
        if jobId not in self.jobs:
            self._open = None
            return -1
        self._open = self.jobs[jobId]
        return 1

    def lsb_readjobinfo(self, x):
        j = self._open
        return j.record() if j is not None else None

    def lsb_closejobinfo(self):
        self._open = None

    def lsb_deletejob(self, jobId, a, b):
        self.calls.append("delete")
        j = self.jobs.pop(jobId, None)
        if j is None:
            return -1
        j.kill_all()
        return 0

    def lsb_errno(self):
        return 1

    def lsb_perror(self, msg):
        pass


def make_module():
    m = FakeLSF()
    m.THIS_VERSION = "10.1"
    for i, n in enumerate(TERM):
        setattr(m, n, i)
    for d in (JOB_STAT, SUB):
        for k, v in d.items():
            setattr(m, k, v)
    m.LSF_RLIM_NLIMITS, m.DEFAULT_RLIMIT, m.LSF_RLIMIT_RUN = 12, -1, 9
    m.ALL_JOB, m.LSBE_BAD_HOST = 0x01, 46
    return m


class Job:
    """One job of the fake daemon.  phase: pend -> pre -> main -> post -> over (or gone after lsb_deletejob)."""

    def __init__(self, jid, req):
        self.jid = jid
        self.req = _Rec(**req.__dict__)
        self.phase = "pend"
        self.status = JOB_STAT["JOB_STAT_PEND"]
        self.exitStatus = 0
        self.exitInfo = 0
        self.proc = None
        self.dstJobId = 0
        self.ran = []          # phases that were started: "pre", "main", "post"

    def record(self):
        ru = _Rec(power=0, npids=1, nthreads=1, utime=0, stime=0, mem=0, swap=0)
        return _Rec(status=self.status, exitStatus=self.exitStatus, exitInfo=self.exitInfo, jobPid=0, dstCluster="", dstJobId=self.dstJobId,
                    submit=_Rec(outFile=self.req.outFile, errFile=self.req.errFile), runRusage=ru, cpuTime=0, runTime=0, maxMem=0, avgMem=0,
                    numExHosts=1, numToHosts4Slots=1, brunJobTime=0, duration=0, submitTime=1, reserveTime=0, startTime=0, endTime=0, fwdTime=0)

    def environment(self, base):
        env = dict(base)
        for item in (self.req.subEnvVars or "").split(","):
            if "=" in item:
                k, v = item.split("=", 1)
                env[k] = v
        return env

    def spawn(self, cmdline, base_env):
        self.proc = subprocess.Popen(["/bin/sh", "-c", cmdline], cwd=self.req.cwd, env=self.environment(base_env), stdin=subprocess.DEVNULL,
                                     stdout=subprocess.DEVNULL, stderr=subprocess.DEVNULL, start_new_session=True)
        return self.proc

    def kill_all(self):
        if self.proc is not None and self.proc.poll() is None:
            try:
                os.killpg(self.proc.pid, signal.SIGKILL)
            except ProcessLookupError:
                pass
            self.proc.wait()
        self.phase = "gone"


# ---------------------------------------------------------------------------------------------------------------------
# installation

_STATE = {}


class _TimeShim:
    def sleep(self, s):
        pass

    def __getattr__(self, n):
        return getattr(_time, n)


class _SyncThread:
    def __init__(self, target=None, args=(), kwargs=None, name=None, daemon=None):
        self._t, self._a, self._k = target, args, kwargs or {}
        self.name = name
        self.daemon = daemon

    def start(self):
        self._t(*self._a, **self._k)

    def join(self, timeout=None):
        pass


class _ThreadingShim:
    Thread = _SyncThread

    def __getattr__(self, n):
        return getattr(threading, n)


class SyncArbitrator:
    """Stands for lsf.LSFRequestArbitrator: what RequestHandler + processWorkers do for one request, done in-line."""

    def __init__(self, lsfmod):
        self.lsfmod = lsfmod
        self.last = {}

    def getJobInfo(self, jobId):
        try:
            self.last[jobId] = self.lsfmod.LSFJobInfo(int(jobId))
        except self.lsfmod.LSFHostUnreachableError:
            pass
        except self.lsfmod.LSFUnknownJobIdError as e:
            self.last[jobId] = e
        return self.last.get(jobId)

    def cleanJobInfo(self, jobId):
        self.last.pop(jobId, None)


def install():
    """-> (the real lsf back-end module, the fake pythonlsf.lsf object).  Idempotent."""
    if "lsfmod" in _STATE:
        return _STATE["lsfmod"], _STATE["fake"]
    fake = make_module()
    pkg = types.ModuleType("pythonlsf")
    pkg.lsf = fake
    sys.modules["pythonlsf"] = pkg
    sys.modules["pythonlsf.lsf"] = fake
    import importlib
    already = "experiment.runtime.backend_interfaces.lsf" in sys.modules
    from . import realenv  # noqa: F401   (silences logging)
    import experiment.runtime.backend_interfaces.lsf as lsfmod
    if already and lsfmod.lsf is not fake:
        lsfmod = importlib.reload(lsfmod)
    if lsfmod.lsf is not fake:
        raise RuntimeError("the lsf back-end did not pick up the stand-in for pythonlsf")
    import experiment.runtime.monitor
    lsfmod.time = _TimeShim()
    lsfmod.threading = _ThreadingShim()
    lsfmod.experiment.runtime.monitor.CreateDeathAction = lambda *a, **k: (lambda: None)
    lsfmod.LSFRequestArbitrator.defaultArbitrator = SyncArbitrator(lsfmod)
    _STATE["lsfmod"], _STATE["fake"] = lsfmod, fake
    return lsfmod, fake


# ---------------------------------------------------------------------------------------------------------------------
# fixture: the step script and the tools the task's own steps call

STEP_NAMES = ["pre1", "pre2", "pre3", "main", "post1", "post2", "post3"]
STEP = """#!/bin/sh
# g05step NAME : announce the start, then wait for the exit code the driver decides
echo "$1:$G05_MARK" > "$G05_DIR/evt"
read rc < "$G05_DIR/ctl.$1"
exit $rc
"""
MPIRUN = """#!/bin/sh
# stands for OpenMPI's mpirun: 12 option words, then the target command line
shift 12
exec "$@"
"""
NOOP = "#!/bin/sh\nexit 0\n"
BDATA = """#!/bin/sh
# stands for `bdata cache -dmd <cluster> <job>`: the transfer table the driver wrote
cat "%s/bdata.txt"
"""
XFER = """OUTPUT TRANSFER
/remote/wd/out.stdout
TO
host:/local/wd/out.stdout

SIZE, MODIFIED, STATUS
10, today, %s
"""


def make_fixture(d):
    os.makedirs(os.path.join(d, "bin"), exist_ok=True)
    for name, text in (("g05step", STEP), ("mpirun", MPIRUN), ("bstage", NOOP), ("sleep", NOOP), ("bdata", BDATA % d)):
        p = os.path.join(d, "bin", name)
        with open(p, "w") as f:
            f.write(text)
        os.chmod(p, 0o755)
    # one control fifo per step: a write for one step can never be seen by the next one (the driver may still hold its write end
    # open when the shell has already started the next step), nor be swallowed by a reader that is being killed
    for f in ["evt"] + ["ctl.%s" % n for n in STEP_NAMES]:
        p = os.path.join(d, f)
        if not os.path.exists(p):
            os.mkfifo(p)
    os.makedirs(os.path.join(d, "wd"), exist_ok=True)
    with open(os.path.join(d, "hostfile"), "w") as f:
        f.write("host0\n")
    return d


class Stuck(Exception):
    """the processes of the chain neither announce a step nor exit (machinery failure or a hung real command)"""


class ChainDriver:
    """One real lsf.Task over the fake daemon.  Scenario parameters:
         npre / npost  number of caller-given pre / post commands (each one lock-stepped `g05step preK` / `g05step postK`)
         mpi           numberProcesses = 2 (the task wraps main in mpirun and adds its rank-file step)
         hybrid        isHybrid = True (the task adds its "started" notification and a default stage-out)
         lsfnew        LSF_VERSION > 9.12 (older versions have no pre-exec option)
         hostfile      the affinity host file LSF provides exists (the task's own last pre step `cat`s it)
    """

    def __init__(self, d, npre=1, npost=1, mpi=False, hybrid=False, lsfnew=True, hostfile=True):
        self.lsfmod, self.fake = install()
        self.d = make_fixture(d)
        self.p = dict(npre=npre, npost=npost, mpi=mpi, hybrid=hybrid, lsfnew=lsfnew, hostfile=hostfile)
        self.task = None
        self.job = None
        self.evt = os.open(os.path.join(self.d, "evt"), os.O_RDONLY | os.O_NONBLOCK)
        self.evt_w = os.open(os.path.join(self.d, "evt"), os.O_WRONLY)      # keeps the fifo from reporting hang-up between steps
        self.buf = b""
        self.running = None      # name of the step blocked on ctl
        self.announced = []      # every step that announced its start, in order
        self.marks = {}          # step -> value of G05_MARK it saw (main: the task's environment reached the process)
        self.path0 = os.environ.get("PATH", "")
        os.environ["PATH"] = os.path.join(self.d, "bin") + ":" + self.path0      # `bdata` for LSFJobInfo.outputsTransferStatus
        self.phase_rc = None
        self.out = None

    # -- construction ------------------------------------------------------------------------------------------------
    def _step(self, name):
        X = self.lsfmod.experiment.model.executors
        return X.Command(os.path.join(self.d, "bin", "g05step"), name, workingDir=os.path.join(self.d, "wd"),
                         environment={}, resolveShellSubstitutions=False)

    def base_env(self):
        e = {"PATH": os.path.join(self.d, "bin") + ":/usr/bin:/bin", "G05_DIR": self.d,
             "LSB_AFFINITY_HOSTFILE": os.path.join(self.d, "hostfile" if self.p["hostfile"] else "nohostfile"),
             "LSB_RANK_HOSTFILE": os.path.join(self.d, "hostfile"), "LS_EXECCWD": os.path.join(self.d, "wd")}
        return e

    def submit(self):
        """Task(...) = compose the stack + lsb_submit.  -> the submit request as the daemon received it"""
        X = self.lsfmod.experiment.model.executors
        wd = os.path.join(self.d, "wd")
        env = {"G05_DIR": self.d, "G05_MARK": "from-task-env"}
        if self.p["mpi"]:
            env["LSF_MPIRUN"] = os.path.join(self.d, "bin", "mpirun")
            env["LSF_MPITYPE"] = "openmpi"
        main = X.Command(os.path.join(self.d, "bin", "g05step"), "main", workingDir=wd, environment=env, resolvePath=False)
        pre = [self._step("pre%d" % (i + 1)) for i in range(self.p["npre"])]
        post = [self._step("post%d" % (i + 1)) for i in range(self.p["npost"])]
        self.lsfmod.LSF_VERSION = 10.1 if self.p["lsfnew"] else 9.11
        self.out = open(os.path.join(self.d, "out.stdout"), "w+b")
        self.task = self.lsfmod.Task(main, preCommands=pre, postCommands=post, options={"queue": "normal", "statusRequestInterval": 0},
                                     resourceRequest={"numberProcesses": 2 if self.p["mpi"] else 1, "ranksPerNode": 1, "numberThreads": 1, "threadsPerCore": 1},
                                     stdout=self.out, stderr=self.out, isHybrid=self.p["hybrid"], checkCWD=True)
        self.job = self.fake.jobs.get(self.task.taskid)
        return self.job.req if self.job is not None else None

    # -- the daemon's side, driven step by step ------------------------------------------------------------------------
    def _await(self):
        """Block until the running phase process announces a step (-> name) or exits (-> None, phase_rc set)."""
        proc = self.job.proc
        pfd = os.pidfd_open(proc.pid)
        try:
            po = select.poll()
            po.register(self.evt, select.POLLIN)
            po.register(pfd, select.POLLIN)
            while True:
                if b"\n" in self.buf:
                    line, self.buf = self.buf.split(b"\n", 1)
                    name, _, mark = line.decode().partition(":")
                    self.running = name
                    self.announced.append(name)
                    self.marks[name] = mark
                    return self.running
                ev = dict(po.poll(60000))
                if not ev:
                    raise Stuck("no step announced and no exit within 60 s (phase %s); processes: %s" % (self.job.phase, self._diagnose()))
                # an announcement written just before the exit wins: always drain the fifo first
                try:
                    chunk = os.read(self.evt, 4096)
                except BlockingIOError:
                    chunk = b""
                if chunk:
                    self.buf += chunk
                    continue
                if pfd in ev:
                    proc.wait()
                    self.running = None
                    self.phase_rc = proc.returncode
                    return None
        finally:
            os.close(pfd)

    def _diagnose(self):
        out = []
        try:
            sid = os.getsid(self.job.proc.pid)
            for pid in os.listdir("/proc"):
                if pid.isdigit():
                    try:
                        if os.getsid(int(pid)) == sid:
                            with open("/proc/%s/cmdline" % pid) as f:
                                cmd = f.read().replace("\0", " ")[:150]
                            with open("/proc/%s/wchan" % pid) as f:
                                wch = f.read()
                            out.append("%s [%s] %s" % (pid, wch, cmd))
                    except OSError:
                        pass
        except OSError as e:
            out.append(str(e))
        return out

    def start_phase(self, phase):
        """The daemon starts the pre-exec / main / post-exec command line.  -> first announced step or None (it ran to its end)"""
        j = self.job
        cmd = {"pre": j.req.preExecCmd, "main": j.req.command, "post": j.req.postExecCmd}[phase]
        j.phase = phase
        j.ran.append(phase)
        if phase in ("pre", "main"):
            j.status = JOB_STAT["JOB_STAT_RUN"]
        self.phase_rc = None
        j.spawn(cmd, self.base_env())
        return self._await()

    def step_exit(self, rc):
        """The running step exits with rc.  -> next announced step, or None when the phase process ended (phase_rc)"""
        # the step opens the fifo for reading right after its announcement: wait for that (or for the death of the process)
        path = os.path.join(self.d, "ctl.%s" % self.running)
        pfd = os.pidfd_open(self.job.proc.pid)
        try:
            po = select.poll()
            po.register(pfd, select.POLLIN)
            waited = 0
            while True:
                try:
                    fd = os.open(path, os.O_WRONLY | os.O_NONBLOCK)
                    break
                except OSError as e:
                    if e.errno != errno.ENXIO:
                        raise
                if po.poll(2):
                    raise Stuck("step %s died without taking its exit code (process exit %s)" % (self.running, self.job.proc.wait()))
                waited += 2
                if waited > 60000:
                    raise Stuck("step %s never opened its control fifo" % self.running)
        finally:
            os.close(pfd)
        os.write(fd, ("%d\n" % rc).encode())
        os.close(fd)
        self.running = None
        return self._await()

    def signal_main(self, sig):
        os.killpg(self.job.proc.pid, sig)
        self.job.proc.wait()
        self.running = None
        self.phase_rc = self.job.proc.returncode
        return None

    def has(self, flag, word="options"):
        return bool(getattr(self.job.req, word) & SUB[flag])

    def end_pre(self):
        """pre-exec ended with phase_rc: the job exits (TERM_PRE_EXEC_FAIL) or main may start"""
        j = self.job
        if self.phase_rc != 0:
            j.status, j.exitStatus, j.exitInfo, j.phase = JOB_STAT["JOB_STAT_EXIT"], (self.phase_rc & 0xff) << 8, TERM.index("TERM_PRE_EXEC_FAIL"), "over"
            return False
        j.phase = "prepared"
        return True

    def end_main(self, how=None):
        """main ended: how = None (exit code / signal of the process), "runlimit", "owner" (bkill by the owner) """
        j = self.job
        rc = self.phase_rc
        if how == "runlimit":
            j.status, j.exitStatus, j.exitInfo = JOB_STAT["JOB_STAT_EXIT"], 140 << 8, TERM.index("TERM_RUNLIMIT")
        elif how == "owner":
            j.status, j.exitStatus, j.exitInfo = JOB_STAT["JOB_STAT_EXIT"], 130 << 8, TERM.index("TERM_OWNER")
        elif rc < 0:
            j.status, j.exitStatus, j.exitInfo = JOB_STAT["JOB_STAT_EXIT"], -rc, TERM.index("TERM_EXTERNAL_SIGNAL")
        elif rc == 0:
            j.status, j.exitStatus, j.exitInfo = JOB_STAT["JOB_STAT_DONE"], 0, 0
        else:
            j.status, j.exitStatus, j.exitInfo = JOB_STAT["JOB_STAT_EXIT"], rc << 8, 0
        j.phase = "mainover"
        if self.p["hybrid"]:
            # the job ran on the remote cluster: its outputs come back through the data manager, some time later
            j.dstJobId = 7
            with open(os.path.join(self.d, "bdata.txt"), "w") as f:
                f.write(XFER % "NEW")

    def transfer_done(self):
        with open(os.path.join(self.d, "bdata.txt"), "w") as f:
            f.write(XFER % "TRANSFERRED")

    def remove(self):
        """someone else removes the job from the batch system (bkill -r)"""
        j = self.fake.jobs.pop(self.job.jid, None)
        if j is not None:
            j.kill_all()
        self.running = None

    def end_post(self):
        j = self.job
        j.status |= JOB_STAT["JOB_STAT_PDONE"] if self.phase_rc == 0 else JOB_STAT["JOB_STAT_PERR"]
        j.phase = "over"

    def finish_without_post(self):
        self.job.phase = "over"

    # -- the task's side ---------------------------------------------------------------------------------------------
    def kill(self):
        self.task.kill()
        self.running = None

    def poll(self):
        t = self.task
        return {"state": t.status, "reason": t.exitReason, "rc": t.returncode, "alive": t.isAlive()}

    def files(self):
        wd = os.path.join(self.d, "wd")
        return sorted(f for f in os.listdir(wd))

    def world(self):
        """what can be seen of the chain from outside the task"""
        if self.task is None:
            phase = "new"
        elif self.job is None or self.job.jid not in self.fake.jobs:
            phase = "gone"
        else:
            phase = self.job.phase
        own = {"djobs.txt", "affinity.txt", "started.txt", "environment.txt"}
        return {"phase": phase, "cur": self.running or "-", "started": list(self.announced), "files": sorted(own & set(self.files()))}

    def close(self):
        try:
            if self.job is not None:
                self.job.kill_all()
            for j in list(self.fake.jobs.values()):
                j.kill_all()
            self.fake.jobs.clear()
        finally:
            os.environ["PATH"] = self.path0
            for fd in (self.evt, self.evt_w):
                try:
                    os.close(fd)
                except OSError:
                    pass
            if self.out is not None:
                self.out.close()
            if self.task is not None:
                try:
                    self.task.stdout.close()
                except Exception:
                    pass
