"""G06 world: the REAL experiment.runtime.backend_interfaces.k8s.NativeScheduledTask over a fake Kubernetes cluster.

What is real: NativeScheduledTask (construction through the real KubernetesTaskGenerator / appenv.KubernetesConfiguration and a
real executors.Command), its rx polling pipeline, the whole `kubernetes` python client (BatchV1Api / CoreV1Api, ApiClient,
(de)serialisation into V1Job / V1PodList / ..., RESTClientObject.request incl. its status -> ApiException mapping).
What is fake: the urllib3 pool manager below RESTClientObject (`FakePool.request`): it routes the HTTP requests to a scripted
cluster model (`Cluster`) that answers with the JSON documents an API server would send; the rx scheduler of the polling
pipeline (a `Lane` of harness.world: nothing runs until the driver pops the tick), time.sleep / datetime.now / random.randint
of the k8s module (virtual clock).  No thread is created, no wall-clock sleep happens.

A *step* of the task (a tick of the polling interval, kill(), terminate(), wait() interrupted by ^C, construction) runs to its
end on the caller's stack; the driver scripts what the API does during the step:  Script(fail_from, kind, mid)
  - the HTTP requests of the step are numbered 1, 2, ...; requests number >= fail_from fail with `kind`
    (e503: 503 ServiceUnavailable, e504: 504 Gateway Timeout (the code retries those), conn: connection refused (urllib3
    MaxRetryError, retried too), e403: 403 Forbidden)
  - mid = (n, [cluster events]): the cluster events happen right after request number n was answered (the cluster changes
    between two requests of one poll)
"""
import datetime
import io
import json
import logging
import os
import re
import shutil

import urllib3.exceptions

from . import world as W

EPOCH = W.EPOCH
NS = "g06ns"
IMAGE = "registry.example/g06/app:1"
UNIT = 5.0                      # seconds per time unit of the specification
INTERVAL_UNITS = 20             # polling interval used by the harness: 100 s


def ts(secs):
    return (EPOCH + datetime.timedelta(seconds=secs)).strftime("%Y-%m-%dT%H:%M:%SZ")


class FakeHTTPResponse(io.IOBase):
    def __init__(self, status, reason, data, ctype="application/json"):
        self.status = status
        self.reason = reason
        self.data = data if isinstance(data, bytes) else data.encode()
        self.headers = {"content-type": ctype}

    def getheaders(self):
        return dict(self.headers)

    def getheader(self, name, default=None):
        return self.headers.get(name.lower(), default)


STATUS_REASON = {404: ("Not Found", "NotFound"), 403: ("Forbidden", "Forbidden"), 409: ("Conflict", "AlreadyExists"),
                 503: ("Service Unavailable", "ServiceUnavailable"), 504: ("Gateway Timeout", "Timeout"),
                 500: ("Internal Server Error", "InternalError"), 422: ("Unprocessable Entity", "Invalid")}


def failure(code, message="scripted"):
    http_reason, k8s_reason = STATUS_REASON[code]
    body = {"kind": "Status", "apiVersion": "v1", "metadata": {}, "status": "Failure", "message": message, "reason": k8s_reason, "code": code}
    return FakeHTTPResponse(code, http_reason, json.dumps(body))


class Script:
    def __init__(self, fail_from=None, kind=None, mid=None):
        self.fail_from = fail_from if fail_from else 10 ** 9
        self.kind = kind
        self.mid = mid          # (n, [events])


class Cluster:
    """The scripted cluster.  job: dict(st=...) ; pods: list of abstract pod records (see render_pod)."""

    def __init__(self, world):
        self.world = world
        self.job = {"st": "none"}
        self.jobname = None
        self.body = None            # the Job document the task submitted
        self.pods = []
        self.npods = 0
        self.script = Script()
        self.n = 0
        self.calls = []             # names of the requests of the current step
        self.all_calls = []
        self.deletes_ok = 0
        self.creates_ok = 0
        self.unexpected = []

    # ---- scripting --------------------------------------------------------------------------------------------
    def begin_step(self, script=None):
        self.script = script or Script()
        self.n = 0
        self.calls = []

    def apply(self, ev):
        """cluster events (environment actions of the specification): ('job', st) | ('pods', [records])"""
        what, val = ev
        if what == "job":
            self.job = dict(self.job, st=val, since=self.world.now)
        elif what == "pods":
            old = {p.get("id"): p for p in self.pods}
            new = []
            for p in val:
                p = dict(p)
                if p.get("id") is None:
                    self.npods += 1
                    p["id"] = self.npods
                new.append(p)
            self.pods = new
        else:
            raise ValueError(ev)

    # ---- documents --------------------------------------------------------------------------------------------
    def render_job(self):
        st = self.job["st"]
        t = ts(self.job.get("since", 0))
        status = {}
        if st in ("active", "idle", "complete", "failed", "other", "otherok"):
            status["startTime"] = ts(0)
        if st == "active":
            status["active"] = 1
        if st == "idle":
            status["active"] = 0
        if st == "complete":
            status.update(succeeded=1, completionTime=t, conditions=[{"type": "Complete", "status": "True", "lastTransitionTime": t, "lastProbeTime": t}])
        if st == "failed":
            status.update(failed=1, conditions=[{"type": "Failed", "status": "True", "reason": "BackoffLimitExceeded", "lastTransitionTime": t, "lastProbeTime": t,
                                                  "message": "Job has reached the specified backoff limit"}])
        if st == "other":       # the two-phase termination of recent job controllers: FailureTarget, then Failed (same second)
            status.update(failed=1, conditions=[
                {"type": "FailureTarget", "status": "True", "reason": "BackoffLimitExceeded", "lastTransitionTime": t, "lastProbeTime": t},
                {"type": "Failed", "status": "True", "reason": "BackoffLimitExceeded", "lastTransitionTime": t, "lastProbeTime": t}])
        if st == "otherok":
            status.update(succeeded=1, completionTime=t, conditions=[
                {"type": "SuccessCriteriaMet", "status": "True", "reason": "CompletionsReached", "lastTransitionTime": t, "lastProbeTime": t},
                {"type": "Complete", "status": "True", "reason": "CompletionsReached", "lastTransitionTime": t, "lastProbeTime": t}])
        doc = {"kind": "Job", "apiVersion": "batch/v1", "metadata": {"name": self.jobname, "namespace": NS, "uid": "job-uid-1", "creationTimestamp": ts(0)},
               "spec": (self.body or {}).get("spec", {}), "status": status}
        return doc

    def render_pod(self, p):
        name = "%s-%d" % (self.jobname, p["id"])
        meta = {"name": name, "namespace": NS, "labels": {"job-name": self.jobname}, "creationTimestamp": ts(0)}
        if p.get("del"):
            meta["deletionTimestamp"] = ts(self.world.now)
            meta["deletionGracePeriodSeconds"] = 30
        status = {"hostIP": "10.0.0.%d" % p["id"]}
        if p["ph"] != "None":
            status["phase"] = p["ph"]
        if p["prs"] != "none":
            status["reason"] = p["prs"]
            status["message"] = "pod was %s" % p["prs"]

        def cstatus(state, i=0):
            return {"name": "c%d" % i, "image": IMAGE, "imageID": "registry.example/g06/app@sha256:" + "ab" * 32, "ready": False, "restartCount": 0,
                    "started": "running" in state, "state": state}
        cs = p["cs"]
        if cs == "waiting":
            status["containerStatuses"] = [cstatus({"waiting": {"reason": "ContainerCreating"}})]
        elif cs == "errpull":
            status["containerStatuses"] = [cstatus({"waiting": {"reason": "ErrImagePull", "message": "rpc error: pull access denied"}})]
        elif cs == "running":
            status["containerStatuses"] = [cstatus({"running": {"startedAt": ts(1)}})]
        elif cs == "two":
            status["containerStatuses"] = [cstatus({"running": {"startedAt": ts(1)}}, 0), cstatus({"running": {"startedAt": ts(1)}}, 1)]
        elif cs == "term":
            term = {"exitCode": p["code"], "finishedAt": ts(2), "containerID": "cri-o://x"}
            if p["tst"]:
                term["startedAt"] = ts(1)
            if p["trs"] != "none":
                term["reason"] = p["trs"]
            if p["sig"]:
                term["signal"] = p["sig"]
            status["containerStatuses"] = [cstatus({"terminated": term})]
        elif cs != "nocs":
            raise ValueError(cs)
        return {"kind": "Pod", "apiVersion": "v1", "metadata": meta, "spec": {"containers": [{"name": "c0", "image": IMAGE}], "nodeName": "n%d" % p["id"]},
                "status": status}

    # ---- the API server ----------------------------------------------------------------------------------------
    def handle(self, method, path, body):
        m = re.fullmatch(r"/apis/batch/v1/namespaces/%s/jobs(?:/([^/]+))?" % NS, path)
        if m:
            name = m.group(1)
            if method == "POST" and name is None:
                self.jobname = body["metadata"]["name"]
                self.body = body
                self.job = {"st": "new", "since": self.world.now}
                self.creates_ok += 1
                return "create_job", FakeHTTPResponse(201, "Created", json.dumps(self.render_job()))
            gone = self.job["st"] in ("none", "gone") or name != self.jobname
            if method == "GET":
                if gone:
                    return "read_job", failure(404, 'jobs.batch "%s" not found' % name)
                return "read_job", FakeHTTPResponse(200, "OK", json.dumps(self.render_job()))
            if method == "DELETE":
                if gone:
                    return "delete_job", failure(404, 'jobs.batch "%s" not found' % name)
                self.delete_body = body
                self.job = {"st": "gone", "since": self.world.now}
                self.pods = [dict(p, **{"del": True}) for p in self.pods]         # background propagation: the pods are terminating
                self.deletes_ok += 1
                return "delete_job", FakeHTTPResponse(200, "OK", json.dumps({"kind": "Status", "apiVersion": "v1", "status": "Success", "details": {"name": name, "kind": "jobs"}}))
        if method == "GET" and path == "/api/v1/namespaces/%s/pods" % NS:
            items = [self.render_pod(p) for p in self.pods]
            return "list_pods", FakeHTTPResponse(200, "OK", json.dumps({"kind": "PodList", "apiVersion": "v1", "metadata": {"resourceVersion": "1"}, "items": items}))
        m = re.fullmatch(r"/api/v1/namespaces/%s/pods/([^/]+)/log" % NS, path)
        if method == "GET" and m:
            if not any("%s-%d" % (self.jobname, p["id"]) == m.group(1) for p in self.pods):
                return "read_log", failure(404, "pods \"%s\" not found" % m.group(1))
            return "read_log", FakeHTTPResponse(200, "OK", b"log of %s\n" % m.group(1).encode(), ctype="text/plain")
        if method == "GET" and path == "/api/v1/namespaces/%s/events" % NS:
            return "list_events", FakeHTTPResponse(200, "OK", json.dumps({"kind": "EventList", "apiVersion": "v1", "metadata": {}, "items": []}))
        self.unexpected.append((method, path))
        return "unknown", failure(404, "no such route")

    NAMES = [("POST", r"/jobs$", "create_job"), ("GET", r"/jobs/", "read_job"), ("DELETE", r"/jobs/", "delete_job"), ("GET", r"/pods$", "list_pods"),
             ("GET", r"/log$", "read_log"), ("GET", r"/events$", "list_events")]

    def name_of(self, method, path):
        for m, rx, name in self.NAMES:
            if m == method and re.search(rx, path):
                return name
        return "unknown"

    def request(self, method, url, body=None):
        path = re.sub(r"^https?://[^/]+", "", url).split("?")[0]
        self.n += 1
        sc = self.script
        name = self.name_of(method, path)
        try:
            blip = (sc.kind or "").startswith("blip")
            if (self.n == sc.fail_from) if blip else (self.n >= sc.fail_from):
                self.calls.append(name + "!")
                self.all_calls.append(name + "!")
                kind = sc.kind[4:] if blip else sc.kind
                if kind == "conn":
                    raise urllib3.exceptions.MaxRetryError(None, url, reason="connection refused (scripted)")
                return failure({"e503": 503, "503": 503, "e504": 504, "504": 504, "e500": 500, "e403": 403, "e409": 409}[kind])
            name, resp = self.handle(method, path, json.loads(body) if body else None)
            self.calls.append(name)
            self.all_calls.append(name)
            return resp
        finally:
            if sc.mid and sc.mid[0] == self.n:
                for ev in sc.mid[1]:
                    self.apply(ev)


class FakePool:
    def __init__(self, cluster):
        self.cluster = cluster

    def request(self, method, url, fields=None, body=None, preload_content=True, timeout=None, headers=None, **kw):
        return self.cluster.request(method, url, body)

    def clear(self):
        pass


class _Datetime:
    """stands in for the `datetime` module inside k8s.py: datetime.datetime.now() is the virtual clock"""
    timedelta = datetime.timedelta

    def __init__(self, world):
        outer = self

        class VDateTime(datetime.datetime):
            @classmethod
            def now(cls, tz=None):
                return EPOCH + datetime.timedelta(seconds=world.now)
        self.datetime = VDateTime
        self.date = datetime.date
        self.timezone = datetime.timezone


class _Time:
    def __init__(self, world, hooks):
        self.world = world
        self.hooks = hooks
        import time as _t
        self.time = _t.time
        self.strftime = _t.strftime

    def sleep(self, s):
        h = self.hooks.get("sleep")
        if h is not None:
            h(s)
        self.world.now += s
        self.hooks.setdefault("slept", []).append(s)


class _Random:
    def randint(self, a, b):
        return a


class StillWaiting(BaseException):
    pass


class Installed:
    """Puts the fake cluster below the kubernetes client and the virtual clock / lane below k8s.py."""
    current = None

    def __init__(self):
        self.world = W.World()
        self.cluster = Cluster(self.world)
        self.hooks = {}
        self.saved = []

    def _set(self, obj, attr, value):
        self.saved.append((obj, attr, getattr(obj, attr)))
        setattr(obj, attr, value)

    def __enter__(self):
        import kubernetes.client.rest as rest
        import kubernetes.config
        import experiment.runtime.backend_interfaces.k8s as k8s
        import experiment.runtime.utilities.rx as urx
        import experiment.appenv
        inst = self
        real_init = rest.RESTClientObject.__init__

        def fake_init(this, configuration, pools_size=4, maxsize=None):
            this.pool_manager = FakePool(inst.cluster)
        self._set(rest.RESTClientObject, "__init__", fake_init)

        def no_incluster(*a, **k):
            raise kubernetes.config.ConfigException("not in a cluster (g06 world)")
        self._set(kubernetes.config, "load_incluster_config", no_incluster)
        self.lane = W.Lane(self.world, "k8spool")
        self._set(k8s, "poolK8SNativeTasks", self.lane)
        self._set(k8s.NativeScheduledTask, "poolK8SNativeTasks", self.lane)
        self._set(k8s, "datetime", _Datetime(self.world))
        self._set(k8s, "time", _Time(self.world, self.hooks))
        self._set(k8s, "random", _Random())
        self._set(k8s, "ImageRegistry", {})
        self._set(experiment.appenv.KubernetesConfiguration, "defaultConf", None)
        import pprint
        self._set(pprint, "pformat", lambda *a, **k: "")       # only used for log messages (two thirds of the construction time)
        Installed.current = self
        return self

    def __exit__(self, *exc):
        for obj, attr, val in reversed(self.saved):
            setattr(obj, attr, val)
        Installed.current = None
        return False


APPENV = {
    "objectmeta": {"namespace": NS, "labels": {"workflow": "wf-g06", "extra": "x"}},
    "spec": {"serviceaccountname": "sa-g06", "imagepullsecrets": [{"name": "pullsecret"}],
             "volumes": [{"name": "working-volume", "volumesource": {"persistentvolumeclaim": {"claimname": "pvc-g06"}}}],
             "containers": [{"name": "elaunch-primary", "volumemounts": [{"name": "working-volume", "mountpath": "/tmp/workdir"}]}]},
}

FINAL = ("finished", "failed")


class Driver:
    """One real NativeScheduledTask on the fake cluster."""

    def __init__(self, d, gc="none", archive="none", walltime=7.0):
        self.d = d
        shutil.rmtree(d, ignore_errors=True)
        os.makedirs(os.path.join(d, "wd"))
        self.inst = Installed()
        self.inst.__enter__()
        self.world = self.inst.world
        self.cluster = self.inst.cluster
        self.gc, self.archive, self.walltime = gc, archive, walltime
        self.task = None
        self.raised = None
        self.last_tick_start = 0.0
        self.closed = False
        self.archive_calls = 0

    def configure(self, gc, archive):
        self.gc, self.archive = gc, archive

    def raised_sticky(self):
        return "none"

    def close(self):
        if not self.closed:
            self.closed = True
            t = self.task
            try:
                if t is not None and t.stdout is not None and not t.stdout.closed:
                    t.stdout.close()
            except Exception:
                pass
            self.inst.__exit__()

    # ---- steps --------------------------------------------------------------------------------------------------
    def _run(self, fn, script):
        self.cluster.begin_step(script)
        self.raised = None
        self.inst.hooks["slept"] = []
        try:
            fn()
        except StillWaiting:
            self.raised = "StillWaiting"
        except KeyboardInterrupt:
            self.raised = "KeyboardInterrupt"
        except Exception as e:      # noqa: what escapes from the real call is part of the projection
            self.raised = type(e).__name__
        return self.obs()

    def construct(self, script=None, cache_image=True, light=False):
        import experiment.appenv
        import experiment.model.executors
        import experiment.runtime.backends_base as bb
        import experiment.runtime.backend_interfaces.k8s as k8s
        experiment.appenv.KubernetesConfiguration.newDefaultConfiguration(json.loads(json.dumps(APPENV)), garbage_collect=self.gc, archive_objects=self.archive)
        wd = os.path.join(self.d, "wd")
        cmd = experiment.model.executors.Command("/bin/app", arguments="-n 3 'a b'", workingDir=wd, environment={"FOO": "bar"}, resolvePath=False,
                                                 resolveShellSubstitutions=False)
        rm = {"config": {"walltime": self.walltime, "backend": "kubernetes"},
              "kubernetes": {"image": IMAGE, "qos": "guaranteed", "gracePeriod": 30, "cpuUnitsPerCore": 1.0, "image-pull-secret": None, "podSpec": None}}

        def fn():
            if light:
                self.task = bb.LightWeightKubernetesTaskGenerator(cmd, resourceManager=rm, outputFile=os.path.join(self.d, "out.txt"), label="comp#0",
                                                                  flowKubeEnvironment=None, pollingInterval=INTERVAL_UNITS * UNIT)
            elif cache_image:
                self.task = bb.KubernetesTaskGenerator(cmd, resourceManager=rm, outputFile=os.path.join(self.d, "out.txt"), label="comp#0",
                                                        resourceRequest={"numberProcesses": 1, "numberThreads": 1, "threadsPerCore": 1, "memory": None},
                                                        pollingInterval=INTERVAL_UNITS * UNIT)
            else:
                real = k8s.NativeScheduledTask

                class NoCache(real):           # the generator has no parameter for cacheImage
                    def __init__(this, *a, **k):
                        real.__init__(this, *a, cacheImage=False, **k)
                k8s.NativeScheduledTask = NoCache
                try:
                    self.task = bb.KubernetesTaskGenerator(cmd, resourceManager=rm, outputFile=os.path.join(self.d, "out.txt"), label="comp#0",
                                                            resourceRequest={"numberProcesses": 1, "numberThreads": 1, "threadsPerCore": 1, "memory": None},
                                                            pollingInterval=INTERVAL_UNITS * UNIT)
                finally:
                    k8s.NativeScheduledTask = real
        o = self._run(fn, script)
        self.last_tick_start = self.world.now
        t = self.task
        if t is not None:
            real_archive = t._do_archive_objects

            def counting():
                self.archive_calls += 1
                return real_archive()
            t._do_archive_objects = counting
        return o

    def tick_item(self):
        its = [i for i in self.world.items if not i.dead and i.lane == "k8spool"]
        return min(its, key=lambda i: (i.due, i.seq)) if its else None

    def tick(self, script=None):
        """the polling interval fires (virtual time jumps to its due time)"""
        it = self.tick_item()
        if it is None:
            return None
        self.last_tick_start = max(it.due, self.world.now)
        return self._run(lambda: self.world.run(it), script)

    def kill(self, script=None, how="kill"):
        return self._run(getattr(self.task, how), script)

    def wait_peek(self, script=None):
        """task.wait(): returns (raised None) or would block (StillWaiting raised from the first sleep)"""
        def hook(s):
            raise StillWaiting()
        self.inst.hooks["sleep"] = hook
        try:
            return self._run(self.task.wait, script)
        finally:
            self.inst.hooks.pop("sleep", None)

    def wait_interrupt(self, script=None):
        """^C while wait() sleeps: the code calls terminate() and re-raises"""
        def hook(s):
            self.inst.hooks.pop("sleep", None)
            raise KeyboardInterrupt()
        self.inst.hooks["sleep"] = hook
        try:
            return self._run(self.task.wait, script)
        finally:
            self.inst.hooks.pop("sleep", None)

    # ---- projection ---------------------------------------------------------------------------------------------
    def obs(self):
        t = self.task
        c = self.cluster
        o = {"calls": list(c.calls), "raised": self.raised or "none", "job": c.job["st"], "slept": sum(self.inst.hooks.get("slept", [])) / UNIT}
        if t is None:
            o.update(state="-", alive=False, rc=-1, reason="none", terminated=False, done=False)
            return o
        rc = t.returncode
        o.update(state=t.status if t.status is not None else "None", alive=t.isAlive(), rc=-1 if rc is None else rc, reason=t.exitReason or "none",
                 terminated=bool(t.terminated), done=self.tick_item() is None,
                 archived=sum(os.path.exists(os.path.join(self.d, "wd", f)) for f in ("job.yaml", "pods.yaml")))
        return o

    def memory(self):
        """hidden variables of the task (for diagnostics / the function specification)"""
        t = self.task
        since = t.api_unavailable_since
        return {"started": t._epoch_started is not None, "pullerrs": t._remaining_image_pull_errors, "errs": t._consecutive_get_state_errors,
                "since": None if since is None else (since - EPOCH).total_seconds() / UNIT, "cached": t.hasCachedImage,
                "closed": t.stdout is None or t.stdout.closed, "called": t._terminate_called_when is not None}
