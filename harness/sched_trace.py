"""Recorded runs of the real Controller (harness/ctl.py) as plain data, and their rendering as TLA+ (one record of the
Traces constant of SchedulerTrace.tla).  Nothing here imports the runtime: a driver can run the real code in a child
process and validate the records in the parent."""


class RunRecord:
    """What the drivers need of a finished run (picklable)."""
    FIELDS = ("shape_name", "nodes", "refs", "oa", "start", "memo", "nopop", "conds", "trace", "final", "stuck", "quiescent", "crash",
              "crash_tb", "externals", "preempted", "killed", "memoized", "threads", "sid", "case_index", "sched", "extra", "drift")

    def __init__(self, **kw):
        for k in self.FIELDS:
            setattr(self, k, kw.get(k))

    def ref(self, node):
        return "stage%d.%s" % (node["stage"], node.get("rnode", node["node"]))


def to_record(h):
    d = {k: getattr(h, k, None) for k in RunRecord.FIELDS}
    d["threads"] = [repr(t) for t in (h.threads or [])]
    d["memo"], d["nopop"], d["memoized"] = set(h.memo), set(h.nopop), set(h.memoized)
    return RunRecord(**d)


def _tla(v):
    if isinstance(v, bool):
        return "TRUE" if v else "FALSE"
    if isinstance(v, int):
        return str(v)
    if isinstance(v, str):
        return '"%s"' % v
    raise TypeError(v)


def trace_to_tla(h, sid):
    """One record of the Traces constant of SchedulerTrace.tla."""
    refs = [h.ref(n) for n in h.nodes]
    idx = {r: i + 1 for i, r in enumerate(refs)}
    first = next(e for e in h.trace if e["ev"] == "Init")
    order = [idx[r] for r in first["st"]["order"]]
    steps = []
    for e in h.trace:
        if e["ev"] == "Init":
            continue
        st = e["st"]
        f = lambda key: "<<" + ", ".join(_tla(st["comps"][r][key]) for r in refs) + ">>"
        g = lambda key: "{" + ", ".join(str(idx[r]) for r in st[key]) + "}"
        q = lambda key: "<<" + ", ".join(str(idx[r]) for r in st[key]) + ">>"
        steps.append("<<%s, %d, %s, %s, %s, %s, %s, %s, %s, %s, %s, %s, %s, %d, %s, <<%s>>, %s, %s, %s, %s, %s, %d, %s, %s, %d, %s>>" % (
                         _tla(e["ev"]), idx.get(e["arg"], 0), f("cs"), f("exitR"), f("nrun"), f("nrestart"), f("nresub"), f("fin"),
                         f("killreq"), f("notified"), g("done"), g("staged"), _tla(st["stop"]), st["stage"], _tla(st["phase"]),
                         ", ".join(_tla(v) for v in st["verdict"]),
                         _tla(st["killed"]), g("memoized"), _tla(st["sleepReq"]), _tla(st["asleep"]), q("postponed"), st["nsleep"],
                         q("order"), g("live"), st["curiter"], _tla(st["phdone"])))
    nodes_k = max([n["iter"] for n in h.nodes if n.get("loop")] + [0]) + 1
    return "[shape |-> %d, outs |-> <<%s>>, scan |-> <<%s>>, start |-> %d, memo |-> {%s}, conds |-> <<%s>>, steps |-> <<\n    %s>>]" % (
        sid, ", ".join(map(str, h.oa)), ", ".join(map(str, order)), h.start, ", ".join(str(idx[r]) for r in sorted(h.memo)),
        ", ".join(_tla(x) for x in h.conds[:nodes_k]), ",\n    ".join(steps))
