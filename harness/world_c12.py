"""Environment of the C12 conformance driver (spec/Restart.tla): the REAL restart code without threads or sleeps.

What is real:   experiment.runtime.engine.Engine / RepeatingEngine (constructed for a real Job of a real Experiment built from
                generated FlowIR; restart(), _setExitReason(), exitReason(), isAlive(), shutdown(), resubmissionAttempts()),
                experiment.runtime.workflow.ComponentState (restart(), finish(), state),
                experiment.runtime.control.Controller (postMortemCheck(), _restartComponent(), _unstableSystemRestart(),
                TransitionComponentToFinalState), the hook import machinery (experiment.model.hooks) and the DLMESO fallback,
                the restart hooks: real python files in <instance>/hooks (restart.py / a named file) imported by the real
                machinery on every restart; they behave as the environment variable C12_HOOK_ANSWER says and report each call.
What is replaced (the environment, from this process only, by module attributes -- /repo is not touched):
  * rx thread pools / new-thread schedulers  -> an inert scheduler: nothing that is scheduled ever runs, no thread is created
    (state emissions are not part of this property; the driver reads the objects directly);
  * Engine.run / RepeatingEngine.run         -> a counter that marks the engine as launched (task launching needs threads);
  * threading.Thread inside engine.py        -> a recorder: RepeatingEngine.restart "starts" its restart thread, the harness
    counts it as a task start and executes the body synchronously when the spec says that this execution exits;
  * time.sleep in control.py                 -> no-op;  MonitorExceptionTracker.defaultTracker() -> a stub that reports the
    system (un)stable as the spec's configuration says;
  * ComponentSpecification.configuration     -> served from a cache while a World is in use (the real property deep-copies the
    resolved FlowIR on every access, Engine.restart reads it 4-6 times per call; the configuration is constant in these runs).
"""
import json
import os
import threading
import time
import types

import reactivex
import reactivex.scheduler
from reactivex.disposable import Disposable

from . import realenv  # noqa: F401  (disables logging, imports experiment.model.*)

import experiment.model.codes as codes
import experiment.runtime.utilities.rx as erx
import experiment.runtime.backends
import experiment.runtime.engine as eng
import experiment.runtime.workflow as wf
import experiment.runtime.control as control
import experiment.runtime.monitor as monitor
import experiment.runtime.errors

REASONS = ["Success", "KnownIssue", "SystemIssue", "SubmissionFailed", "UnknownIssue", "Killed", "Cancelled",
           "ResourceExhausted"]

HOOK_DEFAULT = "restart.py"          # the file the engine looks for when restartHookFile is not set
HOOK_NAMED = "c12_named_hook.py"     # restartHookFile: named, file present
HOOK_ABSENT = "c12_absent_hook.py"   # restartHookFile: named, file missing

HOOK_SOURCE = '''# restart hook written by /verif/harness/world_c12.py; behaves as the harness asks through the environment variable
import os
_a = os.environ["C12_HOOK_ANSWER"]
if _a == "importError":
    raise ImportError("c12: hook refuses to import")
if _a == "importIOError":
    raise IOError("c12: io error while importing the hook")
if _a == "importRaises":
    raise ValueError("c12: hook is broken at import")
import experiment.model.codes as _codes
_CTX = {"possible": "RestartContextRestartPossible", "notRequired": "RestartContextRestartNotRequired",
        "notPossible": "RestartContextRestartNotPossible", "failed": "RestartContextHookFailed",
        "hookNotAvailable": "RestartContextHookNotAvailable", "conditionsNotMet": "RestartContextRestartConditionsNotMet",
        "finishPossible": "RestartContextRestartPossible", "finishNotRequired": "RestartContextRestartNotRequired"}


def _restart(workingDirectory, restarts, componentName, log, exitReason, exitCode):
    import harness.world_c12 as _w
    _w.HOOK_CALLS.append({"file": os.path.basename(__file__), "restarts": restarts, "component": componentName,
                          "exitReason": exitReason, "dir": workingDirectory})
    if _w.ON_HOOK[0] is not None:       # something that happens elsewhere while the hook runs (another thread in reality)
        _w.ON_HOOK[0]()
    if _a in _CTX:
        return _codes.restartContexts[_CTX[_a]]
    if _a == "true":
        return True
    if _a == "false":
        return False
    if _a == "junkStr":
        return "RestartContextNoSuchThing"
    if _a == "junkInt":
        return 7
    if _a == "none":
        return None
    if _a == "raises":
        raise RuntimeError("c12: hook raises")
    if _a == "raisesIOError":
        raise IOError("c12: hook raises IOError")
    raise AssertionError("c12 harness: hook consulted with unexpected answer %r" % (_a,))


if _a != "noRestartFn":
    Restart = _restart
'''


HOOK_CALLS = []      # appended to by the hook files (same process)
ON_HOOK = [None]     # callable run by the hook files while they are consulted (an interleaving point inside Engine.restart)


class InertScheduler(reactivex.scheduler.scheduler.Scheduler):
    """Accepts work and never runs it."""
    pending = 0

    def __init__(self, *a, **k):
        super().__init__()

    def _drop(self):
        InertScheduler.pending += 1
        return Disposable()

    def schedule(self, action, state=None):
        return self._drop()

    def schedule_relative(self, duetime, action, state=None):
        return self._drop()

    def schedule_absolute(self, duetime, action, state=None):
        return self._drop()

    def schedule_periodic(self, period, action, state=None):
        return self._drop()


class _RecordedThread:
    """threading.Thread of engine.py: records the target, start() does not run anything."""
    started = []

    def __init__(self, target=None, args=(), kwargs=None, **kw):
        self.target, self.args, self.kwargs = target, args, kwargs or {}

    def start(self):
        _RecordedThread.started.append(self)

    def run_now(self):
        return self.target(*self.args, **self.kwargs)


class _ThreadingShim:
    Thread = _RecordedThread

    def __getattr__(self, name):
        return getattr(threading, name)


class _TimeShim:
    slept = 0.0

    def sleep(self, s):
        _TimeShim.slept += s

    def __getattr__(self, name):
        return getattr(time, name)


class _Tracker:
    stable = True

    def isSystemStable(self, interval):
        # _restartComponent asks about the last 120 s, _unstableSystemRestart about the last 30 s (to end its wait)
        return True if interval == 30 else _Tracker.stable

    def printStatus(self, details=False):
        pass


class FakeTask:
    """The finished task of a repeating engine (only what RepeatingEngine.exitReason / runRestart read)."""

    def __init__(self, reason):
        self.exitReason = reason
        self.returncode = 0 if reason == "Success" else 1
        self.schedulerId = "c12"
        self.performanceInfo = experiment.runtime.backends.backendTaskMap["local"].default_performance_info()

    def wait(self):
        return None

    def isAlive(self):
        return False

    def kill(self):
        pass

    def terminate(self):
        pass

    @property
    def status(self):
        return codes.FINISHED_STATE if self.exitReason == "Success" else codes.FAILED_STATE


_installed = False
_config_cache = {}
_cache_on = [False]      # only while a fully built World is in use


def _cached_configuration(real):
    """ComponentSpecification.configuration deep-copies the resolved FlowIR of the component on every access (Engine.restart
    reads it 4-6 times per call).  The configuration never changes during a C12 run: serve the first copy again (read-only)."""
    def getter(self):
        if not _cache_on[0]:
            return real(self)
        k = id(self)
        hit = _config_cache.get(k)
        if hit is None or hit[0] is not self:
            hit = _config_cache[k] = (self, real(self))
        return hit[1]
    return getter


def install():
    """Replace the environment (idempotent). Must run before any Engine / ComponentState / Controller is built."""
    global _installed
    if _installed:
        return
    inert = InertScheduler()
    erx.ThreadPoolGenerator.get_pool = classmethod(lambda cls, pool: inert)
    reactivex.scheduler.ThreadPoolScheduler = InertScheduler
    reactivex.scheduler.NewThreadScheduler = InertScheduler
    eng.Engine.enginePoolScheduler = eng.Engine.triggerPoolScheduler = eng.Engine.taskPoolScheduler = None
    wf.ComponentState.componentScheduler = None
    eng.threading = _ThreadingShim()
    control.time = _TimeShim()
    monitor.MonitorExceptionTracker.defaultTracker = classmethod(lambda cls: _Tracker())
    install_config_cache()
    _installed = True


_cache_installed = False


def install_config_cache():
    """The (opt-in, see _cache_on) cache of ComponentSpecification.configuration; idempotent."""
    global _cache_installed
    if _cache_installed:
        return
    import experiment.model.graph as G
    G.ComponentSpecification.configuration = property(_cached_configuration(G.ComponentSpecification.configuration.fget))
    _cache_installed = True


def build_experiment(scratch, configs, default_hook_on_disk):
    """One real Experiment with one component per spec configuration and the hook files in <instance>/hooks.
    -> (experiment, {configuration id: Job})"""
    comps = [flowir_component("c%d" % c["id"], c) for c in configs]
    exp = realenv.experiment_from_flowir({"components": comps}, scratch)
    hooks = os.path.join(exp.instanceDirectory.location, "hooks")
    os.makedirs(hooks, exist_ok=True)
    names = [HOOK_NAMED] + ([HOOK_DEFAULT] if default_hook_on_disk else [])
    for n in names:
        with open(os.path.join(hooks, n), "w") as f:
            f.write(HOOK_SOURCE)
    for n in (HOOK_ABSENT,) + (() if default_hook_on_disk else (HOOK_DEFAULT,)):
        if os.path.exists(os.path.join(hooks, n)):
            raise RuntimeError("hook %s must not exist" % n)
    jobs = {int(job.name[1:]): job for job in exp._stages[0].jobs()}
    return exp, jobs


def flowir_component(name, cfg):
    """spec configuration record -> FlowIR component"""
    wa = {"restartHookOn": list(cfg["restartOn"]), "shutdownOn": list(cfg["shutdownOn"])}
    if cfg["maxR"] != 1000:
        wa["maxRestarts"] = cfg["maxR"]
    if cfg["hookFile"] == "empty":
        wa["restartHookFile"] = ""
    elif cfg["hookFile"] == "named":
        wa["restartHookFile"] = HOOK_NAMED if cfg["onDisk"] else HOOK_ABSENT
    if cfg["kind"] == "repeating":
        wa["repeatInterval"] = 5
    if cfg.get("migratable"):
        wa["isMigratable"] = True
    comp = {"name": name, "stage": 0, "command": {"executable": "echo", "arguments": "x"}, "workflowAttributes": wa}
    if cfg["backend"] in ("sim", "simoff"):
        comp["resourceManager"] = {"config": {"backend": "simulator"}}
        comp["variables"] = {"sim_range_execution_time": 0, "sim_range_schedule_overhead": 0}
        if cfg["backend"] == "simoff":
            comp["variables"]["sim_restart"] = "no"
    return comp


class World:
    """One real Experiment + Controller holding one component per spec configuration.
    All configurations of a World agree on whether hooks/restart.py (the default hook) exists."""

    def __init__(self, scratch, configs, default_hook_on_disk):
        install()
        self.configs = {c["id"]: c for c in configs}
        self.exp, self.jobs = build_experiment(scratch, configs, default_hook_on_disk)
        self.set_answer("possible")
        # the controller wants a ComponentState on every node
        self._keep = [wf.ComponentState(j, self.exp.experimentGraph) for j in self.jobs.values()]
        self.controller = control.Controller(self.exp)
        # as tests/utils.py:generate_controller_for_flowir: the stage the controller works on
        self.controller.initialise(self.exp._stages[0], types.SimpleNamespace(monitorComponent=lambda *a, **k: None))
        self.graph = self.exp.experimentGraph
        _config_cache.clear()
        _cache_on[0] = True

    def set_answer(self, answer):
        """What the package hook does when it is imported / called next.  "na" = the spec says that the hook is not reached in
        this step: it would answer "possible" (a hook that is consulted nevertheless shows up in HOOK_CALLS)."""
        os.environ["C12_HOOK_ANSWER"] = "possible" if answer == "na" else answer

    def take_calls(self):
        calls = list(HOOK_CALLS)
        del HOOK_CALLS[:]
        return calls

    def close(self):
        import shutil
        _config_cache.clear()
        _cache_on[0] = False
        shutil.rmtree(self.exp.instanceDirectory.location, ignore_errors=True)


class Instance:
    """One behaviour of one component: a fresh real ComponentState + engine, launched once."""

    def __init__(self, world, cid):
        self.w = world
        self.cfg = world.configs[cid]
        self.job = world.jobs[cid]
        _Tracker.stable = bool(self.cfg["stable"])
        self.cs = wf.ComponentState(self.job, world.graph)
        self.engine = self.cs.engine
        self.repeating = isinstance(self.engine, eng.RepeatingEngine)
        if self.repeating != (self.cfg["kind"] == "repeating"):
            raise RuntimeError("engine kind of %s is not %s" % (self.job.reference, self.cfg["kind"]))
        want_type = "simulator" if self.cfg["backend"] in ("sim", "simoff") else "local"
        if self.job.type != want_type:
            raise RuntimeError("backend of %s is %s" % (self.job.reference, self.job.type))
        if bool(self.job.isMigratable) != bool(self.cfg.get("migratable")):
            raise RuntimeError("isMigratable of %s is %s" % (self.job.reference, self.job.isMigratable))
        self.runs = 0
        engine = self.engine

        self._armed = False          # run() was called and the launch has not happened yet (see kill_stub)

        def run_stub(*a, **k):
            # what Engine.run does synchronously before any thread is involved
            self.runs += 1
            self._armed = True
            engine._runCalled = eng.datetime.datetime.now()
            engine._consume = True
            engine._prime()
        engine.run = run_stub
        if not self.repeating:
            real_kill = engine.kill

            def kill_stub():
                # Engine.kill() between run() and the launch of the task: the real pipeline abandons the launch and records
                # Killed (error path of run(); bound to the real pipeline by part 4 of the check).  The start does not count.
                if self._armed and engine.isAlive():
                    self._armed = False
                    self.runs -= 1
                    engine._setExitReason(codes.exitReasons["Killed"])
                real_kill()
            engine.kill = kill_stub
        self._threads_seen = len(_RecordedThread.started)
        self._pending_thread = None
        world.take_calls()
        self.cs.run()                      # initial launch, as finalize_submit_components does
        if self.runs != 1:
            raise RuntimeError("initial launch did not call engine.run once")

    # -- environment actions ------------------------------------------------------------------------------------
    def exit(self, reason):
        """The current execution of the task ends with `reason`."""
        e = self.engine
        if not e.isAlive():
            raise RuntimeError("exit injected into a dead engine")
        self._armed = False                 # the task was launched (and now ends)
        if not self.repeating:
            e._setExitReason(codes.exitReasons[reason])       # as HandleTaskExit does
        elif self._pending_thread is None:
            # the repeating kernel was told to stop and its last task ended with `reason`
            e.cancelMonitorEvent.set()
            e.process = FakeTask(reason)
            e.kernelCompleted = True
        else:
            # the restart thread of RepeatingEngine.restart runs to completion: launches a task which ends with `reason`
            t, self._pending_thread = self._pending_thread, None
            e.taskGenerator = lambda job, *a, **k: FakeTask(reason)
            t.run_now()
        if e.isAlive():
            raise RuntimeError("engine still alive after the injected exit")

    def _collect_threads(self):
        new = _RecordedThread.started[self._threads_seen:]
        self._threads_seen = len(_RecordedThread.started)
        for t in new:
            self.runs += 1                                    # a started restart thread launches the task once
            self._pending_thread = t
            # until the thread body runs the real engine looks dead; the body's first statement marks it alive
            self.engine.lastExecution = True
        return len(new)

    def post_mortem(self, answer):
        """Controller.postMortemCheck for this component (restart or final state). Returns the observation."""
        self.w.set_answer(answer)
        if answer in ("finishPossible", "finishNotRequired"):
            # while the hook runs, somebody else (another thread in reality) finishes the component
            ON_HOOK[0] = lambda: self.cs.finish(codes.SHUTDOWN_STATE)
        seen = {}
        ctrl = self.w.controller
        real = ctrl._restartComponent

        def spy(component, exitReason=None, returncode=None):
            seen["code"] = real(component, exitReason=exitReason, returncode=returncode)
            self._collect_threads()
            return seen["code"]
        ctrl._restartComponent = spy
        try:
            ctrl.postMortemCheck(self.cs.state, self.cs)
        finally:
            del ctrl._restartComponent
            ON_HOOK[0] = None
        return self.observe(seen.get("code", "none"))

    def direct(self, answer):
        """Engine.restart() called directly (reason taken from the engine), as tests/test_engines.py does."""
        self.w.set_answer(answer)
        try:
            code = self.engine.restart()
        except Exception as e:  # the spec knows which hook defects escape Engine.restart
            code = "raised"
            self.last_exception = repr(e)
        self._collect_threads()
        return self.observe(code)

    def finish(self, final):
        """Somebody else (kill_all_components, _stopComponents, ...) calls ComponentState.finish() on the component."""
        self.cs.finish({"shutdown": codes.SHUTDOWN_STATE, "failed": codes.FAILED_STATE, "finished": codes.FINISHED_STATE}[final])
        self._collect_threads()
        return self.observe()

    def late_restart(self, reason):
        """ComponentState.restart after the component got its final state."""
        self.w.set_answer("possible")
        try:
            code = self.cs.restart(reason=codes.exitReasons[reason])
        except experiment.runtime.errors.CannotRestartShutdownEngineError:
            code = "refusedShutdown"
        self._collect_threads()
        return self.observe(code)

    # -- projection ----------------------------------------------------------------------------------------------
    def observe(self, code="none"):
        e = self.engine
        st = self.cs.state
        final = {codes.FINISHED_STATE: "finished", codes.FAILED_STATE: "failed",
                 codes.SHUTDOWN_STATE: "shutdown"}.get(st, "none")
        calls = self.w.take_calls()
        return {"code": code, "restarts": e.restarts, "resub": e.resubmissionAttempts(), "runs": self.runs,
                "alive": bool(e.isAlive()), "final": final, "shutdown": bool(e.isShutdown), "state": st,
                "hookCalls": len(calls), "hookFiles": sorted({c["file"] for c in calls}),
                "hookRestartsArg": [c["restarts"] for c in calls]}


# =====================================================================================================================
# The relaunch window (Restart.tla with Window = TRUE) on the REAL launch / termination pipeline of Engine.run():
# harness/world_g01.py (growth item G01) runs the real non-repeating Engine on lanes, hop by hop, with a fake Task.
class PipelineWorld:
    """Real Experiment (jobs per configuration, hook files) for behaviours that are executed on world_g01.Driver.
    Nothing is installed permanently: world_g01 / harness.world replace the schedulers only inside `with Driver(..)`."""

    def __init__(self, scratch, configs, default_hook_on_disk):
        install_config_cache()
        self.configs = {c["id"]: c for c in configs}
        self.exp, self.jobs = build_experiment(scratch, configs, default_hook_on_disk)
        _config_cache.clear()
        _cache_on[0] = True

    def close(self):
        import shutil
        _config_cache.clear()
        _cache_on[0] = False
        shutil.rmtree(self.exp.instanceDirectory.location, ignore_errors=True)

    def play(self, cid, evs):
        """evs: events of the spec (act Launch / Exit / Direct / Kill with reason / answer), starting in the state after
        Engine.run().  -> (observations: one per event that was executed, note): the projection after every event, taken at
        the quiescent point (all rx hops delivered).  The events are the environment; everything else is the real engine."""
        from . import world_g01 as G
        job = self.jobs[cid]
        answers = [ev["answer"] for ev in evs if ev["act"] == "Direct"]
        counters = {"run": 0}

        def factory(job, gen):
            e = eng.Engine(job, gen)
            real_run, real_restart = e.run, e.restart

            def run(*a, **k):
                counters["run"] += 1
                return real_run(*a, **k)

            def restart(*a, **k):
                a0 = answers.pop(0)
                os.environ["C12_HOOK_ANSWER"] = "possible" if a0 == "na" else a0
                try:
                    return real_restart(*a, **k)
                except Exception as x:      # the spec knows which hook defects escape Engine.restart ("raised")
                    counters["exc"] = repr(x)
                    return "raised"
            e.run, e.restart = run, restart
            return e

        class Drv(G.Driver):
            def observe(drv):
                o = G.Driver.observe(drv)
                calls = list(HOOK_CALLS)
                del HOOK_CALLS[:]
                o.update(resub=drv.engine.resubmissionAttempts(), runs=counters["run"], hookCalls=len(calls),
                         hookFiles=sorted({c["file"] for c in calls}), hookRestartsArg=[c["restarts"] for c in calls])
                return o
        hist = ["Run"]
        for ev in evs:
            if ev["act"] == "Launch":
                hist.append("Fire:ok")
            elif ev["act"] == "Exit":
                hist.append("Exit:" + ev["reason"])
            elif ev["act"] == "Direct":
                hist.append("Restart")
            elif ev["act"] == "Kill":
                hist.append("Kill")
            else:
                raise RuntimeError("event %r cannot be played on the engine pipeline" % (ev,))
        del HOOK_CALLS[:]
        with Drv(job, engine_factory=factory) as d:
            obs = d.replay(hist, "fifo")
            note = {"not_enabled": d.not_enabled, "item_errors": list(d.item_errors)}
        if getattr(d, "threads", None):
            raise RuntimeError("the engine pipeline created threads: %r" % (d.threads,))
        out = []
        for o in obs[2:]:          # obs[0]: before run(), obs[1]: after run() = the initial state of the specification
            out.append({"code": o["rcode"] if o["rcode"] != "-" else "none", "restarts": o["restarts"], "resub": o["resub"],
                        "runs": o["runs"], "launched": o["nlaunch"], "alive": o["alive"], "exitReason": o["reason"],
                        "hookCalls": o["hookCalls"], "hookFiles": o["hookFiles"], "hookRestartsArg": o["hookRestartsArg"]})
        first = obs[1] if len(obs) > 1 else None
        note["initial"] = first and {"alive": first["alive"], "launched": first["nlaunch"], "runs": first["runs"]}
        return out, note
