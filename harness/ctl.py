"""Deterministic harness around the real Controller + ComponentState (C01/C02).

Real: experiment.runtime.control.Controller (run, _schedule, finalize_submit_components, postMortemCheck,
_restartComponent, finishedCheck, kill_all_components, cleanUp, initialise), experiment.runtime.workflow.ComponentState
(state, finish, stageIn, run, restart, rx pipelines), Engine.restart / Engine.isAlive / exitReason / shutdown contract.
Fake: the task below the engine (FakeEngine: run() counts, exits are injected by the environment), threads and time
(harness.world).  The environment turn is Controller._event_scheduler.wait().

Growth (G02): the environment may also call into the controller from "another thread" during a turn:
killController() (event ExternalKill), sleep() / wake_up() (events Sleep / WakeUp); a run may start from a later stage
(ComponentStates of the earlier stages are built with create_engine=False, Controller.initialise(stage k) as
tests/utils.py new_controller(initial_stage=k)); the memoization database is a fake (FakeCDB) below the REAL
Controller.can_memoize / _memoize_populate_component_workdir.
"""
import logging
import os
import random
import shutil
import threading
import types

import reactivex
import reactivex.subject

from . import world as W
from . import sched_shapes as SS
from . import realenv

import experiment.model.codes as codes
import experiment.runtime.engine as engine_mod
import experiment.runtime.control as control
import experiment.runtime.workflow as workflow
import experiment.runtime.errors as rerrors

STATE_NAME = {codes.RUNNING_STATE: "running", codes.POSTMORTEM_STATE: "postmortem", codes.FINISHED_STATE: "finished",
              codes.FAILED_STATE: "failed", codes.SHUTDOWN_STATE: "shutdown"}


class Stuck(Exception):
    pass


class _FakeBase:
    """Shared by FakeEngine / FakeRepeatingEngine.  Engine.__init__ is skipped on purpose (it builds the task pipeline)."""

    def _fake_init(self, job, harness):
        self.job = job
        self.h = harness
        self.log = logging.getLogger("fake.%s" % job.reference)
        self._exitReason = None
        self._shutdown = False
        self.restarts = 0
        self._resubmissionAttempts = 0
        self._runCalled = None
        self._consume = False
        self.process = None
        self._taskFinished = self._taskLaunched = None
        self._lastLaunched = None
        self._termination_subject = None
        self.terminationObservable = None
        self._subject = reactivex.subject.Subject()
        self.nrun = 0
        self.kill_requested = False
        self.producers_finished = False
        self.lane = W.Lane(harness.world, "engine")
        self._outbox = []

    # --- what ComponentState / Controller use ---
    @property
    def stateUpdates(self):
        return self._subject

    def _emit(self, what):
        """Emissions of one engine are delivered in order (the real engine serialises them on a one-thread pool)."""
        self._outbox.append(dict(what))
        if len(self._outbox) == 1:
            self.lane.schedule(self._deliver)

    def _deliver(self, *_):
        d = self._outbox.pop(0)
        if self._outbox:
            self.lane.schedule(self._deliver)
        self._subject.on_next((d, self))

    def run(self, *a, **k):
        self._runCalled = True
        self._consume = True
        self.nrun += 1
        if self.nrun > 1:
            # the real Engine.run() emits its state (emit_now) while launching: after a restart that emission carries
            # isAlive=True, which is what moves the ComponentState pipeline back from POSTMORTEM to RUNNING
            self._emit({"isAlive": True, "engineExitReason": None})
        self.h.event("Run", self.job.reference)

    def exitReason(self):
        return self._exitReason

    def isAlive(self):
        return self._exitReason is None

    def returncode(self):
        return engine_mod.compute_returncode_from_exit_reason(self._exitReason)

    def kill(self):
        if self.isAlive():
            self.kill_requested = True

    @property
    def isShutdown(self):
        return self._shutdown

    def shutdown(self):
        if self.isAlive():
            raise AssertionError('An engine must be non-active (dead) to be shutdown')
        self._shutdown = True
        self._emit({"isShutdown": True})

    def _create_termination_observable(self):     # used by the real Engine.restart
        # the first thing the real Engine.restart does for a dead engine - i.e. after ComponentState.restart() tested
        # engine.isShutdown and before the restart hook / the relaunch: a pre-emption point for "another thread"
        self.h.preempt("in-restart", self.job.reference)

    # --- environment ---
    def env_exit(self, reason):
        assert self._exitReason is None
        self._exitReason = reason
        self.kill_requested = False
        if reason == "Success":
            self._resubmissionAttempts = 0
        self._emit({"isAlive": False, "engineExitReason": reason})

    def optimizer_disable(self, propagate):
        pass


class FakeEngine(_FakeBase, engine_mod.Engine):
    def __init__(self, job, harness):
        self._fake_init(job, harness)

    # Engine.restart (budget, hook protocol, counters) is the REAL one, inherited.


class FakeRepeatingEngine(_FakeBase, engine_mod.RepeatingEngine):
    def __init__(self, job, harness):
        self._fake_init(job, harness)

    def notify_all_producers_finished(self):
        self.producers_finished = True
        self.h.event("Notified", self.job.reference)

    def notify_producer_successful_run(self, ref):
        pass

    def restart(self, reason=None, code=None):
        return engine_mod.Engine.restart(self, reason=reason, code=code)


class LoggedSet(set):
    def __init__(self, harness, label, key):
        super().__init__()
        self._h, self._label, self._key = harness, label, key

    def add(self, x):
        new = x not in self
        super().add(x)
        if new:
            self._h.event(self._label, self._key(x))


class FakeStatus:
    def monitorComponent(self, *a, **k):
        pass


class FakeCDB:
    """The memoization database below the real Controller.can_memoize(): the environment's answer per component.
    `yes`: a document whose location is a non-empty local directory (the real _memoize_populate_component_workdir copies
    it); `nopop`: a document that looks accessible (remote) but whose download fails -> no memoization."""

    def __init__(self, harness):
        self.h = harness
        self.current = None          # reference of the component can_memoize() is asking about
        self.queries = []

    def cdb_get_document_component(self, query=None, _api_verbose=False, **kw):
        ref = self.current
        self.queries.append((ref, dict(query or {})))
        if "memoization-hash" not in (query or {}):
            return []                # fuzzy memoization is off
        if ref in self.h.memo:
            return [dict(location=self.h.memo_dir, instance="past-2020-01-01T000000.000000.instance", stage=0, name="past")]
        if ref in self.h.nopop:
            return [dict(location=os.path.join(self.h.scratch, "no-such-dir"), instance="gone-2020-01-01T000000.000000.instance",
                         stage=0, name="gone")]
        return []

    def cdb_query_component_files_exist(self, instance_uri, stage_index, component_name):
        return True

    def cdb_download_component_files(self, instance_uri, stage_index, component_name, output_dir):
        raise IOError("remote files are gone")


class EnvTurn:
    """Replaces Controller._event_scheduler: wait() is the environment turn."""

    def __init__(self, harness):
        self.h = harness

    def wait(self, timeout=None):
        self.h.environment_turn()
        return True

    def clear(self):
        pass

    def set(self):
        pass

    def is_set(self):
        return False


class Harness:
    def __init__(self, shape_name, oa, scratch, policy, log_trace=True, start=0, memo=(), nopop=(), conds=None):
        self.start = start                       # the stage the run starts from (restart)
        # what the DoWhile condition evaluates to after iteration 0, 1, ..: "True" | "False" | "garbage"
        self.conds = list(conds) if conds else ["False"] * SS.DW_ITERS
        self.memo_plan = set(memo)               # node names the memoization database offers outputs for
        self.nopop_plan = set(nopop)             # node names it offers outputs for that cannot be copied
        self.memo = set()                        # references (filled in build)
        self.nopop = set()
        self.killed = False
        self.nsleep = 0
        self.memoized = set()
        self.in_wakeup = False
        self.preempted = []                      # (where, component, index of the trace entry of the injected kill)
        self.drift = []                          # edges of the real graph that differ from the shape's (see check_edges)
        self.crash = None
        self.externals = []
        self.shape_name = shape_name
        self.base = SS.BASE_SHAPES[shape_name]
        self.nodes = SS.expand(self.base)
        self.oa = list(oa)                       # outcome index (1-based into OUTSEQS) per node
        self.scratch = scratch
        self.policy = policy
        self.world = W.World()
        self.trace = []
        self.calls = []
        self.engines = {}
        self.comps = {}
        self.stage = 0
        self.phase = "running"
        self.verdicts = []
        self.turns = 0
        self.idle_turns = 0
        self.log_trace = log_trace
        self.in_pass = False
        self.skipped = 0

    # ---- names ----
    def ref(self, node):
        return SS.node_ref(node)

    # ---- events / snapshots ----
    def snapshot(self):
        st = {}
        ctrl = self.controller
        graph_nodes = list(self.exp.graph.nodes)
        present = set(graph_nodes)
        for i, n in enumerate(self.nodes):
            r = self.ref(n)
            if r not in present:
                # the slot of a DoWhile iteration that was not instantiated (yet)
                st[r] = dict(cs="idle", exitR="none", nrun=0, nrestart=0, nresub=0, fin=False, killreq=False, notified=False)
                continue
            comp = self.comps.get(r)
            if comp is None:
                comp = self.register_new_component(r)
            eng = self.engines.get(r)
            s = STATE_NAME[comp.state]
            if eng is None:
                # a component of a stage before the starting one: no engine was created for it
                st[r] = dict(cs=s, exitR="none", nrun=0, nrestart=0, nresub=0, fin=bool(comp.finishCalled), killreq=False,
                             notified=False)
                continue
            if s == "running" and eng.nrun == 0:
                s = "idle"
            st[r] = dict(cs=s, exitR=eng._exitReason or "none", nrun=eng.nrun, nrestart=eng.restarts,
                         nresub=eng._resubmissionAttempts, fin=bool(comp.finishCalled),
                         killreq=bool(eng.kill_requested), notified=bool(eng.producers_finished))
        refs = self.refs
        # the order in which _schedule scans the graph: the nodes that exist, then (irrelevant) the slots that do not
        order = [r for r in graph_nodes if r in st] + [r for r in refs if r not in present]
        wg = self.exp.experimentGraph
        dws = wg._documents.get("DoWhile", {}) if hasattr(wg, "_documents") else {}
        curiter = max([d["state"]["currentIteration"] for d in dws.values()] or [0])
        phs = [p for p, d in wg._placeholders.items() if d.get("stage", 0) >= self.start]
        return dict(comps=st, done=sorted(x for x in ctrl.comp_done if x in st),
                    staged=sorted(c.specification.reference for c in ctrl.comp_staged_in),
                    stop=bool(ctrl.stop_executing), stage=self.stage, phase=self.phase, verdict=list(self.verdicts),
                    killed=self.killed, memoized=sorted(self.memoized), sleepReq=bool(ctrl._start_sleeping),
                    asleep=bool(ctrl._scheduler_sleeps),
                    postponed=[c.specification.reference for _s, c in ctrl._component_finished_while_sleeping],
                    nsleep=self.nsleep, order=order, live=[r for r in refs if r in present], curiter=curiter,
                    phdone=bool(phs) and all(p in ctrl.comp_done for p in phs))

    def event(self, name, arg=None, extra=None):
        self.calls.append((name, arg))

    def step(self, ev, arg=None):
        """Close one atomic step of the run: record the event with the calls made and the state reached."""
        if self.log_trace:
            snap = self.snapshot()
            # steps that change nothing in the projection are stuttering steps of the specification: not recorded
            if not (ev in ("Internal", "Pass") and self.trace and snap == self.trace[-1]["st"]):
                self.trace.append(dict(ev=ev, arg=arg, calls=[list(c) for c in self.calls], st=snap))
            else:
                self.skipped += 1
        self.calls = []

    # ---- construction ----
    def build(self, inst):
        h = self

        def engine_for(cls_or_job, job=None):
            job = job if job is not None else cls_or_job
            e = FakeRepeatingEngine(job, h) if job.isRepeat else FakeEngine(job, h)
            h.engines[job.reference] = e
            return e
        inst._set(engine_mod.Engine, "engineForComponentSpecification", staticmethod(lambda job: engine_for(job)))
        fake_time = types.SimpleNamespace(sleep=lambda s: None, time=lambda: self.world.now)
        inst._set(control, "time", fake_time)
        self.refs = [self.ref(n) for n in self.nodes]
        if SS.is_dowhile(self.base):
            self.exp = self.dowhile_experiment()
        else:
            self.exp = realenv.experiment_from_flowir(SS.flowir(self.base), self.scratch)
        import networkx
        graph = self.exp.graph
        real_nodes = sorted(graph.nodes)
        initially = sorted(self.ref(n) for n in self.nodes if not n.get("loop") or n["iter"] == 0)
        if real_nodes != initially:
            raise RuntimeError("shape expansion drift: %s vs %s" % (real_nodes, initially))
        self.check_edges(real_nodes)
        wg = self.exp.experimentGraph
        for job_name in networkx.topological_sort(graph):
            data = graph.nodes[job_name]
            stage = self.exp._stages[data['stageIndex']]
            spec = data['componentSpecification']
            job = stage.jobWithName(spec.identification.componentName)
            comp = workflow.ComponentState(job, wg, create_engine=bool(stage.index >= self.start))
            self.comps[job_name] = comp
            self._wrap_component(comp)
        self.exp_node_order = list(graph.nodes)
        byname = {n["node"]: self.ref(n) for n in self.nodes}
        # the database only knows components that can be asked about: the ones of the stages that run
        self.memo = {byname[x] for x in self.memo_plan if byname[x] in self.engines}
        self.nopop = {byname[x] for x in self.nopop_plan if byname[x] in self.engines} - self.memo
        self.controller = control.Controller(self.exp)
        c = self.controller
        if self.memo or self.nopop:
            self.memo_dir = os.path.join(self.scratch, "memo_src")
            os.makedirs(self.memo_dir, exist_ok=True)
            with open(os.path.join(self.memo_dir, "out.txt"), "w") as f:
                f.write("memoized output\n")
            c.cdb = FakeCDB(self)
        c._event_scheduler = EnvTurn(self)
        c._observe_completionCheck = lambda stage: None
        c.comp_done = LoggedSet(self, "Done", lambda x: x)
        c.comp_staged_in = LoggedSet(self, "Staged", lambda x: x.specification.reference)
        self._wrap_controller(c)

    def check_edges(self, refs):
        """The edges of the real graph into the given nodes are the ones the shape expansion predicts (restricted to the
        nodes that exist)."""
        graph = self.exp.graph
        byname = {n["node"]: n for n in self.nodes}
        present = set(graph.nodes)
        for r in refs:
            n = self.nodes[self.refs.index(r)]
            preds = sorted(graph.predecessors(r))
            mine = sorted(x for x in (self.ref(byname[p]) for p in n["prods"]) if x in present)
            if preds != mine:
                # recorded, the run goes on: if the real graph lost (or gained) an edge the controller schedules differently
                # from the specification, which trace validation reports; a drift without any violation is a machinery error
                self.drift.append("edges into %s: real graph %s, shape %s" % (r, preds, mine))

    def dowhile_experiment(self):
        """A real package with a DoWhile document (conf/flowir_package.yaml + conf/dowhile.yaml) and an instance of it, as
        tests/test_dowhile.py builds them."""
        import uuid
        import yaml
        import experiment.model.storage
        import experiment.model.data
        main, doc = SS.dowhile_package(self.base)
        pk = os.path.join(self.scratch, "%s.package" % uuid.uuid4().hex[:10])
        os.makedirs(os.path.join(pk, "conf"))
        with open(os.path.join(pk, "conf", "flowir_package.yaml"), "w") as f:
            f.write(yaml.dump(main, sort_keys=False, Dumper=yaml.SafeDumper))
        with open(os.path.join(pk, "conf", "dowhile.yaml"), "w") as f:
            f.write(yaml.dump(doc, sort_keys=False, Dumper=yaml.SafeDumper))
        pkg = experiment.model.storage.ExperimentPackage.packageFromLocation(pk)
        inst = experiment.model.storage.ExperimentInstanceDirectory.newInstanceDirectory(self.scratch, package=pkg)
        exp = experiment.model.data.Experiment(inst, is_instance=True)
        exp.validateExperiment(checkExecutables=False)
        self._package_dir = pk
        return exp

    def register_new_component(self, ref):
        """A component the controller instantiated at run time (next iteration of a DoWhile)."""
        comp = self.controller.get_compstate(ref)
        self.comps[ref] = comp
        self._wrap_component(comp)
        self.check_edges([ref] + [r for r in self.refs if ref in (self.ref(next(x for x in self.nodes if x["node"] == p))
                                                                   for p in self.nodes[self.refs.index(r)]["prods"])
                                  and r in self.exp.graph.nodes])
        return comp

    def write_condition(self, ref):
        """The task of the component that produces the DoWhile condition succeeded: it wrote the condition."""
        n = self.nodes[self.refs.index(ref)]
        ans = self.conds[n["iter"]]
        comp = self.comps[ref]
        with open(os.path.join(comp.specification.directory, "flag"), "w") as f:
            f.write({"True": "True\n", "False": "False\n"}.get(ans, "maybe\n"))

    def _wrap_component(self, comp):
        h = self
        orig_finish = comp.finish

        def finish(finalState):
            h.event("Finish", (comp.specification.reference, STATE_NAME.get(finalState, finalState)))
            return orig_finish(finalState)
        comp.finish = finish

    def _wrap_controller(self, c):
        h = self
        for name in ("finishedCheck", "postMortemCheck"):
            orig = getattr(c, name)

            def make(orig, name):
                def wrapped(state, component):
                    ref = component.specification.reference
                    if name == "postMortemCheck":
                        # the notification has passed the `finishCalled is False` filter; postMortemCheck takes no lock:
                        # another thread may run before its body
                        h.preempt("pm-entry", ref)
                    elif STATE_NAME.get(component.state) == "finished":
                        # finishedCheck is about to take comp_lock: a kill from another thread may get the lock first
                        h.preempt("fc-entry", ref)
                    try:
                        return orig(state, component)
                    finally:
                        if not h.in_wakeup:      # wake_up() replays the postponed finishedChecks under one lock: one step
                            h.step(name[0].upper() + name[1:], ref)
                return wrapped
            setattr(c, name, make(orig, name))
        orig_can = c.can_memoize

        def can_memoize(component, fuzzy):
            if c.cdb is not None:
                c.cdb.current = component.specification.reference
            return orig_can(component, fuzzy)
        c.can_memoize = can_memoize
        orig_ff = c._fake_finish_with_state

        def fake_finish(component, new_state):
            ref = component.specification.reference
            h.event("FakeFinish", (ref, STATE_NAME.get(new_state, new_state)))
            if new_state == codes.FINISHED_STATE:
                h.memoized.add(ref)
            return orig_ff(component, new_state)
        c._fake_finish_with_state = fake_finish
        orig_sched = c._schedule

        def sched(migrated_components):
            try:
                return orig_sched(migrated_components)
            finally:
                h.step("Pass")
        c._schedule = sched

    # ---- environment ----
    def outcome(self, ref, k):
        i = self.refs.index(ref)
        seq = SS.OUTSEQS[self.oa[i] - 1]
        return seq[k - 1] if k <= len(seq) else "Success"

    def env_actions(self):
        acts = []
        for ref, e in self.engines.items():
            if e._exitReason is None:
                if e.kill_requested:
                    acts.append(("KilledExit", ref))
                if e.nrun > 0:
                    r = self.outcome(ref, e.nrun)
                    if r == "Success" and not e.kill_requested and getattr(self.policy, "hold_asleep", False) \
                            and self.controller._start_sleeping:
                        continue
                    if not e.job.isRepeat or r != "Success" or e.producers_finished or e.kill_requested:
                        acts.append(("TaskExit", ref))
        return acts

    def do_env(self, act):
        name, ref = act
        e = self.engines[ref]
        if name == "KilledExit":
            e.env_exit("Killed")
        else:
            r = self.outcome(ref, e.nrun)
            if r == "Success" and self.nodes[self.refs.index(ref)].get("cond"):
                self.write_condition(ref)
            e.env_exit(r)
        self.step(name, ref)

    def preempt(self, where, ref):
        """A point inside postMortemCheck (which holds no lock) at which another thread may call into the controller."""
        if where == "fc-entry":
            p = getattr(self.policy, "fc_kill_p", 0.0)
        else:
            p = getattr(self.policy, "pm_kill_p", 0.0)
            if getattr(self.policy, "pm_where", where) != where:
                return
        if not p or self.killed or self.phase != "running" or self.in_wakeup:
            return
        if self.policy.rnd_env.random() < p:
            self.do_external("kill")
            self.preempted.append((where, ref, len(self.trace) - 1))

    def do_external(self, what):
        """The environment calls into the controller (as elaunch / a signal handler / a watchdog thread would)."""
        c = self.controller
        self.externals.append((what, self.turns))
        if what == "kill":
            c.killController("external")
            self.killed = True
            self.step("ExternalKill")
        elif what == "sleep":
            c.sleep()
            self.nsleep += 1
            self.step("Sleep")
        elif what == "wake":
            self.in_wakeup = True
            try:
                c.wake_up()
            finally:
                self.in_wakeup = False
            self.step("WakeUp")
        else:
            raise ValueError(what)

    def run_item(self, item):
        self.world.run(item)
        self.step("Internal")

    def choices(self):
        """Everything that may happen next besides the controller's own thread."""
        return [("item", i) for i in self.world.pending()] + [("env", a) for a in self.env_actions()]

    def environment_turn(self):
        """Called from Controller.run()'s wait(): let the rest of the world make progress."""
        self.turns += 1
        if self.turns > 4000:
            raise Stuck("no termination after %d controller passes" % self.turns)
        n = self.policy.burst(self)
        # a call into the controller from another thread (kill / sleep / wake-up), somewhere in this turn
        ext = self.policy.external(self) if hasattr(self.policy, "external") else None
        ext_at = self.policy.rnd_env.randint(0, n) if ext else None
        progressed = False
        for i in range(n):
            if ext and i == ext_at:
                self.do_external(ext)
                ext = None
                progressed = True
            ch = self.choices()
            if not ch:
                break
            kind, x = self.policy.pick(self, ch)
            progressed = True
            if kind == "item":
                self.run_item(x)
            else:
                self.do_env(x)
        if ext:
            self.do_external(ext)
            progressed = True
        if not progressed and not self.choices() and self.controller._start_sleeping:
            # nothing can happen while the controller sleeps: whoever put it to sleep wakes it up
            self.do_external("wake")
            self.idle_turns = 0
        elif not progressed and not self.choices():
            # nothing can happen now: let virtual time pass (5 s interval ticks of the state pipelines)
            if not self.world.advance_to_next_timer():
                raise Stuck("controller waits but nothing is pending")
            self.idle_turns += 1
            if self.idle_turns > 60:
                raise Stuck("controller still waiting after %d idle timer advances: %s" % (self.idle_turns, self.snapshot()))
        else:
            self.idle_turns = 0

    def drain(self, limit=3000):
        """After the stage loop: let everything settle (notifications, kills)."""
        idle = 0
        if self.controller._start_sleeping:
            self.do_external("wake")
        for _ in range(limit):
            ch = self.choices()
            if ch:
                kind, x = self.policy.pick(self, ch)
                if kind == "item":
                    self.run_item(x)
                else:
                    self.do_env(x)
                idle = 0
                continue
            snap = self.snapshot()
            if all(snap["comps"][r]["cs"] in ("finished", "failed", "shutdown") for r in snap["live"]) and \
                    set(snap["done"]) >= set(snap["live"]):
                return True
            if not self.world.advance_to_next_timer():
                return False
            idle += 1
            if idle > 60:
                return False
        return False

    # ---- the launcher's stage loop ----
    def execute(self):
        c = self.controller
        nstages = len(self.exp._stages)
        self.verdicts = ["skipped"] * self.start
        self.stage = self.start
        c.initialise(self.exp._stages[self.start], FakeStatus())
        for s in range(self.start, nstages):
            self.stage = s
            try:
                c.run()
                v = "ok"
            except rerrors.UnexpectedJobFailureError:
                v = "failed"
            except rerrors.FinalStageNoFinishedLeafComponents:
                v = "noleaf"
            self.verdicts.append(v)
            if v != "ok":
                self.phase = "failed"
                self.step("StageEnd")
                c.cleanUp()
                self.phase = "ended"
                self.step("Cleanup")
                break
            if s == nstages - 1:
                self.phase = "ended"
            else:
                self.stage = s + 1
                c.initialise(self.exp._stages[s + 1], FakeStatus())    # the launcher's next iteration (resets stop_executing)
            self.step("StageEnd")
        quiescent = self.drain()
        return quiescent


class RandomPolicy:
    """Seeded schedule: how many things happen between two controller passes (burst), how eager the environment is
    (task exits / kills) and how eager the controller callbacks are relative to the other rx hops (ctrl_weight)."""

    def __init__(self, seed, burst_max=4, env_bias=0.5, ctrl_weight=1.0, eager_internal=False,
                 kill_p=0.0, sleep_p=0.0, wake_p=0.3, max_sleeps=1, hold_asleep=False, pm_kill_p=0.0, pm_where="in-restart",
                 fc_kill_p=0.0, sleep_on_cond=False):
        self.rnd = random.Random(seed)
        # calls into the controller from outside (G02): a separate stream, so that the schedules of the runs without
        # such calls do not depend on these parameters
        self.rnd_env = random.Random(seed * 7919 + 13)
        self.kill_p, self.sleep_p, self.wake_p, self.max_sleeps = kill_p, sleep_p, wake_p, max_sleeps
        # hold_asleep: tasks that will succeed keep running while the controller sleeps (long-running siblings of a task that
        # fails meanwhile: the postponed reaction to the failure then still finds something to stop at wake-up)
        self.hold_asleep = hold_asleep
        # pm_kill_p: killController() may arrive while postMortemCheck (no lock) is about to restart / restarting an engine
        self.pm_kill_p = pm_kill_p
        # sleep_on_cond: sleep() is called while the component that produces a DoWhile condition runs (the finishedCheck that
        # decides about the next iteration is then postponed)
        self.sleep_on_cond = sleep_on_cond
        self.fc_kill_p = fc_kill_p      # killController() wins the race for comp_lock against a pending finishedCheck
        self.pm_where = pm_where        # "pm-entry": before the body of postMortemCheck; "in-restart": inside Engine.restart
        self.burst_max = burst_max
        self.env_bias = env_bias
        self.ctrl_weight = ctrl_weight
        # eager_internal: rx hops that are not controller callbacks run as soon as they are scheduled (FIFO), so the
        # random choices are spent on the orderings that matter: task exits, controller callbacks, scheduler passes
        self.eager_internal = eager_internal

    def burst(self, h):
        return self.rnd.randint(0, self.burst_max)

    def external(self, h):
        """At most one call into the controller per turn: killController() (once per run), sleep(), wake_up()."""
        if not (self.kill_p or self.sleep_p):
            return None
        r = self.rnd_env
        if self.sleep_on_cond and not h.controller._start_sleeping and h.nsleep < self.max_sleeps:
            running = [n for n in h.nodes if n.get("cond") and h.ref(n) in h.engines and h.engines[h.ref(n)].nrun > 0
                       and h.engines[h.ref(n)]._exitReason is None]
            return "sleep" if running and r.random() < 0.7 else None
        if self.kill_p and not h.killed and r.random() < self.kill_p:
            return "kill"
        if h.controller._start_sleeping:
            return "wake" if r.random() < self.wake_p else None
        if self.sleep_p and h.nsleep < self.max_sleeps and r.random() < self.sleep_p:
            return "sleep"
        return None

    def pick(self, h, choices):
        envs = [c for c in choices if c[0] == "env"]
        items = [c for c in choices if c[0] == "item"]
        if self.eager_internal:
            internal = [c for c in items if c[1].lane != "pool:Controller"]
            if internal:
                return internal[0]
        if envs and (not items or self.rnd.random() < self.env_bias):
            return self.rnd.choice(envs)
        if self.ctrl_weight == 1.0:
            return self.rnd.choice(items)
        ws = [self.ctrl_weight if c[1].lane == "pool:Controller" else 1.0 for c in items]
        return self.rnd.choices(items, weights=ws, k=1)[0]


class _Verbose:
    """The runtime with every logger enabled down to level 1 (elaunch -l 1): the records go to a handler that drops them
    unformatted.  The log level is an input the listed properties are silent about, so the scheduling must not depend on it;
    code inside `if log.isEnabledFor(..)` / debug-only branches runs only in such a run."""
    class _Sink(logging.Handler):
        def emit(self, record):
            pass

    def __init__(self, on):
        self.on = on

    def __enter__(self):
        if self.on:
            root = logging.getLogger()
            self.saved = (root.level, root.manager.disable, list(root.handlers))
            root.handlers[:] = [self._Sink(level=1)]
            root.setLevel(1)
            logging.disable(logging.NOTSET)
        return self

    def __exit__(self, *exc):
        if self.on:
            root = logging.getLogger()
            root.setLevel(self.saved[0])
            root.handlers[:] = self.saved[2]
            logging.disable(self.saved[1])
        return False


def run_case(shape_name, oa, scratch, policy, log_trace=True, start=0, memo=(), nopop=(), catch_crash=False, conds=None, verbose=False):
    with _Verbose(verbose):
        return _run_case(shape_name, oa, scratch, policy, log_trace, start, memo, nopop, catch_crash, conds)


def _run_case(shape_name, oa, scratch, policy, log_trace=True, start=0, memo=(), nopop=(), catch_crash=False, conds=None):
    """Runs one (shape, outcomes[, starting stage, memoization answers]) under one schedule policy.  Returns the harness
    (trace, final snapshot, flags).  catch_crash: an exception escaping the REAL stage loop (other than the verdict
    exceptions) is recorded in h.crash instead of being raised."""
    base_threads = set(threading.enumerate())
    h = Harness(shape_name, oa, scratch, policy, log_trace, start=start, memo=memo, nopop=nopop, conds=conds)
    with W.Installed(h.world) as inst:
        h.build(inst)
        h.step("Init")
        try:
            h.quiescent = h.execute()
            h.stuck = None
        except Stuck as e:
            h.quiescent = False
            h.stuck = str(e)
        except Exception as e:
            if not catch_crash:
                raise
            import traceback
            h.quiescent = False
            h.stuck = None
            h.crash = "%s: %s" % (type(e).__name__, e)
            h.crash_tb = traceback.format_exc()
        h.final = h.snapshot()
    h.threads = W.assert_no_threads(base_threads)
    shutil.rmtree(h.exp.instanceDirectory.location, ignore_errors=True)
    if getattr(h, "_package_dir", None):
        shutil.rmtree(h._package_dir, ignore_errors=True)
    return h


# ---------------------------------------------------------------------------------------------------------------
# trace -> TLA+ lives in harness/sched_trace.py (no import of the runtime needed to render a recorded run)
from .sched_trace import trace_to_tla, RunRecord, to_record      # noqa: E402,F401
