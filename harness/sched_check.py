"""Shared driver for C01 / C02: Scheduler.tla model checking + trace validation of real Controller runs."""
import itertools
import json
import os
import random
import shutil

from .common import SPEC, OUT, MachineryError, seed
from . import tlc
from . import sched_shapes as SS

GEN = os.path.join(SPEC, "gen")


def rundir(tag, shape_names):
    """A directory with its own copy of the modules and the generated data module."""
    d = os.path.join(GEN, "sched_" + tag)
    shutil.rmtree(d, ignore_errors=True)
    os.makedirs(d)
    for f in ("Scheduler.tla", "SchedulerTrace.tla"):
        shutil.copy(os.path.join(SPEC, f), os.path.join(d, f))
    with open(os.path.join(d, "SchedData.tla"), "w") as f:
        f.write(SS.data_module(shape_names))
    with open(os.path.join(d, "SchedTraceData.tla"), "w") as f:
        f.write("---- MODULE SchedTraceData ----\nTraces == <<>>\n====\n")
    return d


def cfg(path, body):
    with open(path, "w") as f:
        f.write(body)
    return path


CONST = "CONSTANTS\n  Emit = %s\n  FixObs = %s\n"


def model_check(tag, shape_names, props, invariants, fixobs=False, coverage=True, timeout=1700, workers=16, liveness=False):
    d = rundir(tag, shape_names)
    body = CONST % ("FALSE", "TRUE" if fixobs else "FALSE")
    body += "SPECIFICATION %s\n" % ("FairSpec" if liveness else "Spec")
    body += "".join("INVARIANT %s\n" % i for i in invariants) + "".join("PROPERTY %s\n" % p for p in props)
    body += "CHECK_DEADLOCK FALSE\n"
    c = cfg(os.path.join(d, "mc.cfg"), body)
    return tlc.run_tlc("Scheduler", c, specdir=d, coverage=coverage, timeout=timeout, workers=workers, expect_violation=True)


def emit_terminals(tag, shape_names, fixobs=False, timeout=1700):
    d = rundir(tag + "_emit", shape_names)
    body = CONST % ("TRUE", "TRUE" if fixobs else "FALSE") + "SPECIFICATION Spec\nINVARIANT EmitTerminal\nCHECK_DEADLOCK FALSE\n"
    c = cfg(os.path.join(d, "emit.cfg"), body)
    return tlc.run_tlc("Scheduler", c, specdir=d, workers=1, timeout=timeout)


def all_cases(shape_names, limit_per_shape=None, rnd=None):
    """(sid, shape_name, oa) for every outcome assignment the model explores."""
    out = []
    for sid, sn in enumerate(shape_names, 1):
        nodes = SS.expand(SS.BASE_SHAPES[sn])
        combos = list(itertools.product(*[n["outs"] for n in nodes]))
        if limit_per_shape and len(combos) > limit_per_shape:
            combos = rnd.sample(combos, limit_per_shape)
        out += [(sid, sn, list(oa)) for oa in combos]
    return out


POLICIES = [(1, 0.2, 1.0), (3, 0.5, 0.05), (6, 0.8, 1.0), (15, 0.5, 20.0), (60, 0.3, 1.0), (400, 0.5, 0.05),
            (4, 0.95, 0.05), (4, 0.05, 20.0), (2, 0.5, 1.0), (30, 0.9, 1.0),
            # negative burst: internal rx hops are eager, the randomness goes to exits / callbacks / passes
            (-2, 0.5, 1.0), (-6, 0.3, 1.0), (-12, 0.7, 1.0), (-3, 0.15, 1.0),
            # tasks exit only when nothing else can happen: long-running siblings keep a failing stage winding down
            (-4, 0.02, 1.0), (-8, 0.02, 1.0), (3, 0.02, 1.0)]


def run_real(cases, schedules, scratch, base_seed, per_shape_budget=None):
    """Runs every case under seeded random schedules on the real Controller. Returns list of harnesses.
    `schedules` per case; with per_shape_budget, shapes with few cases get more schedules per case (<= 3x)."""
    from . import ctl
    runs = []
    per_shape = {}
    for (_sid, sn, _oa) in cases:
        per_shape[sn] = per_shape.get(sn, 0) + 1
    for ci, (sid, sn, oa) in enumerate(cases):
        nsched = schedules
        if per_shape_budget:
            nsched = max(schedules, min(3 * schedules, -(-per_shape_budget // per_shape[sn])))
        for k in range(nsched):
            bm, eb, cw = POLICIES[(k + ci) % len(POLICIES)]
            pol = ctl.RandomPolicy(base_seed * 1000003 + ci * 101 + k, burst_max=abs(bm), env_bias=eb, ctrl_weight=cw, eager_internal=bm < 0)
            h = ctl.run_case(sn, oa, scratch, pol)
            h.sid, h.case_index, h.sched = sid, ci, (base_seed * 1000003 + ci * 101 + k, bm, eb, cw)
            runs.append(h)
    return runs


def validate_traces(tag, shape_names, runs, props=("TLaunchSafeModuloKnown", "TFinalAbsorbing", "TNoRunAfterFinal"),
                    invariants=("TypeOK", "DoneImpliesFinal", "RunOnlyStaged", "RestartBound"), fixobs=False, batch=400, timeout=1700):
    """Validates the recorded runs against SchedulerTrace.tla.  Returns (results, tlc results) where results[i] is
    None (accepted) or dict(step=..., kind=...)."""
    from . import ctl
    results = [None] * len(runs)
    tlcs = []
    for b0 in range(0, len(runs), batch):
        chunk = runs[b0:b0 + batch]
        d = rundir("%s_tr%d" % (tag, b0 // batch), shape_names)
        with open(os.path.join(d, "SchedTraceData.tla"), "w") as f:
            f.write("---- MODULE SchedTraceData ----\nTraces == <<\n  %s\n>>\n====\n" % ",\n  ".join(ctl.trace_to_tla(h, h.sid) for h in chunk))
        body = (CONST % ("FALSE", "TRUE" if fixobs else "FALSE")) + "SPECIFICATION TraceSpec\nCONSTRAINT Record\nPOSTCONDITION AllAccepted\n"
        body += "".join("INVARIANT %s\n" % i for i in invariants) + "".join("PROPERTY %s\n" % p for p in props) + "CHECK_DEADLOCK FALSE\n"
        c = cfg(os.path.join(d, "trace.cfg"), body)
        r = tlc.run_tlc("SchedulerTrace", c, specdir=d, workers=1, timeout=timeout, expect_violation=True)
        tlcs.append(r)
        out = r["out"]
        if r["violated"] and "postcondition" not in str(r["violated"]).lower():
            # an invariant / action property of the specification is false on logged real states
            import re
            m = re.search(r"/\\ tid = (\d+)", out[out.find("Error:"):])
            t = int(m.group(1)) - 1 if m else 0
            ls = re.findall(r"/\\ l = (\d+)", out[out.find("Error:"):])
            results[b0 + t] = dict(kind="property", prop=r["violated"], step=int(ls[-1]) if ls else None)
            # the remaining runs of this chunk were not fully examined: validate them individually
            rest = [h for i, h in enumerate(chunk) if i != t]
            if rest:
                sub, subt = validate_traces(tag + "r%d" % b0, shape_names, rest, props, invariants, fixobs, batch=max(1, len(rest) // 2), timeout=timeout)
                j = 0
                for i in range(len(chunk)):
                    if i != t:
                        results[b0 + i] = sub[j]
                        j += 1
                tlcs += subt
            continue
        import re
        m = re.search(r'<<\s*"REJECTED",(.*?)>>\s*\nError', out, re.S)
        if m:
            pairs = re.findall(r"(\d+) :> (\d+)", m.group(1))
            if not pairs:       # a function whose domain is 1..n is printed as a tuple
                pairs = [(str(i + 1), v) for i, v in enumerate(re.findall(r"\d+", m.group(1)))]
            if not pairs:
                raise MachineryError("cannot parse REJECTED report: %s" % m.group(1)[:200])
            for tt, ll in pairs:
                results[b0 + int(tt) - 1] = dict(kind="rejected", step=int(ll))
        elif not r["ok"]:
            raise MachineryError("trace validation failed to run: %s" % out[-3000:])
    return results, tlcs
