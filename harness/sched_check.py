"""Shared driver for C01 / C02: Scheduler.tla model checking + trace validation of real Controller runs."""
import atexit
import itertools
import json
import os
import random
import shutil

from .common import SPEC, OUT, MachineryError, seed
from . import tlc
from . import sched_shapes as SS

GEN = os.path.join(SPEC, "gen")
_RUNDIRS = set()


def rundir(tag, shape_names):
    """A directory with its own copy of the modules and the generated data module."""
    d = os.path.join(GEN, "sched_%s_%d" % (tag, os.getpid()))      # per process: checks may run concurrently
    shutil.rmtree(d, ignore_errors=True)
    os.makedirs(d)
    if d not in _RUNDIRS:
        _RUNDIRS.add(d)
        atexit.register(shutil.rmtree, d, True)
    for f in ("Scheduler.tla", "SchedulerTrace.tla"):
        shutil.copy(os.path.join(SPEC, f), os.path.join(d, f))
    with open(os.path.join(d, "SchedData.tla"), "w") as f:
        f.write(SS.data_module(shape_names))
    with open(os.path.join(d, "SchedTraceData.tla"), "w") as f:
        f.write("---- MODULE SchedTraceData ----\nTraces == <<>>\n====\n")
    return d


def cfg(path, body):
    with open(path, "w") as f:
        f.write(body)
    return path


def _b(x):
    return "TRUE" if x else "FALSE"


def consts(emit=False, fixobs=False, kill=False, starts=(0,), max_sleeps=0, memo=False, all_orders=True, fix_restart_race=True,
           fix_loop_after_stop=True):
    """The CONSTANTS section of a cfg for Scheduler.tla.  kill / starts / max_sleeps / memo switch on the environment
    actions of the growth item G02 (external kill, restart from a later stage, sleep / wake-up, memoization answers);
    with the defaults the model is the one of a fresh launch without any of them."""
    return ("CONSTANTS\n  Emit = %s\n  FixObs = %s\n  Kill = %s\n  Starts = {%s}\n  MaxSleeps = %d\n  Memo = %s\n  AllOrders = %s\n  FixRestartRace = %s\n  FixLoopAfterStop = %s\n" % (
        _b(emit), _b(fixobs), _b(kill), ", ".join(str(int(x)) for x in starts), max_sleeps, _b(memo), _b(all_orders), _b(fix_restart_race),
        _b(fix_loop_after_stop)))


def model_check(tag, shape_names, props, invariants, fixobs=False, coverage=True, timeout=1700, workers=16, liveness=False,
                deadlock=False, **env):
    """deadlock=True: NEXT NextOrIdle with CHECK_DEADLOCK (a state without successor must be the quiescent one)."""
    d = rundir(tag, shape_names)
    body = consts(False, fixobs, **env)
    if deadlock:
        body += "INIT Init\nNEXT NextOrIdle\n"
    else:
        body += "SPECIFICATION %s\n" % ("FairSpec" if liveness else "Spec")
    body += "".join("INVARIANT %s\n" % i for i in invariants) + "".join("PROPERTY %s\n" % p for p in props)
    body += "CHECK_DEADLOCK %s\n" % ("TRUE" if deadlock else "FALSE")
    c = cfg(os.path.join(d, "mc.cfg"), body)
    r = tlc.run_tlc("Scheduler", c, specdir=d, coverage=coverage, timeout=timeout, workers=workers, expect_violation=True)
    if not r["ok"] and r["violated"] is None:
        # TLC itself failed (JVM could not start, out of memory, parse error ...): say so instead of "vacuous model run"
        raise MachineryError("TLC failed (rc=%s) on %s:\n%s" % (r.get("rc"), tag, r["out"][-2500:]))
    return r


def emit_terminals(tag, shape_names, fixobs=False, timeout=1700, invariants=(), props=(), **env):
    """Prints every terminal state (one worker); further invariants / action properties may be checked in the same run."""
    d = rundir(tag + "_emit", shape_names)
    body = consts(True, fixobs, **env) + "SPECIFICATION Spec\nINVARIANT EmitTerminal\nCHECK_DEADLOCK FALSE\n"
    body += "".join("INVARIANT %s\n" % i for i in invariants) + "".join("PROPERTY %s\n" % p for p in props)
    c = cfg(os.path.join(d, "emit.cfg"), body)
    return tlc.run_tlc("Scheduler", c, specdir=d, workers=1, timeout=timeout)


def all_cases(shape_names, limit_per_shape=None, rnd=None):
    """(sid, shape_name, oa) for every outcome assignment the model explores."""
    out = []
    for sid, sn in enumerate(shape_names, 1):
        nodes = SS.expand(SS.BASE_SHAPES[sn])
        combos = list(itertools.product(*[n["outs"] for n in nodes]))
        if limit_per_shape and len(combos) > limit_per_shape:
            combos = rnd.sample(combos, limit_per_shape)
        out += [(sid, sn, list(oa)) for oa in combos]
    return out


# a slice of the restart-from-a-later-stage cases of the growth item G02, run by C01 / C02 themselves: Controller.initialise(k > 0)
RESTART_SHAPES = ["stages2", "obs2", "stages3", "obs3"]


def restart_cases(shape_names=RESTART_SHAPES):
    """(sid, shape, oa, dict(start=k)) for every starting stage k > 0 and every outcome assignment; the components of the
    skipped stages take the representative the model uses (their smallest listed outcome)."""
    out = []
    for sid, sn in enumerate(shape_names, 1):
        nodes = SS.expand(SS.BASE_SHAPES[sn])
        nstages = max(n["stage"] for n in nodes) + 1
        for start in range(1, nstages):
            combos = itertools.product(*[[min(n["outs"])] if n["stage"] < start else n["outs"] for n in nodes])
            out += [(sid, sn, list(oa), dict(start=start)) for oa in combos]
    return out


POLICIES = [(1, 0.2, 1.0), (3, 0.5, 0.05), (6, 0.8, 1.0), (15, 0.5, 20.0), (60, 0.3, 1.0), (400, 0.5, 0.05),
            (4, 0.95, 0.05), (4, 0.05, 20.0), (2, 0.5, 1.0), (30, 0.9, 1.0),
            # negative burst: internal rx hops are eager, the randomness goes to exits / callbacks / passes
            (-2, 0.5, 1.0), (-6, 0.3, 1.0), (-12, 0.7, 1.0), (-3, 0.15, 1.0),
            # tasks exit only when nothing else can happen: long-running siblings keep a failing stage winding down
            (-4, 0.02, 1.0), (-8, 0.02, 1.0), (3, 0.02, 1.0)]


def make_policy(sched):
    """sched = (seed, burst_max, env_bias, ctrl_weight[, env]) with env = dict(kill_p, sleep_p, wake_p, max_sleeps)."""
    from . import ctl
    seed_, bm, eb, cw = sched[:4]
    env = dict(sched[4]) if len(sched) > 4 and sched[4] else {}
    return ctl.RandomPolicy(seed_, burst_max=abs(bm), env_bias=eb, ctrl_weight=cw, eager_internal=bm < 0, **env)


def run_real(cases, schedules, scratch, base_seed, per_shape_budget=None, env_for=None, catch_crash=False, light=False):
    """Runs every case under seeded random schedules on the real Controller. Returns list of harnesses.
    `schedules` per case; with per_shape_budget, shapes with few cases get more schedules per case (<= 3x).
    A case is (sid, shape, oa) or (sid, shape, oa, extra) with extra = dict(start=k, memo=[node names], nopop=[..]).
    env_for(ci, k) -> dict(kill_p=.., sleep_p=.., wake_p=.., max_sleeps=..) or None: the calls into the controller from
    outside (external kill, sleep / wake-up) the schedule k of case ci is allowed to make.
    light: return sched_trace.RunRecord objects (plain data) instead of the harnesses."""
    from . import ctl
    runs = []
    per_shape = {}
    for case in cases:
        per_shape[case[1]] = per_shape.get(case[1], 0) + 1
    for ci, case in enumerate(cases):
        sid, sn, oa = case[:3]
        extra = dict(case[3]) if len(case) > 3 and case[3] else {}
        nsched = schedules
        if per_shape_budget:
            nsched = max(schedules, min(3 * schedules, -(-per_shape_budget // per_shape[sn])))
        for k in range(nsched):
            bm, eb, cw = POLICIES[(k + ci) % len(POLICIES)]
            env = env_for(ci, k) if env_for else None
            sched = (base_seed * 1000003 + ci * 101 + k, bm, eb, cw) + ((env,) if env else ())
            # every third run with all loggers of the runtime enabled (level 1)
            ex = dict(extra, verbose=True) if (k + 2 * ci) % 3 == 1 else extra
            h = ctl.run_case(sn, oa, scratch, make_policy(sched), catch_crash=catch_crash, **ex)
            h.sid, h.case_index, h.sched, h.extra = sid, ci, sched, ex
            # light: keep only the recorded data (picklable, and the real objects of the run can be collected)
            runs.append(ctl.to_record(h) if light else h)
    return runs


TRACE_PROPS = ("TFinalAbsorbing", "TNoRunAfterFinal", "TNoLaunchAfterStop", "TNoLaunchWhileAsleep", "TNoStageInWhileAsleep",
               "TLoopConsumerWaits")
TRACE_INVS = ("TypeOK", "DoneImpliesFinal", "RunOnlyStaged", "RestartBound", "KillReachesAll", "SkippedUntouched", "StageFromStart",
              "PostponedRecorded", "FailureHandled", "MemoNeverRuns", "MemoEndsFinished", "MemoOfferedNeverRuns",
              "NonLiveUntouched", "LiveIterations", "IterationJustified")


def validate_traces(tag, shape_names, runs, props=("TLaunchSafeModuloKnown",) + TRACE_PROPS,
                    invariants=TRACE_INVS, fixobs=False, batch=400, timeout=1700, fix_restart_race=True):
    """Validates the recorded runs against SchedulerTrace.tla.  Returns (results, tlc results) where results[i] is
    None (accepted) or dict(kind="rejected", step=furthest matched step) - no action of the specification explains the
    next recorded step - or dict(kind="property", prop=..., step=...) - an invariant / action property of the
    specification is false on the logged real states.  TLC runs with -continue: one invocation per batch reports every
    run that violates a property (the first violation per run is kept) and, through the postcondition, every rejected run."""
    import re
    from . import sched_trace as ctl          # rendering a recorded run needs no import of the runtime
    results = [None] * len(runs)
    tlcs = []
    for b0 in range(0, len(runs), batch):
        chunk = runs[b0:b0 + batch]
        d = rundir("%s_tr%d" % (tag, b0 // batch), shape_names)
        with open(os.path.join(d, "SchedTraceData.tla"), "w") as f:
            f.write("---- MODULE SchedTraceData ----\nTraces == <<\n  %s\n>>\n====\n" % ",\n  ".join(ctl.trace_to_tla(h, h.sid) for h in chunk))
        # the environment actions are all allowed when matching a recorded run (what happened is in the record)
        body = consts(False, fixobs, kill=True, starts=(0,), max_sleeps=99, memo=True, fix_restart_race=fix_restart_race)
        body += "SPECIFICATION TraceSpec\nCONSTRAINT Record\nPOSTCONDITION AllAccepted\n"
        body += "".join("INVARIANT %s\n" % i for i in invariants) + "".join("PROPERTY %s\n" % p for p in props) + "CHECK_DEADLOCK FALSE\n"
        c = cfg(os.path.join(d, "trace.cfg"), body)
        r = tlc.run_tlc("SchedulerTrace", c, specdir=d, workers=1, timeout=timeout, expect_violation=True, extra=["-continue"])
        tlcs.append(r)
        out = r["out"]
        if re.search(r"Error: Evaluating|Error: TLC threw|Exception", out) and "is violated" not in out and "REJECTED" not in out:
            raise MachineryError("trace validation failed to run: %s" % out[-3000:])
        # (1) properties false on logged real states: one block per violation
        cur = None
        blocks = []
        for line in out.splitlines():
            m = re.match(r"Error: (?:Invariant|Action property) (\S+) is violated", line)
            if m:
                cur = dict(prop=m.group(1), tid=None, l=None)
                blocks.append(cur)
                continue
            if line.startswith("Error: The postcondition") or line.startswith("<<"):
                cur = None
            if cur is not None:
                m = re.match(r"/\\ tid = (\d+)", line)
                if m:
                    cur["tid"] = int(m.group(1))
                m = re.match(r"/\\ l = (\d+)", line)
                if m:
                    cur["l"] = int(m.group(1))
        for b in blocks:
            if b["tid"] is None:
                raise MachineryError("cannot attribute the violation of %s to a run:\n%s" % (b["prop"], out[-2000:]))
            i = b0 + b["tid"] - 1
            if results[i] is None or (results[i]["kind"] == "property" and (b["l"] or 0) < (results[i]["step"] or 0)):
                results[i] = dict(kind="property", prop=b["prop"], step=b["l"])
        # (2) runs that were not matched to their end
        m = re.search(r'<<\s*"REJECTED",(.*?)>>\s*\n', out, re.S)
        if m:
            pairs = re.findall(r"(\d+) :> (\d+)", m.group(1))
            if not pairs:       # a function whose domain is 1..n is printed as a tuple
                pairs = [(str(i + 1), v) for i, v in enumerate(re.findall(r"\d+", m.group(1)))]
            if not pairs:
                raise MachineryError("cannot parse REJECTED report: %s" % m.group(1)[:200])
            for tt, ll in pairs:
                i = b0 + int(tt) - 1
                if results[i] is None:
                    results[i] = dict(kind="rejected", step=int(ll))
        elif not r["ok"] and not blocks:
            raise MachineryError("trace validation failed to run: %s" % out[-3000:])
    return results, tlcs
