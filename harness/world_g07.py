"""G07 (DataStaging): the model's world on a real file system, with the REAL staging code on top.

One `World` = one real experiment instance (realenv.experiment_from_flowir) in a scratch directory, built for one header
(reference list, repeating?, migrated?) of spec/DataStaging.tla:

    stage0:  p, q   producers (their working directories hold the source locations pa pd pl pm pt / qa qd)
    stage1:  s      a producer in the consumer's own stage (sa)
             c      THE CONSUMER, with the references under test            (migrated: the consumer is stage1.p)
    stage0:  lw     (only when a reference names the placeholder stage0.w) a DoWhile document with the looped component w:
                    iteration 0 = stage0.0#w (location w0), iteration 1 = stage0.1#w (w1) after the event `iter`
    input/a  data/a  app/a app/d   the direct sources (app = an application-dependency folder linked into the instance)

Every behaviour starts from `reset(src)`: the sources are rebuilt as the model's Init says, the consumer's working directory is
emptied, and a NEW Experiment object is made from the instance directory (Experiment.experimentFromInstance: new Job, new
JobWorkingDirectory) exactly as `elaunch -r` does.  The events of the model are then carried out for real:

    begin / again       ComponentState.stageIn(stageData=True)  ->  Job.stageIn  ->  StageReference per reference
                        (observed call by call: the module-level StageReference and the instance's updateInputs are wrapped,
                        the file system is projected after each call)
    restart keep        Experiment.experimentFromInstance + ComponentState.stageIn(stageData=False)
                        + `job.isStaged = True` (the two lines of Controller.finalize_submit_components)
    restart restage     Experiment.experimentFromInstance + ComponentState.stageIn(stageData=True)
    mut  l how          the source location is rewritten / removed / created on disk
    write t             open(<working directory>/t, "w") -- the consumer's task

`project()` is the abstraction function: names, kinds, link targets (as location ids), content ids of the working directory and of
every source location, WorkingDirectory.inputs, Job.isStaged, and the verdicts (res: what left Job.stageIn; launch: what left
ComponentState.stageIn = whether the controller launches).
"""
import io
import os
import shutil
import tarfile

from . import realenv

import experiment.model.data as D
import experiment.model.errors as E
import experiment.runtime.workflow as WF

LOCS = ["in", "da", "ap", "apd", "pa", "pd", "pl", "pm", "pt", "pp", "pg", "qa", "qd", "sa", "wa", "w0", "w1"]
REFPATH = {"in": "input/a", "da": "data/a", "ap": "app/a", "apd": "app/d", "pa": "stage0.p/a", "pd": "stage0.p/d", "pl": "stage0.p/l",
           "pm": "stage0.p/m", "pt": "stage0.p/t.tar", "pp": "stage0.p", "pg": "stage0.p/a*", "qa": "stage0.q/a", "qd": "stage0.q/d",
           "sa": "stage1.s/a", "wa": "stage0.w/a"}
RELPATH = {"in": "input/a", "da": "data/a", "ap": "app/a", "apd": "app/d", "pa": "stages/stage0/p/a", "pd": "stages/stage0/p/d",
           "pl": "stages/stage0/p/l", "pm": "stages/stage0/p/m", "pt": "stages/stage0/p/t.tar", "pp": "stages/stage0/p",
           "qa": "stages/stage0/q/a", "qd": "stages/stage0/q/d", "sa": "stages/stage1/s/a",
           "w0": "stages/stage0/0#w/a", "w1": "stages/stage0/1#w/a"}
DOWHILE = """
type: DoWhile
inputBindings: {}
loopBindings: {}
condition: 'w:output'
components:
- name: w
  command: {executable: echo, arguments: hello}
"""
TICK0 = 20


class Mismatch(Exception):
    pass


def refstr(r):
    return "%s:%s" % (REFPATH[r["l"]], r["m"])


def _rm(p):
    if os.path.islink(p) or os.path.isfile(p):
        os.unlink(p)
    elif os.path.isdir(p):
        shutil.rmtree(p)


def _tar(path, c):
    data = str(c).encode()
    with tarfile.open(path, "w") as t:
        for n in ("a", "d/a"):
            ti = tarfile.TarInfo(n)
            ti.size, ti.mode, ti.mtime = len(data), 0o644, 1500000000
            ti.uid, ti.gid = os.getuid(), os.getgid()
            t.addfile(ti, io.BytesIO(data))


def _content(p):
    """content id of a regular file: the number written into it (an archive: the number in its member a)"""
    try:
        if p.endswith(".tar"):
            with tarfile.open(p) as t:
                return int(t.extractfile("a").read().decode())
        with open(p) as f:
            return int(f.read().strip())
    except Exception:
        return -1


class World:
    def __init__(self, root, header):
        self.header = header
        self.refs = header["refs"]
        self.rep = bool(header["rep"])
        self.mig = bool(header["mig"])
        self.root = root
        shutil.rmtree(root, ignore_errors=True)
        os.makedirs(os.path.join(root, "app.application", "d"))
        with open(os.path.join(root, "app.application", "a"), "w") as f:
            f.write("3")
        with open(os.path.join(root, "user_input.txt"), "w") as f:
            f.write("1")
        comps = [realenv.simple_component("q", 0), realenv.simple_component("s", 1)]
        self.loop = any(r["l"] == "wa" for r in self.refs)
        extra_files = {"data/a": "2"}
        if self.loop:
            comps.append({"name": "lw", "stage": 0, "$import": "dowhile.yaml", "bindings": {}})
            extra_files["conf/dowhile.yaml"] = DOWHILE
        if self.mig:
            comps += [realenv.simple_component("p", 0, workflowAttributes={"isMigratable": True}),
                      realenv.simple_component("p", 1, references=["stage0.p:link"], workflowAttributes={"isMigrated": True})]
            self.cname = "p"
        else:
            extra = {"workflowAttributes": {"repeatInterval": 5}} if self.rep else {}
            comps += [realenv.simple_component("p", 0),
                      realenv.simple_component("c", 1, references=[refstr(r) for r in self.refs], **extra)]
            self.cname = "c"
        flowir = {"application-dependencies": {"default": ["app.application"]}, "components": comps}
        exp = realenv.experiment_from_flowir(flowir, root, extra_files=extra_files, inputs=[os.path.join(root, "user_input.txt") + ":a"], validate=False)      # the rename form  <path>:<name in input/>
        self.inst = exp.instanceDirectory.location
        self.wdpath = os.path.join(self.inst, "stages", "stage1", self.cname)
        self.cid = "stage1.%s" % self.cname
        self.path = {l: os.path.join(self.inst, RELPATH[l]) for l in RELPATH}
        self.bypath = {os.path.normpath(v): k for k, v in self.path.items()}
        self.refindex = {}
        for i, r in enumerate(self.refs):
            self.refindex["%s:%s" % (REFPATH[r["l"]], r["m"])] = i + 1
        # what the instance was created with: the renamed input file, the data file of the package, the application dependency (a link)
        self.created = {l: (_content(self.path[l]) if os.path.isfile(self.path[l]) else None) for l in ("in", "da", "ap")}
        self.created["app-is-link"] = os.path.islink(os.path.join(self.inst, "app"))
        self.exp = self.job = self.cs = None
        self.tick = TICK0
        self.res, self.launch = "none", "none"
        self.niter = 1

    # ---- building the sources -------------------------------------------------------------------------------------------
    def set_loc(self, l, ent):
        if l in ("pp", "pg", "wa"):
            return
        p = self.path[l]
        _rm(p)
        os.makedirs(os.path.dirname(p), exist_ok=True)
        k = ent["k"]
        if k == "file":
            if l == "pt":
                _tar(p, ent["c"])
            else:
                with open(p, "w") as f:
                    f.write(str(ent["c"]))
        elif k == "dir":
            os.mkdir(p)
            with open(os.path.join(p, "a"), "w") as f:
                f.write(str(ent["c"]))
        elif k == "link":
            # pl: the relative link  l -> a ; pm: the absolute link  m -> <q>/a
            os.symlink("a" if l == "pl" else self.path[ent["to"]], p)

    def new_objects(self):
        """what elaunch -r does first: an Experiment object from the instance directory"""
        self.exp = D.Experiment.experimentFromInstance(self.inst, updateInstanceConfiguration=False)
        self.job = self.exp.graph.nodes[self.cid]["componentInstance"]
        self.cs = WF.ComponentState(self.job, self.exp.experimentGraph, create_engine=False)

    def reset(self, src):
        if os.path.islink(self.wdpath):
            os.unlink(self.wdpath)
        else:
            shutil.rmtree(self.wdpath, ignore_errors=True)
        os.mkdir(self.wdpath)
        for d in ("stages/stage0/p", "stages/stage0/q", "stages/stage1/s") + (("stages/stage0/0#w",) if self.loop else ()):
            full = os.path.join(self.inst, d)
            for n in os.listdir(full):
                _rm(os.path.join(full, n))
        shutil.rmtree(os.path.join(self.inst, "stages/stage0/1#w"), ignore_errors=True)
        if self.niter != 1:
            self.exp = None                   # the graph of the last behaviour has a second iteration: start from the instance again
            self.niter = 1
        for l in LOCS:
            if l in src:
                self.set_loc(l, src[l])
        self.tick = TICK0
        self.res, self.launch = "none", "none"
        if self.exp is None:
            self.new_objects()
        else:
            # a fresh Job + JobWorkingDirectory for the consumer as Stage._initialise_components makes them when an Experiment
            # is built (Experiment.experimentFromInstance costs 40 ms; it is used for every Restart event)
            stage = self.exp._stages[1]
            self.job = stage._create_job(self.cname, self.exp.experimentGraph)
            stage._jobs[self.cname] = self.job
            self.cs = WF.ComponentState(self.job, self.exp.experimentGraph, create_engine=False)

    # ---- the abstraction function ----------------------------------------------------------------------------------------
    def _target(self, raw, holder):
        if not os.path.isabs(raw):
            return "rel:" + raw
        return self.bypath.get(os.path.normpath(raw), "?:" + raw)

    def project_wd(self):
        out = []
        top = self.wdpath
        if os.path.islink(top):
            return out, True
        for dp, ds, fs in os.walk(top):
            for n in list(ds) + fs:
                p = os.path.join(dp, n)
                rel = os.path.relpath(p, top).split(os.sep)
                if os.path.islink(p):
                    out.append((tuple(rel), "link", 0, self._target(os.readlink(p), dp)))
                elif os.path.isdir(p):
                    out.append((tuple(rel), "dir", 0, ""))
                else:
                    out.append((tuple(rel), "file", _content(p), ""))
            ds[:] = [d for d in ds if not os.path.islink(os.path.join(dp, d))]
        return out, False

    def project_src(self):
        out = {}
        for l, p in self.path.items():
            if l == "pp":
                continue
            if os.path.islink(p):
                raw = os.readlink(p)
                to = "pa" if raw == "a" else self.bypath.get(os.path.normpath(raw), "?:" + raw)
                out[l] = ("link", 0, to)
            elif os.path.isdir(p):
                out[l] = ("dir", _content(os.path.join(p, "a")), "")
            elif os.path.exists(p):
                out[l] = ("file", _content(p), "")
            else:
                out[l] = ("none", 0, "")
        return out

    def project(self):
        wd, wl = self.project_wd()
        return {"wd": sorted(wd), "wl": wl, "src": self.project_src(),
                "inp": sorted(os.path.basename(x) for x in self.job.workingDirectory.inputs),
                "st": bool(self.job.isStaged), "res": self.res, "launch": self.launch, "ni": self.niter}

    # ---- events --------------------------------------------------------------------------------------------------------
    def stage_in(self, first_label):
        """ComponentState.stageIn(stageData=True), observed call by call.  -> [(label, projection)]"""
        steps = [(first_label, self.project())]
        calls = []                       # (op, r, raised exception or None, fs snapshot)
        box = {}
        orig_sr = D.StageReference
        job = self.job

        def snap():
            wd, wl = self.project_wd()
            return {"wd": sorted(wd), "wl": wl, "src": self.project_src(), "ni": self.niter,
                    "inp": sorted(os.path.basename(x) for x in job.workingDirectory.inputs), "st": bool(job.isStaged)}

        def hooked(dataReference, location, graph):
            r = self.refindex.get(dataReference.stringRepresentation, 0)
            exc = None
            try:
                return orig_sr(dataReference, location, graph)
            except BaseException as e:
                exc = e
                raise
            finally:
                calls.append(("ref", r, exc, snap()))

        wdobj = job.workingDirectory
        orig_upd = wdobj.updateInputs

        def upd(*a, **k):
            try:
                return orig_upd(*a, **k)
            finally:
                calls.append(("upd", 0, None, snap()))

        orig_stage = job.stageIn

        def stage(*a, **k):
            try:
                return orig_stage(*a, **k)
            except BaseException as e:
                box["job_exc"] = e
                raise

        D.StageReference = hooked
        wdobj.updateInputs = upd
        job.stageIn = stage
        cs_exc = None
        try:
            self.cs.stageIn(stageData=True)
        except Exception as e:
            cs_exc = e
        finally:
            D.StageReference = orig_sr
            try:
                del wdobj.updateInputs
            except AttributeError:
                pass
            try:
                del job.stageIn
            except AttributeError:
                pass
        je = box.get("job_exc")
        if je is None:
            res = "ok"
        elif isinstance(je, E.DataReferenceFilesDoNotExistError):
            res = "missing"
        elif isinstance(je, E.DataReferenceCouldNotStageError):
            res = "nostage"
        else:
            res = "other:%s" % type(je).__name__
        if cs_exc is None:
            launch = "yes"
        elif isinstance(cs_exc, E.DataReferenceFilesDoNotExistError):
            launch = "failed"                # Controller: the component is FAILED, not launched
        else:
            launch = "abort"                 # Controller: the exception leaves finalize_submit_components
        if res.startswith("other"):
            box["detail"] = repr(je)[:300]
        # the exception left Job.stageIn directly from the last observed call <=> the stage-in was aborted there
        aborted_at_call = bool(calls) and je is not None and calls[-1][2] is je
        if self.mig:
            # the migration branch makes no observable calls: one step
            fs = snap()
            if je is not None:
                self.res, self.launch = ("other" if res.startswith("other") else res), launch
                steps.append((("step", "mig", "", 1), dict(fs, res=self.res, launch=self.launch)))
                return steps, box
            steps.append((("step", "mig", "", 1), dict(fs, st=steps[0][1]["st"], res=self.res, launch=self.launch)))
            self.res, self.launch = res, launch
            steps.append((("end", "", "", 0), self.project()))
            return steps, box
        for j, (op, r, exc, fs) in enumerate(calls):
            last = j == len(calls) - 1
            if last and aborted_at_call:
                self.res, self.launch = ("other" if res.startswith("other") else res), launch
            steps.append((("step", op, "", r), dict(fs, res=self.res, launch=self.launch)))
        if not aborted_at_call:
            if je is not None and not calls:
                # an exception before any reference was staged: nothing of the model explains it
                self.res, self.launch = "other", launch
                box["detail"] = repr(je)[:300]
            else:
                self.res, self.launch = ("other" if res.startswith("other") else res), launch
            steps.append((("end", "", "", 0), self.project()))
        return steps, box

    def apply(self, lab):
        """lab = (e, a, b, n) -> [(label, projection)] (several for a stage-in), box with diagnostics"""
        e, a, b, n = lab
        box = {}
        if e in ("begin", "again"):
            return self.stage_in((e, "", "", 0))
        if e == "restart":
            self.new_objects()
            if a == "restage":
                return self.stage_in(("restart", "restage", "", 0))
            try:
                self.cs.stageIn(stageData=False)
                self.launch = "yes"
            except Exception as x:
                self.launch = "abort"
                box["detail"] = repr(x)[:300]
            self.job.isStaged = True          # Controller.finalize_submit_components: `if not stage_in: comp.specification.isStaged = True`
            self.res = "skip"
            return [(("restart", "keep", "", 0), self.project())], box
        if e == "mut":
            self.tick += 1
            l, how = a, b
            p = self.path[l]
            if how == "mod":
                if os.path.isdir(p):
                    with open(os.path.join(p, "a"), "w") as f:
                        f.write(str(self.tick))
                elif l == "pt":
                    _tar(p, self.tick)
                else:
                    with open(p, "w") as f:
                        f.write(str(self.tick))
            elif how == "rm":
                _rm(p)
            elif how == "mkfile":
                self.set_loc(l, {"k": "file", "c": self.tick})
            elif how == "mkdir":
                self.set_loc(l, {"k": "dir", "c": self.tick})
            else:
                raise Mismatch("unknown mutation %s" % how)
            return [(("mut", l, how, 0), self.project())], box
        if e == "iter":
            # the loop gets its next iteration (not persisted: store_flowir_to_disk=False); its working directory is made as the
            # runtime would make it when it creates the Job of the new iteration
            wg = self.exp.experimentGraph
            meta = wg._documents["DoWhile"]["stage0.lw"]
            wg.instantiate_dowhile_next_iteration(meta["document"], 1, False)
            os.makedirs(os.path.join(self.inst, "stages/stage0/1#w"), exist_ok=True)
            self.niter = 2
            self.job = self.exp.graph.nodes[self.cid]["componentInstance"]
            return [(("iter", "", "", 0), self.project())], box
        if e == "write":
            self.tick += 1
            try:
                with open(os.path.join(self.wdpath, a), "w") as f:
                    f.write(str(self.tick))
            except OSError as x:
                box["detail"] = "the task cannot write %s: %r" % (a, x)
            return [(("write", a, "", 0), self.project())], box
        raise Mismatch("unknown event %r" % (lab,))

    def close(self):
        shutil.rmtree(self.root, ignore_errors=True)


# ---- the model's projection in the same shape ------------------------------------------------------------------------------
def model_projection(s):
    """s: the `s` field of a state emitted by DataStaging.tla (EmitState) -> the shape of World.project()"""
    wd = sorted((tuple(e["p"]), e["k"], e["c"], e["to"]) for e in s["wd"])
    src = {l: (v["k"], v["c"], v["to"]) for l, v in s["src"].items()}
    return {"wd": wd, "wl": s["wl"], "src": src, "inp": sorted(s["inp"]), "st": s["st"], "res": s["res"], "launch": s["launch"], "ni": s["ni"]}


def differences(real, model):
    out = []
    for k in ("wd", "wl", "inp", "st", "res", "launch", "ni"):
        if real[k] != model[k]:
            out.append("%s: real %s, specified %s" % (k, real[k], model[k]))
    for l in sorted(set(real["src"]) | set(model["src"])):
        if real["src"].get(l) != model["src"].get(l):
            out.append("source %s: real %s, specified %s" % (l, real["src"].get(l), model["src"].get(l)))
    return out
