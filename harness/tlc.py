"""Drive TLC: exhaustive / simulate runs, parse statistics, coverage and emitted JSON cases."""
import json
import os
import re
import shutil
import subprocess
import time

from .common import SPEC, OUT, MachineryError

JAR = "/opt/veriftools/tla/tla2tools.jar:/opt/veriftools/tla/CommunityModules-deps.jar"


def _parse_emitted(out):
    """Cases are emitted by the specs with PrintT(ToJson(x)): a line holding one TLA+ string literal."""
    cases = []
    for line in out.splitlines():
        line = line.strip()
        if line.startswith('"{') or line.startswith('"['):
            try:
                cases.append(json.loads(json.loads(line)))
            except Exception:
                pass
    return cases


def run_tlc(module, cfg, workers=16, timeout=900, simulate=None, depth=None, seed=None, env=None,
            specdir=SPEC, coverage=False, expect_violation=False, extra=None, deadlock=True, jvm=None):
    """Returns dict(generated, distinct, depth, ok, violated, out, cases, coverage, cmd, wall_s)."""
    meta = os.path.join(OUT, "tlc", "%s_%s_%d" % (module, os.path.basename(cfg).replace(".cfg", ""), os.getpid()))
    shutil.rmtree(meta, ignore_errors=True)
    os.makedirs(meta, exist_ok=True)
    cmd = ["java", "-XX:+UseParallelGC", "-Xmx8g", "-Djava.io.tmpdir=%s" % meta] + (jvm or []) + ["-cp", JAR, "tlc2.TLC",
           "-workers", str(workers), "-metadir", meta, "-noGenerateSpecTE", "-config", cfg]
    if not deadlock:
        cmd.append("-deadlock")
    if coverage:
        cmd += ["-coverage", "1"]
    if simulate:
        cmd += ["-simulate", "num=%d" % simulate]
        if depth:
            cmd += ["-depth", str(depth)]
        if seed is not None:
            cmd += ["-seed", str(seed)]
    if extra:
        cmd += extra
    cmd.append(module + ".tla")
    e = dict(os.environ)
    if env:
        e.update(env)
    t0 = time.time()
    try:
        p = subprocess.run(cmd, cwd=specdir, env=e, capture_output=True, text=True, timeout=timeout)
    except subprocess.TimeoutExpired:
        subprocess.run(["pkill", "-f", meta])
        shutil.rmtree(meta, ignore_errors=True)
        raise MachineryError("TLC timed out after %ss: %s" % (timeout, " ".join(cmd)))
    finally:
        pass
    out = p.stdout + p.stderr
    shutil.rmtree(meta, ignore_errors=True)
    res = {"cmd": " ".join(cmd[cmd.index("tlc2.TLC"):]), "out": out, "wall_s": round(time.time() - t0, 2),
           "mode": "simulate" if simulate else "exhaustive", "rc": p.returncode}
    m = re.search(r"(\d+) states generated, (\d+) distinct states found", out)
    if m:
        res["generated"], res["distinct"] = int(m.group(1)), int(m.group(2))
    else:
        m = re.search(r"(\d+) states checked", out)
        res["generated"] = res["distinct"] = int(m.group(1)) if m else 0
    m = re.search(r"depth of the complete state graph search is (\d+)", out)
    res["depth"] = int(m.group(1)) if m else None
    res["violated"] = None
    m = re.search(r"Error: Invariant (\S+) is violated|Error: Action property (\S+) is violated|"
                  r"Error: Temporal properties were violated|Error: Deadlock reached|"
                  r"Error: The postcondition has been violated|Error: Evaluating invariant (\S+) failed", out)
    if m:
        res["violated"] = m.group(1) or m.group(2) or m.group(3) or m.group(0)
    res["ok"] = (p.returncode == 0 and res["violated"] is None and "Error:" not in out)
    res["cases"] = _parse_emitted(out)
    if coverage:
        cov = {}
        for mm in re.finditer(r"<(\w+) line \d+, col \d+ to line \d+, col \d+ of module (\w+)(?: \([\d ]+\))?>: (\d+):(\d+)", out):
            cov[mm.group(1)] = cov.get(mm.group(1), 0) + int(mm.group(4))
        res["coverage"] = cov
    if not res["ok"] and not expect_violation and res["violated"] is None:
        raise MachineryError("TLC failed (rc=%s) for %s/%s:\n%s" % (p.returncode, module, cfg, out[-3000:]))
    return res


def sany(module, specdir=SPEC):
    p = subprocess.run(["java", "-cp", JAR, "tla2sany.SANY", module + ".tla"], cwd=specdir, capture_output=True, text=True)
    return p.returncode == 0 and "Semantic errors" not in p.stdout, p.stdout + p.stderr
