"""Lock-step world for G04 (spec/TaskLifecycle.tla): the REAL Task implementations that run offline and the REAL monitor
primitives, executed deterministically -- the driver decides which thread runs next and how far.

What is real:
  * experiment.runtime.backend_interfaces.localtask.LocalTask on top of the real subprocess.Popen (its __init__,
    poll / wait / _wait / _internal_poll / send_signal / terminate, _waitpid_lock, _handle_exitstatus);
  * experiment.runtime.backend_interfaces.task_simulator.SimulatorTask;
  * experiment.runtime.monitor: CreateMonitor, CreateDeathAction, CreateEventAction, CreateLocalProcessLifeCheck,
    MonitorExceptionTracker, MonitorActionError, MonitorTestError.
What is replaced (module attributes of the worker process only; /repo is not touched):
  * the kernel below Popen: Popen._execute_child (no fork: a pid of the `FakeKernel`), os.waitpid / os.kill as seen by
    the subprocess module (pids >= 5 000 000 belong to the fake kernel, everything else goes to the real os);
  * `threading` as seen by the modules under test: Thread -> `Gated` (a real thread that only runs while the driver
    waits for it: exactly one of {driver, one gated thread} runs at any time), Event -> `ShimEvent` (wait() parks the
    thread), Timer -> a pending entry of the world; Condition -> `ShimCondition`;
  * `time.sleep` -> parks the thread until the driver lets the virtual clock pass; `datetime.datetime.now()` -> the
    virtual clock.
Scheduling points of a gated thread: every blocking call (waitpid, Event.wait, sleep, Condition.wait), every call-back
into the environment (cancelEvent.is_set(), test / action / interval functions of a monitor), and -- for the files listed
in `trace` -- every source LINE (sys.settrace), so that the statements of LocalTask._wait_task_and_set_epoch_finished /
wait and of SimulatorTask._run / poll interleave with the driver at statement granularity.
"""
import datetime as _dt
import errno
import os
import signal
import subprocess
import sys
import threading
import types

from .common import MachineryError


class HarnessDrift(Exception):
    """The driver cannot follow a schedule for a reason that lies in the harness (machinery error, not a verdict)."""


class NotEnabled(Exception):
    """The specification says a step is possible but the real object is not there (thread not runnable, no timer pending ...):
    a conformance failure of the code."""


class Stuck(Exception):
    """A thread of the code under test did not reach a scheduling point: it blocks on something real (a dead-lock of the code)."""


class _Abort(SystemExit):
    """Unwinds a parked thread at the end of a case (BaseException: `except Exception` of the code does not stop it)."""


STEP_TIMEOUT = 20
BASE = _dt.datetime(2031, 3, 4, 12, 0, 0)
FAKE_PID0 = 5000000       # above every possible pid_max (4194304)


# ----------------------------------------------------------------------------------------------------------------------
# lock-step scheduler

class Gated:
    """One thread of the code under test.  status: new | ready (parked at a scheduling point) | blocked | done"""

    def __init__(self, world, fn, name=None, role="thread", trace=()):
        self.W = world
        self.fn = fn
        self.name = name or role
        self.role = role
        self.trace = tuple(trace)
        self.sem = threading.Semaphore(0)
        self.status = "new"
        self.at = ("new", {})
        self.can_run = None
        self.wake = None          # why a blocked thread was resumed (set by the driver)
        self.error = None
        self.result = None
        self.thread = threading.Thread(target=self._body, name=self.name, daemon=True)
        world.threads.append(self)
        self.thread.start()

    def _tracer(self, frame, event, arg):
        if event == "call" and frame.f_code.co_filename in self.trace:
            return self._line
        return None

    def _line(self, frame, event, arg):
        if event == "line":
            m = self.W.macro
            if m is None or m():        # macro step: only park when a statement changed the projected data (checked on this thread)
                self.W.point("line", lineno=frame.f_lineno, func=frame.f_code.co_name)
        return self._line

    def _body(self):
        self.sem.acquire()
        self.W.tls.g = self
        try:
            if not self.W.abort:
                if self.trace:
                    sys.settrace(self._tracer)
                try:
                    self.result = self.fn()
                finally:
                    sys.settrace(None)
        except _Abort:
            pass
        except BaseException as e:      # noqa: what escapes the thread is an observation
            self.error = e
        finally:
            self.status = "done"
            self.at = ("done", {})
            self.W.main_sem.release()

    def runnable(self):
        if self.status in ("new", "ready"):
            return True
        if self.status == "blocked":
            return bool(self.can_run())
        return False


class World:
    def __init__(self):
        self.tls = threading.local()
        self.reset()

    def reset(self):
        self.threads = []
        self.timers = []          # pending ShimTimer objects
        self.main_sem = threading.Semaphore(0)
        self.abort = False
        self.now = 0.0
        self.macro = None         # during a macro step: callable -> True when the projected data differ from those at its start
        self.spawn_hook = None    # called with (target, name) when the code under test creates a Thread; returns (role, trace)
        self.log = []

    def current(self):
        g = getattr(self.tls, "g", None)
        if g is not None and g.W is self:
            return g
        return None

    # -- called on gated threads ---------------------------------------------------------------------------------------
    def _park(self, g):
        self.main_sem.release()
        g.sem.acquire()
        if self.abort:
            raise _Abort()
        g.status = "running"

    def point(self, kind, **info):
        """A scheduling point: on a gated thread hand control to the driver; on the driver's thread a no-op."""
        g = self.current()
        if g is None:
            return None
        if self.abort:
            raise _Abort()
        g.status = "ready"
        g.at = (kind, info)
        g.wake = None
        self._park(g)
        return g.wake

    def block(self, kind, can_run, **info):
        """A blocking call: park until the driver resumes the thread (it only does when can_run() holds)."""
        g = self.current()
        if g is None:
            raise HarnessDrift("the driver's own thread would block in %s %s" % (kind, info))
        if self.abort:
            raise _Abort()
        g.status = "blocked"
        g.can_run = can_run
        g.at = (kind, info)
        g.wake = None
        self._park(g)
        return g.wake

    # -- called on the driver's thread ---------------------------------------------------------------------------------
    def spawn(self, fn, name=None, role="thread", trace=()):
        return Gated(self, fn, name, role, trace)

    def step(self, g, wake=None, value=None):
        """Let g run until its next scheduling point / its end.  wake="timeout": the timed wait / sleep of g ends (the virtual clock
        jumps to its due time); value: what the scheduling point returns to the code that called it (outcome of a call-back)."""
        if self.current() is not None:
            raise HarnessDrift("step() called from a gated thread")
        if g.status == "done":
            raise NotEnabled("thread %s has ended" % g.name)
        if g.status == "blocked" and wake is None and not g.can_run():
            raise NotEnabled("thread %s is blocked in %s" % (g.name, g.at[0]))
        if wake is not None and (g.status != "blocked" or g.at[1].get("due") is None):
            raise NotEnabled("thread %s is not in a timed wait (%s)" % (g.name, g.at[0]))
        if wake is not None:
            self.now = max(self.now, g.at[1]["due"])
        g.wake = wake if wake is not None else value
        g.sem.release()
        if not self.main_sem.acquire(timeout=STEP_TIMEOUT):
            g.stuck = True
            self.main_sem = threading.Semaphore(0)      # whatever that thread does later must not disturb the next case
            raise Stuck("thread %s (%s) did not reach a scheduling point within %d s after %s %s" % (g.name, g.role, STEP_TIMEOUT, g.at[0], g.at[1]))
        return g.at

    def stop_all(self):
        """Unwind every thread that is still parked."""
        self.abort = True
        for g in list(self.threads):
            if g.status != "done" and not getattr(g, "stuck", False):
                g.sem.release()
                if not self.main_sem.acquire(timeout=60):
                    raise MachineryError("could not stop lock-step thread %s" % g.name)
                g.thread.join(60)
                if g.thread.is_alive():
                    raise MachineryError("lock-step thread %s survived the end of its case" % g.name)
        self.threads = []
        self.timers = []


W = World()


# ----------------------------------------------------------------------------------------------------------------------
# shims of threading / time / datetime as seen by the modules under test

class ShimEvent(threading.Event):
    """threading.Event whose wait() parks the calling gated thread.  yield_isset: is_set() is a scheduling point (after the
    flag was read), used for the cancel events of the monitors."""

    def __init__(self, name="event", yield_isset=False):
        threading.Event.__init__(self)
        self.name = name
        self.yield_isset = yield_isset
        self.flag = False
        self.reads = 0

    def is_set(self):
        v = self.flag
        if self.yield_isset and W.current() is not None:
            self.reads += 1
            W.point("isset", ev=self.name, value=v)
        return v

    isSet = is_set

    def set(self):
        self.flag = True

    def clear(self):
        self.flag = False

    def wait(self, timeout=None):
        if W.current() is not None:
            W.point("eventer", ev=self.name)       # the caller has decided to wait; the flag is looked at after this point
        if self.flag:
            return True
        due = None if timeout is None else W.now + timeout
        why = W.block("evwait", lambda: self.flag, ev=self.name, timeout=timeout, due=due)
        # why == "timeout": the driver let the time-out pass
        return self.flag


class ShimTimer:
    """threading.Timer: start() registers the function with the world; the driver fires it (in a gated thread)."""

    def __init__(self, interval, function, args=None, kwargs=None):
        self.interval = interval
        self.function = function
        self.args = args or ()
        self.kwargs = kwargs or {}
        self.name = "Timer"
        self.daemon = False
        self.started = False
        self.cancelled = False
        self.due = None

    def start(self):
        if self.started:
            raise RuntimeError("threads can only be started once")
        self.started = True
        self.due = W.now + self.interval
        W.timers.append(self)

    def cancel(self):
        self.cancelled = True
        if self in W.timers:
            W.timers.remove(self)


class ShimThread:
    """threading.Thread as the code under test sees it: start() creates a gated thread."""

    def __init__(self, group=None, target=None, name=None, args=(), kwargs=None, daemon=None):
        self._target, self._args, self._kwargs = target, args, kwargs or {}
        self.name = name or "Thread"
        self.daemon = daemon
        self.gated = None

    def start(self):
        role, trace = "thread", ()
        if W.spawn_hook is not None:
            role, trace = W.spawn_hook(self._target, self.name)
        self.gated = W.spawn(lambda: self._target(*self._args, **self._kwargs), name=self.name, role=role, trace=trace)

    def is_alive(self):
        return self.gated is not None and self.gated.status != "done"

    def join(self, timeout=None):
        if self.gated is None or self.gated.status == "done":
            return
        W.block("join", lambda: self.gated.status == "done", thread=self.name)


class ShimLock:
    """threading.Lock for gated threads: a thread that wants the lock while another one holds it parks (scheduling point)."""

    def __init__(self):
        self.owner = None

    def acquire(self, blocking=True, timeout=-1):
        me = W.current() or "driver"
        if self.owner is not None:
            if not blocking:
                return False
            if me == "driver":
                raise HarnessDrift("the driver would block on a lock held by %s" % getattr(self.owner, "name", self.owner))
            W.block("lock", lambda: self.owner is None, what="lock")
        self.owner = me
        return True

    def release(self):
        if self.owner is None:
            raise RuntimeError("release unlocked lock")
        self.owner = None

    def locked(self):
        return self.owner is not None

    __enter__ = acquire

    def __exit__(self, *a):
        self.release()


class ShimCondition:
    """threading.Condition for gated threads (no real lock is needed: only one thread runs at a time; the lock is modelled
    so that a thread that wants it while another one holds it parks)."""

    def __init__(self, lock=None):
        self.owner = None
        self.depth = 0
        self.waiters = []         # [gated, notified]

    def _me(self):
        return W.current() or "driver"

    def acquire(self, blocking=True, timeout=-1):
        me = self._me()
        if self.owner is me:
            self.depth += 1
            return True
        if self.owner is not None:
            if me == "driver":
                raise HarnessDrift("the driver would block on a condition lock held by %s" % getattr(self.owner, "name", self.owner))
            W.block("lock", lambda: self.owner is None, what="condition")
        self.owner = me
        self.depth = 1
        return True

    def release(self):
        self.depth -= 1
        if self.depth == 0:
            self.owner = None

    __enter__ = acquire

    def __exit__(self, *a):
        self.release()

    def wait(self, timeout=None):
        me = self._me()
        if self.owner is not me:
            raise RuntimeError("cannot wait on un-acquired lock")
        depth, self.depth, self.owner = self.depth, 0, None
        rec = [me, False]
        self.waiters.append(rec)
        due = None if timeout is None else W.now + timeout
        why = W.block("condwait", lambda: rec[1], timeout=timeout, due=due)
        if rec in self.waiters:
            self.waiters.remove(rec)
        if self.owner is not None:
            W.block("lock", lambda: self.owner is None, what="condition")
        self.owner, self.depth = me, depth
        return rec[1]

    def notify(self, n=1):
        if self.owner is not self._me():
            raise RuntimeError("cannot notify on un-acquired lock")
        for rec in self.waiters[:n]:
            rec[1] = True
        del self.waiters[:n]

    def notify_all(self):
        self.notify(len(self.waiters))


class VDateTime(_dt.datetime):
    @classmethod
    def now(cls, tz=None):
        return BASE + _dt.timedelta(seconds=W.now)


class _Forward:
    def __init__(self, real, **over):
        self.__dict__["_real"] = real
        self.__dict__.update(over)

    def __getattr__(self, n):
        return getattr(self._real, n)


def shim_sleep(secs):
    if W.current() is None:
        raise HarnessDrift("the driver's own thread would sleep %s s" % secs)
    W.block("sleep", lambda: False, secs=secs, due=W.now + secs)     # only the driver's "time passes" wakes a sleeper


def threading_ns():
    return _Forward(threading, Thread=ShimThread, Event=ShimEvent, Timer=ShimTimer, Condition=ShimCondition)


def time_ns():
    import time
    return _Forward(time, sleep=shim_sleep, time=lambda: 1.9e9 + W.now)


def datetime_ns():
    return _Forward(_dt, datetime=VDateTime)


# ----------------------------------------------------------------------------------------------------------------------
# the kernel below subprocess.Popen

class FakeKernel:
    """Processes: run -> zombie (exit status known to the kernel) -> reaped (waitpid consumed it; the pid is free)."""

    def __init__(self):
        self.procs = {}
        self.next_pid = FAKE_PID0
        self.fail_next = None

    def reset(self):
        self.procs = {}
        self.fail_next = None

    def owns(self, pid):
        return isinstance(pid, int) and pid >= FAKE_PID0

    def spawn(self, disp="die"):
        pid = self.next_pid
        self.next_pid += 1
        self.procs[pid] = dict(state="run", sts=None, code=None, disp=disp, sigs=[], late=0, lost=0)
        return pid

    def exit(self, pid, code, core=False):
        """The process ends by itself with exit code `code` (>= 0) or is ended by signal -code."""
        p = self.procs[pid]
        if p["state"] != "run":
            raise NotEnabled("process %d is not running" % pid)
        p["state"] = "zombie"
        p["code"] = code
        p["sts"] = (code << 8) if code >= 0 else ((-code) | (0x80 if core else 0))

    # -- os.kill / os.waitpid ------------------------------------------------------------------------------------------
    def kill(self, pid, sig):
        p = self.procs.get(pid)
        if p is None or p["state"] == "reaped":
            if p is not None:
                p["lost"] += 1
            raise ProcessLookupError(errno.ESRCH, "No such process")
        if p["state"] == "zombie":
            p["late"] += 1
            return
        p["sigs"].append(int(sig))
        if int(sig) == signal.SIGTERM and p["disp"] == "ignore":
            return
        if sig != 0:
            self.exit(pid, -int(sig))

    def waitpid(self, pid, flags):
        p = self.procs.get(pid)
        if p is None or p["state"] == "reaped":
            raise ChildProcessError(errno.ECHILD, "No child processes")
        if p["state"] == "run":
            if flags & os.WNOHANG:
                return (0, 0)
            W.block("waitpid", lambda: p["state"] != "run", pid=pid)
            if p["state"] == "reaped":
                raise ChildProcessError(errno.ECHILD, "No child processes")
        p["state"] = "reaped"
        if not (flags & os.WNOHANG):
            W.point("reaped", pid=pid)          # the system call returned; Popen has not yet looked at the status
        return (pid, p["sts"])


K = FakeKernel()
_installed = {}


class _OsProxy:
    """`os` as seen by the subprocess module: kill / waitpid of fake pids go to the fake kernel."""

    def __init__(self, real):
        self.__dict__["_real"] = real

    def __getattr__(self, n):
        return getattr(self._real, n)

    def kill(self, pid, sig):
        if K.owns(pid):
            return K.kill(pid, sig)
        return self._real.kill(pid, sig)

    def waitpid(self, pid, flags):
        if K.owns(pid):
            return K.waitpid(pid, flags)
        return self._real.waitpid(pid, flags)


def install_kernel(task_class):
    """Popen objects of `task_class` get their process from the fake kernel (this process only)."""
    if "kernel" in _installed:
        return
    real_exec = subprocess.Popen._execute_child
    proxy = _OsProxy(os)

    def _execute_child(self, *a, **k):
        if not isinstance(self, task_class):
            return real_exec(self, *a, **k)
        if K.fail_next is not None:
            e, K.fail_next = K.fail_next, None
            raise e
        self.pid = K.spawn(getattr(K, "disp_next", "die"))
        self._child_created = True

    subprocess.Popen._execute_child = _execute_child
    subprocess.os = proxy
    d = subprocess.Popen._internal_poll.__defaults__
    if len(d) != 4 or d[1] is not os.waitpid:
        raise HarnessDrift("subprocess.Popen._internal_poll has unexpected defaults %r" % (d,))
    subprocess.Popen._internal_poll.__defaults__ = (d[0], proxy.waitpid, d[2], d[3])
    _installed["kernel"] = True


# ----------------------------------------------------------------------------------------------------------------------
# drivers: one real object per case, actions named as in spec/TaskLifecycle.tla

NORC = 999
PYVAL = {"True": True, "False": False, "One": 1, "Zero": 0, "None": None}


def _setup_modules():
    """Import the modules under test and give them the shims (once per process)."""
    if "mods" in _installed:
        return _installed["mods"]
    from . import realenv  # noqa: F401  (logging off, experiment.model imported)
    import experiment.runtime.backend_interfaces.localtask as lt
    import experiment.runtime.monitor as mon
    install_kernel(lt.LocalTask)
    lt.threading = threading_ns()
    lt.datetime = datetime_ns()
    mon.threading = threading_ns()
    mon.time = time_ns()
    mon.datetime = datetime_ns()
    _installed["mods"] = (lt, mon)
    return lt, mon


def _rc(v):
    return NORC if v is None else v


class TaskDriver:
    """One LocalTask on the fake kernel, optionally a death / event monitor attached to it."""

    FIELDS = ("k", "st", "disp", "rc", "lock", "w", "fin", "epoch", "ev", "opc", "seen", "sigs", "late", "lost", "res",
              "dm", "tpc", "tsaw", "tval", "cancel", "timers", "nact", "nerr", "terr", "actc")
    WPC = {"none": "none", "new": "r", "blocked": "b", "sys": "s", "post": "r", "fin": "r", "epoch": "r", "done": "d"}

    def __init__(self, observers=2, mon_kind="none", test_kind="task"):
        self.lt, self.mon = _setup_modules()
        W.stop_all()
        W.reset()
        K.reset()
        self.mon.MonitorExceptionTracker.default = None
        W.spawn_hook = self._spawn_hook
        self.nobs = observers
        self.mon_kind, self.test_kind = mon_kind, test_kind
        self.task = None
        self.failed = False
        self.waiter = None
        self.obs = {}
        self.seen = {}
        self.res = ["-", NORC, "-", "-"]
        # monitor
        self.cancel = ShimEvent("cancel", yield_isset=True)
        self.tick = None
        self.mstate = "off"
        self.tsaw = False
        self.tval = "-"
        self.nact = 0
        self.actc = False
        self.act_alive = None
        self.terr = "none"
        self.next_test = None

    def close(self):
        W.stop_all()
        for p in K.procs.values():
            p["state"] = "reaped"
        self.task = None

    def _spawn_hook(self, target, name):
        if getattr(target, "__name__", "") == "_wait_task_and_set_epoch_finished":
            return "waiter", (self.lt.__file__,)
        return "thread", ()

    # -- projection --------------------------------------------------------------------------------------------------
    def _wstat(self):
        g = self.waiter
        if g is None:
            return "none"
        if g.status == "done":
            return "d"
        if g.status == "blocked" and g.at[0] == "waitpid":
            return "b"
        if g.at[0] == "reaped":
            return "s"
        return "r"

    def _ostat(self, o):
        g = self.obs.get(o)
        if g is None:
            return "idle"
        if g.status == "done":
            return "done"
        if g.status == "blocked" and g.at[0] == "evwait":
            return "evwait"
        if g.status == "blocked":
            return "blocked in %s" % g.at[0]
        if g.at[0] == "eventer":
            return "chk"
        return "new"

    def _tpc(self):
        g = self.tick
        if g is None or g.status == "done":
            return "none"
        return {"new": "new", "isset": "chk", "tested": "tst", "action": "act"}.get(g.at[0], "?" + g.at[0])

    def data(self):
        """The part of the projection that statements of the code change (thread positions excluded)."""
        t = self.task
        if t is None:
            return None
        p = K.procs[t.pid]
        cell = t.schedulingData.matrix[0][t.schedulingData.indexOfColumnWithHeader("epoch-finished")]
        return (p["state"], p["code"], t.returncode, t._waitpid_lock.locked(), t._z_finished_date is not None, cell != "None",
                t._z_wait_event.flag, tuple(sorted(self.seen.items())), len(p["sigs"]), p["late"], p["lost"])

    def project(self):
        t = self.task
        d = {}
        if t is None:
            d.update(k="failed" if self.failed else "none", st=0, disp="die", rc=NORC, lock=False, w="none", fin=False, epoch=False,
                     ev=False, sigs=[], late=0, lost=0)
        else:
            p = K.procs[t.pid]
            cell = t.schedulingData.matrix[0][t.schedulingData.indexOfColumnWithHeader("epoch-finished")]
            d.update(k=p["state"], st=p["code"] or 0, disp=p["disp"], rc=_rc(t.returncode), lock=t._waitpid_lock.locked(), w=self._wstat(),
                     fin=t._z_finished_date is not None, epoch=cell != "None", ev=t._z_wait_event.flag, sigs=list(p["sigs"]),
                     late=p["late"], lost=p["lost"])
        d["opc"] = [self._ostat(o) for o in range(1, self.nobs + 1)]
        d["seen"] = [list(self.seen.get(o, (NORC, False))) for o in range(1, self.nobs + 1)]
        tr = self.mon.MonitorExceptionTracker.default
        d.update(dm=self.mstate, tpc=self._tpc(), tsaw=self.tsaw, tval=self.tval, cancel=self.cancel.flag, timers=len(W.timers),
                 nact=self.nact, nerr=len(tr.exceptions) if tr is not None else 0, terr=self.terr, actc=self.actc)
        return d

    @classmethod
    def spec_state(cls, arr):
        d = dict(zip(cls.FIELDS, arr))
        d["w"] = cls.WPC[d["w"]]
        del d["res"]            # the result of an API call is compared when the call is made (it is on the transition)
        return d

    # -- actions -----------------------------------------------------------------------------------------------------
    def _thread_step(self, g, **kw):
        """Run g until a statement changed the projected data, or it blocks / reaches a call-back / ends."""
        before = self.data()
        W.macro = lambda: self.data() != before
        try:
            return W.step(g, **kw)
        finally:
            W.macro = None

    def raw_step(self, g, **kw):
        """One source line (random runs)."""
        return W.step(g, **kw)

    def _view(self):
        t = self.task
        alive = t.isAlive()
        polled = t.poll()
        reason = t.exitReason
        status = t.status
        if polled != t.returncode:
            status = "poll()=%r but returncode=%r" % (polled, t.returncode)
        return ["T" if alive is True else "F" if alive is False else repr(alive), _rc(polled), "None" if reason is None else reason, status]

    def call(self, name):
        t = self.task
        if t is None:
            raise NotEnabled("no task")
        try:
            if name == "kill":
                r = t.kill()
            elif name == "terminate":
                r = t.terminate()
            elif name == "poll":
                r = t.poll()
            elif name == "isAlive":
                r = t.isAlive()
            elif name == "exitReason":
                r = t.exitReason
            elif name == "status":
                r = t.status
            else:
                raise HarnessDrift("unknown call %s" % name)
            if name in ("kill", "terminate"):
                self.res = ["-", NORC, "-", "-"] if r is None else ["returned %r" % (r,), NORC, "-", "-"]
            else:
                self.res = self._view()
        except (HarnessDrift, NotEnabled, MachineryError):
            raise
        except Exception as e:       # noqa: the Task API promises not to raise
            self.res = ["raised %s: %s" % (type(e).__name__, e), NORC, "-", "-"]
        return self.res

    def _make_monitor(self):
        task, cancel = self.task, self.cancel
        death = self.mon_kind == "death"
        real_check = self.mon.CreateLocalProcessLifeCheck(task) if (task is not None and self.test_kind == "task") else None

        def test():
            if self.test_kind == "task":
                v = real_check() if death else (not task.isAlive())
                self.tval = "True" if v is True else "False" if v is False else repr(v)
                W.point("tested")
                return v
            self.tval = self.next_test
            W.point("tested")
            if self.next_test == "raise":
                raise RuntimeError("test function failed")
            return PYVAL[self.next_test]

        def action():
            self.nact += 1
            self.actc = cancel.flag
            self.act_alive = None if task is None else task.returncode is None
            out = W.point("action")
            if out != "ok":
                raise RuntimeError("action failed")
        test.__name__, action.__name__ = "test", "action"
        if death:
            return self.mon.CreateDeathAction(test, 20.0, action, cancelEvent=cancel, name="deathmon")
        return self.mon.CreateEventAction(20.0, test, action, cancelEvent=cancel)

    def _tick_step(self, **kw):
        g = self.tick
        if g is None or g.status == "done":
            raise NotEnabled("no tick is running")
        at = W.step(g, **kw)
        if at[0] == "isset":
            self.tsaw = at[1]["value"]
        if g.status == "done":
            if g.error is not None:
                self.terr = type(g.error).__name__
            if W.timers:
                self.mstate = "armed"
            elif g.error is not None and self.terr == "MonitorTestError":
                self.mstate = "died"
            elif self.entered_action:
                self.mstate = "fired"
            else:
                self.mstate = "stopped"
        elif at[0] == "action":
            self.entered_action = True

    def apply(self, label):
        op, arg = label[0], label[1]
        if op == "Create":
            if arg == "fail":
                K.fail_next = FileNotFoundError(errno.ENOENT, "No such file or directory: 'nowhere'")
                try:
                    self.lt.LocalTask("true", cwd="nowhere", shell=True)
                    raise NotEnabled("LocalTask() did not raise although the launch failed")
                except FileNotFoundError:
                    self.failed = True
            else:
                K.disp_next = arg
                self.task = self.lt.LocalTask("run-me --fast", shell=True)
                if self.task._waitpid_lock.locked():
                    raise HarnessDrift("Popen._waitpid_lock is taken right after the constructor")
                self.task._waitpid_lock = ShimLock()       # blocking on it is a scheduling point (the waiter thread has not run yet)
                self.waiter = W.threads[-1] if W.threads else None
                if self.waiter is None or self.waiter.role != "waiter":
                    raise NotEnabled("LocalTask() started no waiter thread")
        elif op == "ProcExit":
            K.exit(self.task.pid, arg)
        elif op == "ExtSignal":
            K.exit(self.task.pid, -arg)
        elif op == "Call":
            return self.call(arg)
        elif op == "W":
            if self.waiter is None:
                raise NotEnabled("no waiter thread")
            self._thread_step(self.waiter)
        elif op == "WaitCall":
            task = self.task

            def body(o=arg):
                task.wait()
                cell = task.schedulingData.matrix[0][task.schedulingData.indexOfColumnWithHeader("epoch-finished")]
                self.seen[o] = (_rc(task.returncode), cell != "None")
            self.obs[arg] = W.spawn(body, name="observer%d" % arg, role="observer", trace=(self.lt.__file__,))
        elif op == "O":
            self._thread_step(self.obs[arg])
        elif op == "MonStart":
            m = self._make_monitor()
            self.entered_action = False
            self.tick = W.spawn(m, name="tick", role="tick")
            self.mstate = "tick"
        elif op == "Cancel":
            self.cancel.set()
        elif op == "Fire":
            if not W.timers:
                raise NotEnabled("no timer is pending")
            tm = W.timers.pop(0)
            self.entered_action = False
            self.tick = W.spawn(lambda: tm.function(*tm.args, **tm.kwargs), name=tm.name, role="tick")
            self.mstate = "tick"
        elif op == "T":
            g = self.tick
            if g is not None and g.at[0] == "isset":
                self.next_test = arg
                self._tick_step()
            elif g is not None and g.at[0] == "action":
                self._tick_step(value=arg)
            else:
                self._tick_step()
        else:
            raise HarnessDrift("unknown action %r" % (label,))


class PerDriver:
    """One CreateMonitor thread."""

    FIELDS = ("ppc", "pv", "pcont", "pretry", "pnorm", "plast", "pafter", "ppoll", "pgap", "cancel", "nerr")
    POLL = 2.0
    INTERVAL = 10.0

    def __init__(self, last_action=True, interval_kind="number"):
        self.lt, self.mon = _setup_modules()
        W.stop_all()
        W.reset()
        self.mon.MonitorExceptionTracker.default = None
        W.spawn_hook = lambda target, name: ("periodic", ())
        self.last_action, self.interval_kind = last_action, interval_kind
        self.cancel = ShimEvent("cancel", yield_isset=True)
        self.g = None
        self.acts = []
        self.after = 0
        self.pv = False
        self.secs = None

    def close(self):
        W.stop_all()

    def project(self):
        g = self.g
        if g is None:
            pc = "off"
        elif g.status == "done":
            pc = "done" if g.error is None else "crashed:%s" % type(g.error).__name__
        else:
            kind, info = g.at
            pc = {"new": "new", "isset": "isset", "action": "act", "evwait": "wait", "interval": "ivl", "eventer": "w0"}.get(kind)
            if kind == "sleep":
                pc = {5: "x5", 30: "x30", self.POLL: "poll"}.get(info["secs"], "sleep%s" % info["secs"])
            if kind == "evwait" and info["timeout"] != self.INTERVAL:
                pc = "wait%s" % info["timeout"]
            if pc is None:
                pc = "?" + kind
        tr = self.mon.MonitorExceptionTracker.default
        d = dict(ppc=pc, pv=self.pv, pnorm=sum(1 for a in self.acts if a is False), plast=sum(1 for a in self.acts if a is True),
                 pafter=self.after, cancel=self.cancel.flag, nerr=len(tr.exceptions) if tr is not None else 0,
                 other=[a for a in self.acts if a is not True and a is not False])
        d["ppoll"] = (self.secs / self.POLL) if pc == "ivl" else None
        return d

    @classmethod
    def spec_state(cls, arr):
        d = dict(zip(cls.FIELDS, arr))
        d["ppc"] = {"c1": "isset", "c3": "isset", "c8": "isset"}.get(d["ppc"], d["ppc"])
        if d["ppc"] != "ivl":
            d["ppoll"] = None
        for h in ("pcont", "pretry", "pgap"):      # local variables of the thread / ghost
            del d[h]
        d["other"] = []
        return d

    def apply(self, label):
        op, arg = label[0], label[1]
        mon = self.mon
        if op == "Start":
            import experiment.model.errors as merr

            def action(last):
                self.acts.append(last)
                if last is False and self.cancel.flag:
                    self.after += 1
                out = W.point("action", last=last)
                if out == "exc":
                    raise RuntimeError("action failed")
                if out == "fs":
                    raise merr.FilesystemInconsistencyError("directory vanished", None)

            def interval(secs):
                self.secs = secs
                return W.point("interval", secs=secs) == "now"
            action.__name__ = "action"
            start = mon.CreateMonitor(self.INTERVAL if self.interval_kind == "number" else interval, action, self.cancel,
                                      lastAction=self.last_action, name="periodic", default_polling_time=self.POLL)
            r = start()
            if r is not None or not W.threads:
                raise NotEnabled("CreateMonitor()() returned %r / started no thread" % (r,))
            self.g = W.threads[-1]
        elif op == "Cancel":
            self.cancel.set()
        elif op == "P":
            at = W.step(self.g, value=None if arg == "-" else arg)
            if at[0] == "isset":
                self.pv = at[1]["value"]
        elif op == "Elapse":
            at = W.step(self.g, wake="timeout")
            if at[0] == "isset":
                self.pv = at[1]["value"]
        else:
            raise HarnessDrift("unknown action %r" % (label,))


class _StubId:
    def __init__(self, name, stage):
        self.componentName, self.stageIndex = name, stage


class StubJob:
    """What SimulatorTask reads of a component specification."""

    def __init__(self, workdir, attrs):
        self.identification = _StubId("simjob", 0)
        self.customAttributes = dict(attrs)
        self.producers = {}
        self.workdir = workdir

    def setOption(self, key, value):
        self.customAttributes[key] = value


class _StubExecutor:
    def __init__(self, workdir):
        self.workingDir = workdir


def _setup_sim():
    if "sim" in _installed:
        return _installed["sim"]
    _setup_modules()
    import experiment.model.executors as ex
    import experiment.runtime.backend_interfaces.task_simulator as ts
    real = ex.CommandsFromSpecification

    def commands(job, *a, **k):
        if isinstance(job, StubJob):
            return None, _StubExecutor(job.workdir), None
        return real(job, *a, **k)
    ex.CommandsFromSpecification = commands
    ts.Thread = ShimThread
    ts.Event = ShimEvent
    ts.Condition = ShimCondition
    ts.time = time_ns()
    ts.datetime = datetime_ns()
    _installed["sim"] = ts
    return ts


class SimDriver:
    """One SimulatorTask: run thread, poll threads, callers of kill()/terminate()."""

    FIELDS = ("srs", "srr", "sos", "sor", "sfe", "srun", "spoll", "snpoll", "scode", "sunmet", "snotified", "skills", "sfile", "scall",
              "swait", "sseen", "spst")
    STATE = {0: "submitted", 1: "executing", 3: "finished"}

    def __init__(self, scratch):
        self.ts = _setup_sim()
        W.stop_all()
        W.reset()
        W.spawn_hook = self._spawn_hook
        self.dir = os.path.join(scratch, "sim_%d" % os.getpid())
        os.makedirs(self.dir, exist_ok=True)
        for f in os.listdir(self.dir):
            os.unlink(os.path.join(self.dir, f))
        self.task = None
        self.run_g = None
        self.poll_g = None
        self.npoll = 0
        self.caller = None
        self.waiter = None
        self.seen = ["-", NORC, "-", "-"]
        self.nkills = 0
        self.code = self.unmet = None

    def close(self):
        W.stop_all()

    def _spawn_hook(self, target, name):
        n = getattr(target, "__name__", "")
        return ("sim-" + n, (self.ts.__file__,))

    def _threads(self):
        self.run_g = next((g for g in W.threads if g.role == "sim-_run"), None)
        polls = [g for g in W.threads if g.role == "sim-poll"]
        self.npoll = len(polls) - 1
        self.poll_g = polls[-1] if polls else None

    def data(self):
        t = self.task
        if t is None:
            return None
        c = t._sim_condition
        return (t._real_state, t._real_return_code, t._observed_state, t._observed_return_code, t._finished_event.flag,
                os.path.exists(os.path.join(self.dir, "finished.txt")), os.path.exists(os.path.join(self.dir, "killed.txt")), len(W.threads),
                tuple(self.seen))

    def _notified(self):
        g = self.run_g
        if g is not None and g.status == "blocked" and g.at[0] == "condwait":
            return bool(g.can_run())
        return None

    def _stat(self, g, none="none"):
        if g is None:
            return none
        if g.status == "done":
            return "done"
        if g.status == "blocked":
            return g.at[0]
        if g.at[0] == "eventer":
            return "chk"
        return "ready"

    def project(self):
        t = self.task
        if t is None:
            return dict(srs="none", srr=NORC, sos="none", sor=NORC, sfe=False, srun="none", spoll="none", snpoll=0, sfile="-", lock="-",
                        scode=None, sunmet=None, snotified=None, skills=0, scall="idle", swait="idle", sseen=self.seen)
        self._threads()
        files = set(os.listdir(self.dir))
        c = t._sim_condition
        return dict(srs=self.STATE.get(t._real_state, t._real_state), srr=_rc(t._real_return_code), sos=self.STATE.get(t._observed_state, t._observed_state),
                    sor=_rc(t._observed_return_code), sfe=t._finished_event.flag, srun=self._stat(self.run_g), spoll=self._stat(self.poll_g),
                    snpoll=self.npoll, sfile="finished" if "finished.txt" in files else "killed" if "killed.txt" in files else "-",
                    lock="-" if c.owner is None else getattr(c.owner, "role", str(c.owner)), scode=self.code, sunmet=self.unmet,
                    snotified=self._notified(), skills=self.nkills, scall=self._stat(self.caller, "idle"), swait=self._stat(self.waiter, "idle"),
                    sseen=self.seen)

    def thread_step(self, g, **kw):
        if g is None:
            raise NotEnabled("no such thread")
        before = self.data()
        W.macro = lambda: self.data() != before
        try:
            return W.step(g, **kw)
        finally:
            W.macro = None

    def view(self):
        t = self.task
        out = []
        for what in ("isAlive", "returncode", "exitReason", "status"):
            try:
                v = t.isAlive() if what == "isAlive" else getattr(t, what)
                if what == "isAlive":
                    v = "T" if v is True else "F" if v is False else repr(v)
                elif what == "returncode":
                    v = _rc(v)
                elif v is None:
                    v = "None"
            except Exception as e:      # noqa
                v = "raised %s" % type(e).__name__
            out.append(v)
        return out

    @classmethod
    def spec_state(cls, arr):
        d = dict(zip(cls.FIELDS, arr))
        held = d["srun"] in ("x1", "u1", "e2", "e2n", "e3", "f1", "k1", "e4")
        waiting = d["srun"] == "cwait"
        d["srun"] = {"new": "ready", "cwait": "condwait", "x1": "ready", "u1": "ready", "e2": "ready", "e2n": "ready", "e3": "ready", "f1": "ready",
                     "k1": "ready", "e4": "ready", "rel": "ready"}.get(d["srun"], d["srun"])
        d["spoll"] = {"new": "ready", "a": "ready", "b": "ready", "c": "ready"}.get(d["spoll"], d["spoll"])
        d["scall"] = {"new": "ready", "k1": "ready"}.get(d["scall"], d["scall"])
        d["swait"] = {"new": "ready", "blocked": "evwait"}.get(d["swait"], d["swait"])
        d["lock"] = "sim-_run" if held else "-"
        del d["spst"]           # a local variable of poll()
        if not waiting:
            d["snotified"] = None
        if d["srs"] == "none":
            d["scode"], d["sunmet"] = None, None
        return d

    def apply(self, label):
        op, arg = label[0], label[1]
        if op == "Create":
            code, unmet = label[1], label[2]
            attrs = {"sim_expected_exit_code": str(code), "sim_range_schedule_overhead": "2", "sim_range_execution_time": "7"}
            job = StubJob(self.dir, attrs)
            if unmet:
                job.identification.stageIndex = 1
                job.producers = {"stage0.producer": _StubProducer(os.path.join(self.dir, "nowhere"))}
            self.code, self.unmet = code, unmet
            self.task = self.ts.SimulatorTask(job)
            self._threads()
            if self.run_g is None or self.poll_g is None:
                raise NotEnabled("SimulatorTask() did not start its two threads")
        elif op == "R":
            self.thread_step(self.run_g, **({"wake": "timeout"} if arg == "timeout" else {}))
        elif op == "P":
            self._threads()
            self.thread_step(self.poll_g, **({"wake": "timeout"} if arg == "timeout" else {}))
        elif op == "Kill":
            task = self.task
            self.nkills += 1
            self.caller = W.spawn(lambda: getattr(task, arg)(), name="caller", role="caller", trace=(self.ts.__file__,))
        elif op == "K":
            self.thread_step(self.caller)
        elif op == "WaitCall":
            task = self.task

            def body():
                task.wait()
                self.seen = self.view()
            self.waiter = W.spawn(body, name="observer", role="observer", trace=(self.ts.__file__,))
        elif op == "O":
            self.thread_step(self.waiter)
        elif op == "View":
            return self.view()
        else:
            raise HarnessDrift("unknown action %r" % (label,))


class _StubCommand:
    def __init__(self, workdir):
        self.workingDir = workdir


class _StubProducer:
    def __init__(self, workdir):
        self.identification = _StubId("producer", 0)
        self.command = _StubCommand(workdir)


# ----------------------------------------------------------------------------------------------------------------------
# code -> spec: seeded random lock-stepped runs, one record (label, result, projection) per step

def _may_raw(g):
    return g is not None and g.status in ("new", "ready") and g.at[0] in ("new", "line")


def random_task_run(rnd, nobs, mon_kind, test_kind, max_steps):
    d = TaskDriver(nobs, mon_kind, test_kind)
    trace = []
    raw = rnd.random() < 0.6
    try:
        def proj():
            p = d.project()
            return [p["k"], p["st"], p["disp"], p["rc"], p["lock"], p["w"], p["fin"], p["epoch"], p["ev"], p["opc"], p["seen"], p["sigs"],
                    p["late"], p["lost"], p["dm"], p["tpc"], p["tsaw"], p["tval"], p["cancel"], p["timers"], p["nact"], p["nerr"], p["terr"],
                    p["actc"]]

        def do(label, stepper=None):
            r = stepper() if stepper is not None else d.apply(label)
            res = r if label[0] == "Call" else 0
            trace.append([label[0], label[1], res, proj()])

        def tstep(g):
            if raw and _may_raw(g) and rnd.random() < 0.8:
                W.step(g)
            else:
                d._thread_step(g)
        if test_kind == "task" or rnd.random() < 0.5:
            if rnd.random() < 0.04:
                do(["Create", "fail"])
            else:
                do(["Create", rnd.choice(["die", "die", "ignore"])])
        p_env = rnd.choice([0.05, 0.15, 0.3])
        for _ in range(max_steps):
            t = d.task
            opts = []
            if t is not None:
                if K.procs[t.pid]["state"] == "run":
                    opts.append((p_env, lambda: do(["ProcExit", rnd.choice([0, 0, 1, 3, 24, 255])])))
                    opts.append((p_env / 2, lambda: do(["ExtSignal", rnd.choice([9, 9, 24, 11, 2] + ([15] if K.procs[t.pid]["disp"] == "die" else []))])))
                for c in ("kill", "terminate"):
                    opts.append((0.12, lambda c=c: do(["Call", c])))
                for c in ("poll", "isAlive", "exitReason", "status"):
                    opts.append((0.12, lambda c=c: do(["Call", c])))
                if d.waiter is not None and d.waiter.runnable():
                    opts.append((1.0, lambda: do(["W", 0], lambda: tstep(d.waiter))))
                for o in range(1, nobs + 1):
                    if o not in d.obs:
                        opts.append((0.15, lambda o=o: do(["WaitCall", o])))
                    elif d.obs[o].runnable():
                        opts.append((0.6, lambda o=o: do(["O", o], lambda: tstep(d.obs[o]))))
            if mon_kind != "none":
                if d.mstate == "off" and (t is not None or test_kind == "env"):
                    opts.append((0.3, lambda: do(["MonStart", 0])))
                if not d.cancel.flag and d.mstate != "off":
                    opts.append((0.05, lambda: do(["Cancel", 0])))
                if W.timers and (d.tick is None or d.tick.status == "done"):
                    opts.append((0.4, lambda: do(["Fire", 0])))
                g = d.tick
                if g is not None and g.status != "done":
                    if g.at[0] == "isset" and test_kind == "env":
                        v = rnd.choice(["True", "True", "True", "False", "One", "Zero", "None", "raise"] if mon_kind == "death"
                                       else ["False", "False", "False", "True", "One", "Zero", "None", "raise"])
                    elif g.at[0] == "action":
                        v = rnd.choice(["ok", "ok", "exc"])
                    else:
                        v = "-"
                    opts.append((0.7, lambda v=v: do(["T", v])))
            if not opts:
                break
            x = rnd.random() * sum(w for w, _ in opts)
            for w, f in opts:
                x -= w
                if x <= 0:
                    f()
                    break
        return trace
    finally:
        d.close()


def random_per_run(rnd, last_action, interval_kind, max_steps):
    d = PerDriver(last_action, interval_kind)
    trace = []
    try:
        def do(label):
            d.apply(label)
            p = d.project()
            trace.append([label[0], label[1], 0, [p["ppc"], p["pv"], p["pnorm"], p["plast"], p["pafter"], p["cancel"], p["nerr"],
                                                 -1 if p["ppoll"] is None else int(p["ppoll"])]])
            if p["other"]:
                trace[-1][3].append(p["other"])
        do(["Start", "-"])
        p_cancel = rnd.choice([0.02, 0.05, 0.15])
        p_fs = rnd.choice([0.0, 0.1, 0.6])
        for _ in range(max_steps):
            g = d.g
            if g.status == "done":
                break
            if not d.cancel.flag and rnd.random() < p_cancel:
                do(["Cancel", "-"])
                continue
            if g.runnable():
                if g.at[0] == "action":
                    x = rnd.random()
                    do(["P", "fs" if x < p_fs else "exc" if x < p_fs + 0.2 else "ok"])
                elif g.at[0] == "interval":
                    do(["P", rnd.choice(["now", "later", "later"])])
                else:
                    do(["P", "-"])
            else:
                do(["Elapse", "-"])
        return trace
    finally:
        d.close()


def random_sim_run(rnd, scratch, max_steps):
    d = SimDriver(scratch)
    trace = []
    raw = rnd.random() < 0.6
    try:
        def proj():
            p = d.project()
            return [p["srs"], p["srr"], p["sos"], p["sor"], p["sfe"], p["srun"], p["spoll"], p["snpoll"], p["sfile"], p["scall"], p["swait"],
                    p["sseen"], p["lock"] != "-", p["skills"]]

        def do(label, stepper=None):
            r = stepper() if stepper is not None else d.apply(label)
            trace.append([label[0], label[1], label[2] if label[0] == "Create" else (r if label[0] == "View" else 0), proj()])

        def tstep(g, arg):
            if arg == "timeout":
                d.thread_step(g, wake="timeout")
            elif raw and _may_raw(g) and rnd.random() < 0.8:
                W.step(g)
            else:
                d.thread_step(g)

        def how(g):
            if g.status == "blocked":
                return "-" if g.can_run() else ("timeout" if g.at[1].get("due") is not None else None)
            return "-"
        do(["Create", rnd.choice([0, 0, 3, 24, -15]), rnd.random() < 0.2])
        p_kill = rnd.choice([0.0, 0.03, 0.1])
        for _ in range(max_steps):
            d._threads()
            opts = []
            g = d.run_g
            if g.status != "done" and how(g) is not None:
                opts.append((1.0, lambda g=g: do(["R", how(g), 0], lambda a=how(g): tstep(g, a))))
            g = d.poll_g
            if g.status != "done" and how(g) is not None:
                opts.append((1.0, lambda g=g: do(["P", how(g), 0], lambda a=how(g): tstep(g, a))))
            if d.caller is None or d.caller.status == "done":
                opts.append((p_kill, lambda: do(["Kill", rnd.choice(["kill", "terminate"]), 0])))
            elif d.caller.runnable():
                opts.append((1.0, lambda: do(["K", "-", 0], lambda: d.thread_step(d.caller))))
            if d.waiter is None:
                opts.append((0.1, lambda: do(["WaitCall", "-", 0])))
            elif d.waiter.runnable():
                opts.append((0.5, lambda: do(["O", "-", 0], lambda: d.thread_step(d.waiter))))
            opts.append((0.3, lambda: do(["View", "-", 0])))
            x = rnd.random() * sum(w for w, _ in opts)
            for w, f in opts:
                x -= w
                if x <= 0:
                    f()
                    break
            if d.run_g.status == "done" and d.poll_g.status == "done" and (d.waiter is None or d.waiter.status == "done") and rnd.random() < 0.3:
                break
        return trace
    finally:
        d.close()
