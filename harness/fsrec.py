"""File-system operation recorder / fault injector for C14 (used by harness/checks/c14.py).

The code under test persists its state with plain `open(..)`, `f.write`, `f.close`, `os.rename`, `os.remove`.
`Recorder.shadow(module)` replaces, for the duration of one update call, the names `open`, `os` and `shutil`
*in the namespace of that module* (module attributes; the repository is not touched):

  * every mutating operation is appended to `rec.ops` as a dict {op, path[, dst], err}
    (op in open / write / close / rename / remove; opens for reading pass through unrecorded);
  * after every operation the bytes of the watched live files are snapshotted (`rec.snaps[i]` = state of the
    disk after op i; `rec.snaps[-1]`... index 0 is the state before the first op) -- this realises Crash@i:
    the proxy file flushes after every write, so the snapshot is what a dying process would leave behind under
    the finest write granularity;
  * `fault = i` makes the i-th operation fail with OSError (IOError@i).  A failing write stores half of its
    data first (a short write), a failing close loses the last written chunk, a failing open/rename/remove
    has no effect on the disk.
"""
import errno
import os as _os
import shutil as _shutil
import builtins


class InjectedIOError(OSError):
    pass


_REAL = {}


def _real(p):
    """canonical path: the output directory of an instance is a symbolic link to its shadow directory"""
    p = _os.fspath(p)
    d, b = _os.path.split(_os.path.abspath(p))
    r = _REAL.get(d)
    if r is None:
        if len(_REAL) > 5000:
            _REAL.clear()
        r = _REAL[d] = _os.path.realpath(d)
    return _os.path.join(r, b)


def _fail(what):
    return InjectedIOError(errno.EIO, "injected I/O error (%s)" % what)


class ProxyFile:
    def __init__(self, rec, real, path):
        self._rec, self._f, self._path = rec, real, path
        self._closed = False
        self._bad = False
        self._last = 0

    def write(self, data):
        r = self._rec
        if r._begin("write", self._path):
            half = data[:len(data) // 2]
            if half:
                self._f.write(half)
                self._f.flush()
            self._bad = True
            r._end("write", self._path, err=True)
            raise _fail("write")
        n = self._f.write(data)
        self._f.flush()
        self._last = len(data)
        r._end("write", self._path)
        return n

    def writelines(self, lines):
        for l in lines:
            self.write(l)

    def flush(self):
        self._f.flush()

    def close(self, _done=True):
        if self._closed:
            return
        self._closed = True
        r = self._rec
        done = bool(_done) and not self._bad
        if r._begin("close", self._path):
            # the data of the last chunk never reaches the disk
            try:
                self._f.flush()
                size = self._f.tell()
                self._f.truncate(max(0, size - max(1, self._last)))
            except Exception:
                pass
            self._f.close()
            r._end("close", self._path, err=True, done=False)
            raise _fail("close")
        self._f.close()
        r._end("close", self._path, done=done)

    def __enter__(self):
        return self

    def __exit__(self, exc_type, *a):
        # leaving a `with` block through an exception: the writer did not finish what it intended to write
        self.close(_done=exc_type is None)
        return False

    def __getattr__(self, name):
        return getattr(self._f, name)

    def __iter__(self):
        return iter(self._f)


class _OsProxy:
    """Stands in for the `os` module inside the shadowed module."""

    def __init__(self, rec):
        object.__setattr__(self, "_rec", rec)

    def __getattr__(self, name):
        return getattr(_os, name)

    def rename(self, src, dst, **kw):
        return self._rec._rename("rename", _os.rename, src, dst, **kw)

    def replace(self, src, dst, **kw):
        return self._rec._rename("rename", _os.replace, src, dst, **kw)

    def remove(self, path, **kw):
        return self._rec._remove(_os.remove, path, **kw)

    def unlink(self, path, **kw):
        return self._rec._remove(_os.unlink, path, **kw)


class _ShutilProxy:
    """shutil.move is a rename when it can be; the copy functions write the destination in place: they are
    recorded as what they do (open destination for writing, write, close)."""

    def __init__(self, rec):
        object.__setattr__(self, "_rec", rec)

    def __getattr__(self, name):
        return getattr(_shutil, name)

    def move(self, src, dst, **kw):
        return self._rec._rename("rename", _shutil.move, src, dst, **kw)

    def _copy(self, fn, src, dst, **kw):
        r = self._rec
        if _os.path.isdir(dst):
            dst = _os.path.join(dst, _os.path.basename(src))
        for op in ("open", "write", "close"):
            if r._begin(op, dst):
                if op != "open":
                    with builtins.open(dst, "w"):
                        pass
                r._end(op, dst, err=True)
                raise _fail(op)
            if op == "open":
                with builtins.open(dst, "w"):
                    pass
            elif op == "close":
                fn(src, dst, **kw)
            r._end(op, dst)
        return dst

    def copyfile(self, src, dst, **kw):
        return self._copy(_shutil.copyfile, src, dst, **kw)

    def copy(self, src, dst, **kw):
        return self._copy(_shutil.copy, src, dst, **kw)

    def copy2(self, src, dst, **kw):
        return self._copy(_shutil.copy2, src, dst, **kw)


class Recorder:
    def __init__(self, live, fault=None, snapshots=True):
        """live: list of absolute paths of the persisted files that are watched."""
        self.live = [_real(p) for p in live]
        self.fault = fault
        self.snapshots = snapshots
        self.ops = []
        self.snaps = []
        self.fired = False
        self._shadowed = []
        self._snap()

    # -- bookkeeping -----------------------------------------------------------------------------------
    def _snap(self):
        if not self.snapshots:
            return
        s = {}
        for p in self.live:
            try:
                with builtins.open(p, "rb") as f:
                    s[p] = f.read()
            except FileNotFoundError:
                s[p] = None
        self.snaps.append(s)

    def _begin(self, op, path):
        """True if this operation must fail: fault = i (the i-th operation) or (kind, n) (the n-th operation of a kind)."""
        if self.fault is None or self.fired:
            return False
        if isinstance(self.fault, int):
            hit = len(self.ops) == self.fault
        else:
            kind, nth = self.fault
            hit = op == kind and sum(1 for o in self.ops if o["op"] == kind) == nth
        if hit:
            self.fired = True
        return hit

    def _end(self, op, path, dst=None, err=False, done=True):
        e = {"op": op, "path": _real(path), "err": bool(err), "done": bool(done)}
        if dst is not None:
            e["dst"] = _real(dst)
        self.ops.append(e)
        self._snap()

    # -- the shadowed entry points ---------------------------------------------------------------------
    def open(self, file, mode="r", *a, **kw):
        writing = any(c in mode for c in "wax+")
        if not writing or not isinstance(file, (str, bytes, _os.PathLike)):
            return builtins.open(file, mode, *a, **kw)
        path = _os.fspath(file)
        if self._begin("open", path):
            self._end("open", path, err=True)
            raise _fail("open")
        real = builtins.open(file, mode, *a, **kw)
        self._end("open", path)
        self.ops[-1]["app"] = "a" in mode        # append: an existing file is not truncated, a missing one is created
        return ProxyFile(self, real, path)

    def _rename(self, op, fn, src, dst, **kw):
        if self._begin(op, src):
            self._end(op, src, dst=dst, err=True)
            raise _fail(op)
        try:
            r = fn(src, dst, **kw)
        except OSError:
            self._end(op, src, dst=dst, err=True)      # a genuine failure (e.g. the source does not exist)
            raise
        self._end(op, src, dst=dst)
        return r

    def _remove(self, fn, path, **kw):
        if self._begin("remove", path):
            self._end("remove", path, err=True)
            raise _fail("remove")
        try:
            r = fn(path, **kw)
        except OSError:
            self._end("remove", path, err=True)
            raise
        self._end("remove", path)
        return r

    # -- shadowing -------------------------------------------------------------------------------------
    def shadow(self, *modules):
        rec = self

        class _Ctx:
            def __enter__(self_):
                for m in modules:
                    saved = {}
                    for name, val in (("open", rec.open), ("os", _OsProxy(rec)), ("shutil", _ShutilProxy(rec))):
                        if name == "open" or hasattr(m, name):
                            saved[name] = m.__dict__.get(name, _MISSING)
                            setattr(m, name, val)
                    rec._shadowed.append((m, saved))
                return rec

            def __exit__(self_, *a):
                for m, saved in rec._shadowed:
                    for name, old in saved.items():
                        if old is _MISSING:
                            try:
                                delattr(m, name)
                            except AttributeError:
                                pass
                        else:
                            setattr(m, name, old)
                rec._shadowed = []
                return False
        return _Ctx()


_MISSING = object()


def normalise(ops, live):
    """Abstract a recorded op list for the TLA+ trace spec: live files keep their base name, every other path
    becomes tmp1, tmp2 ... in order of first appearance; consecutive successful writes to one path collapse
    into one event with a count.  Returns (events, names) where names maps real path -> abstract name."""
    live = [_real(p) for p in live]
    names = {p: _os.path.basename(p) for p in live}
    ev = []
    for i, o in enumerate(ops):
        for k in ("path", "dst"):
            p = o.get(k)
            if p is not None and p not in names:
                names[p] = "tmp%d" % (1 + sum(1 for v in names.values() if v.startswith("tmp")))
        e = {"op": o["op"], "path": names[o["path"]], "dst": names.get(o.get("dst"), "-"), "err": o["err"],
             "done": o.get("done", True), "app": o.get("app", False), "n": 1, "a": i, "b": i + 1}      # [a, b): the real operations it stands for
        if ev and e["op"] == "write" and not e["err"] and ev[-1]["op"] == "write" and not ev[-1]["err"] \
                and ev[-1]["path"] == e["path"]:
            ev[-1]["n"] += 1
            ev[-1]["b"] = i + 1
        else:
            ev.append(e)
    return ev, names
