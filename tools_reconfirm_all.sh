#!/bin/bash
# tools_reconfirm_all.sh [nslots]: re-runs every stored seed at /repo HEAD (3 property groups in parallel by default);
# seeds of one property stay in one slot (they share the evidence backup). Log: out/reconfirm_all_<slot>.log
N=${1:-3}
cd /verif
for slot in $(seq 1 $N); do
  ( for p in $(seq -w 1 20); do
      if [ $(( (10#$p - 1) % N + 1 )) -eq $slot ]; then
        for d in $(ls seeded | grep "^C${p}_" ); do SLOT=$slot ./tools_reconfirm.sh $d C$p 2>&1 | grep -E "rc=|does not apply|no demo"; done
      fi
    done > out/reconfirm_all_$slot.log 2>&1
    git -C /repo worktree remove --force /tmp/confirm_wt$slot 2>/dev/null ) &
done
wait
