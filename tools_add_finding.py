#!/venv/bin/python
"""tools_add_finding.py <property> <status open|fixed> <key> <commit|-> <what...>   (edits known_findings.json; never used at check time)"""
import json, sys
p, status, key, commit = sys.argv[1:5]
what = " ".join(sys.argv[5:])
k = json.load(open('/verif/known_findings.json'))
e = {"property": p, "status": status, "key": key, "what": ("fixed: property=%s " % p if status == "fixed" else "") + what}
if status == "fixed":
    e["commit"] = commit
k["findings"] = [f for f in k["findings"] if not (f["property"] == p and f["key"] == key)] + [e]
json.dump(k, open('/verif/known_findings.json', 'w'), indent=1)
print("ok", p, key)
