#!/venv/bin/python
"""Rewrites the last column of the per-property table in DESIGN.md 0.4 (quick: TLC states / real cases / wall) from evidence/<id>.json
(only when the evidence is from a clean quick run: tier quick, violations 0 or only known findings)."""
import json, os, re
HERE = os.path.dirname(os.path.abspath(__file__))
def k(n):
    n = int(n)
    return "%.1fM" % (n / 1e6) if n >= 1e6 else ("%dk" % round(n / 1e3) if n >= 1e4 else ("%.1fk" % (n / 1e3) if n >= 1e3 else str(n)))
s = open(os.path.join(HERE, "DESIGN.md")).read()
out = []
in04 = False
for line in s.split("\n"):
    if line.startswith("### 0.4"): in04 = True
    elif line.startswith("### 0.5"): in04 = False
    m = re.match(r"^\| (C\d\d) \|", line)
    if in04 and m and line.count("|") == 6:
        pid = m.group(1)
        try:
            e = json.load(open(os.path.join(HERE, "evidence", pid + ".json")))
            cov = e.get("coverage", {})
            if e.get("tier") == "quick":
                cells = line.split("|")
                cells[5] = " %s / %s cases, %s validated against the implementation / %d s " % (
                    k(cov.get("states", 0)), k(cov.get("evaluations", 0) or 0), k(cov.get("traces_validated_against_impl", 0)), round(e.get("wall_s", 0)))
                line = "|".join(cells)
        except Exception as ex:
            print("skip", pid, ex)
    out.append(line)
open(os.path.join(HERE, "DESIGN.md"), "w").write("\n".join(out))
