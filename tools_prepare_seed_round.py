#!/venv/bin/python
"""tools_prepare_seed_round.py <round-no> [ids...] : creates scratch worktrees /tmp/seed<round>_<id> of /repo HEAD holding only
PROPERTY.md (the text of the property) and AVOID.md (summaries of the changes earlier rounds produced). Nothing from /verif's
machinery is copied."""
import json, os, re, subprocess, sys
rnd = sys.argv[1]; ids = sys.argv[2:]
props = [json.loads(l) for l in open('/verif/properties.jsonl')]
for p in props:
    if ids and p["id"] not in ids: continue
    wt = "/tmp/seed%s_%s" % (rnd, p["id"])
    if not os.path.isdir(wt):
        subprocess.check_call(["git", "-C", "/repo", "worktree", "add", "-q", "--detach", wt, "HEAD"])
    with open(os.path.join(wt, "PROPERTY.md"), "w") as f:
        f.write("# Property %s: %s\n\n%s\n\nQuantified over: %s\n\nAnchored in: %s\n" % (
            p["id"], p["title"], p["statement"], p["quantifier"]["text"], ", ".join(p["anchors"]["files"])))
    av = []
    for d in sorted(os.listdir("/verif/seeded")):
        if d.startswith(p["id"] + "_"):
            try:
                m = json.load(open("/verif/seeded/%s/meta.json" % d))
            except Exception:
                continue
            s = m.get("summary") or m.get("change") or m.get("description") or ""
            if isinstance(s, (list, dict)): s = json.dumps(s)
            av.append("- " + re.sub(r"\s+", " ", s)[:600])
    with open(os.path.join(wt, "AVOID.md"), "w") as f:
        f.write("# Already tried by earlier seeding rounds for this property (choose a DIFFERENT site and mechanism)\n\n" + "\n\n".join(av) + "\n")
    print(wt, len(av))
