------------------------------ MODULE Layering ------------------------------
(***************************************************************************)
(* C04 -- Resolved component configuration follows the documented          *)
(* layering order.                                                         *)
(*                                                                         *)
(* One component `c` (stage 0) of a package with the platforms default,    *)
(* p1 and p2.  The package, the user's variable files and the component    *)
(* itself may define a *slot* in many places (the "raw layers" below).     *)
(* A slot is either a variable (v, w, x) or an option (o and its sibling   *)
(* q that lives in the same parent dictionary).                            *)
(*                                                                         *)
(* State = which raw layer defines which slot (`defs`).  The state graph   *)
(* is built by the action Define (one more definition somewhere), so TLC   *)
(* enumerates every subset of layers; each reachable state is one          *)
(* document and is emitted -- with the result the specification demands    *)
(* for BOTH queried platforms -- to the conformance driver                 *)
(* (harness/checks/c04.py), which renders it to FlowIR + user variable     *)
(* files and resolves it with the real code.                               *)
(*                                                                         *)
(* Documented order of C04, lowest to highest priority:                    *)
(*   built-in defaults < default platform global < default platform stage  *)
(*   < selected platform global < selected platform stage < user variables *)
(*   < the component's own definition < its override for that platform,    *)
(* then variable references are substituted until none is left; a          *)
(* reference to an undefined variable is an error; typed options have      *)
(* their declared type.                                                    *)
(*                                                                         *)
(* Raw layers (positions in the documents):                                *)
(*   builtin            FlowIR.default_component_structure() (options)     *)
(*   dg / ds / dso      variables|blueprint . default . global / stages[0] *)
(*                      / stages[1]  (dso: another stage = decoy)          *)
(*   p1g / p1s / p1so   the same for platform p1                           *)
(*   p2g / p2s / p2so   the same for platform p2 (never selected = decoy)  *)
(*   ug / us / uso      user variable file: global / stages[0] / stages[1] *)
(*   comp               the component's own variables / option             *)
(*   ovd / ov1 / ov2    component.override[default|p1|p2]                  *)
(* Whether p1g, p1s, ov1 (resp. ovd) are part of the result or decoys      *)
(* depends on the queried platform.  Another component `d` (stage 1) with  *)
(* its own definition of everything is always present (a constant decoy).  *)
(***************************************************************************)
EXTENDS Integers, Sequences, FiniteSets, TLC, Json

CONSTANTS
    VAllowed, WAllowed, XAllowed,     \* raw layers at which variable v / w / x may be defined in this run
    OAllowed, QAllowed,               \* raw layers at which option o / its sibling q may be defined
    VRefAt, WRefAt, XRefAt, ORefAt,   \* raw layers at which the definition is "tag + reference to the next slot"
                                      \*   (chain o -> v -> w -> x -> v, the last one closes a cycle); literal elsewhere
    OEmptyAllowed, VEmptyAllowed,     \* raw layers at which option o / variable v may be defined with an explicitly EMPTY value
                                      \*   ('' for text, [] for a list): a definition that clears, which is not the same as no definition
    DecoyBlock,                       \* TRUE: the always-decoy layers of a slot are defined all at once (fewer states)
    OBuiltin,                         \* TRUE: option o has a built-in default value (q never has one)
    OptKind,                          \* declared type of option o: "str" | "int" | "float" | "bool" | "list"
    LitForm,                          \* "native" | "string": how numbers / booleans are written in the documents
    Family,                           \* name of the run (reporting only)
    Emit,                             \* TRUE: print every state as a JSON case
    Replicated,                       \* TRUE: the driver also asks the REPLICATED description (FlowIRConcrete.instance()/replicate():
                                      \*   the selected platform's layers flattened into the one description the runtime executes) --
                                      \*   the layering is the same whichever view is asked: the answer for the platform the
                                      \*   description was replicated for is Result(that platform)
    UserSplits,                       \* how the driver distributes the user-supplied definitions (ug, us, uso) over variable files: "auto"
                                      \*   (one distribution per case) or a set of "one", "scope-gs", "scope-sg" (global / stage scope in
                                      \*   two files, both orders), "name-ab", "name-ba" (the definitions of v in one file, those of w and x
                                      \*   in another, both mentioning the same scopes and stage, both orders).  The user-supplied layer is
                                      \*   the union of the files; they define disjoint (scope, name) pairs, so the result is the same
    Sibling,                          \* TRUE: the package has a second component `e` in stage 0 that defines nothing itself
    HistLen                           \* 0: documents only; n > 0: every document is followed by every history of n
                                      \*   read-only calls on ONE object (the last one a query), see "Histories" below

VARIABLES defs,                       \* [Slots -> SUBSET Raw]: the document
          empties,                    \* [Slots -> SUBSET Raw], empties[s] \subseteq defs[s]: the definitions whose value is empty
          hist                        \* sequence of read-only calls made so far on the object holding the document,
                                      \*   each query with the answer it got
vars == <<defs, empties, hist>>

Slots     == {"o", "q", "v", "w", "x"}
VarSlots  == {"v", "w", "x"}
OptSlots  == {"o", "q"}
Platforms == {"default", "p1"}        \* platforms that are queried; p2 is never selected

AlwaysDecoy == {"p2g", "p2s", "p2so", "ov2", "dso", "p1so", "uso"}
Raw == {"builtin", "dg", "ds", "p1g", "p1s", "ug", "us", "comp", "ovd", "ov1"} \cup AlwaysDecoy

Allowed(s) == CASE s = "v" -> VAllowed [] s = "w" -> WAllowed [] s = "x" -> XAllowed
                [] s = "o" -> OAllowed [] s = "q" -> QAllowed
RefAt(s)   == CASE s = "v" -> VRefAt [] s = "w" -> WRefAt [] s = "x" -> XRefAt
                [] s = "o" -> ORefAt [] s = "q" -> {}
NextSlot(s) == CASE s = "o" -> "v" [] s = "v" -> "w" [] s = "w" -> "x" [] s = "x" -> "v" [] s = "q" -> "q"
Used(s) == Allowed(s) # {}
(* the component's command line refers to every variable that takes part in the run: "%(v)s %(w)s %(x)s".  The   *)
(* driver gives the three variables names that contain one another (alpha, alpha2, my-alpha).                    *)
ArgsUse == {s \in {"v", "w", "x"} : Used(s)}

(* numeric identity of a definition: the driver writes it into the documents, the expected result lists it *)
LayerCode(l) == CASE l = "builtin" -> 10 [] l = "dg" -> 11 [] l = "ds" -> 12 [] l = "p1g" -> 13 [] l = "p1s" -> 14
                  [] l = "ug" -> 15 [] l = "us" -> 16 [] l = "comp" -> 17 [] l = "ovd" -> 18 [] l = "ov1" -> 19
                  [] l = "p2g" -> 21 [] l = "p2s" -> 22 [] l = "ov2" -> 23 [] l = "dso" -> 24 [] l = "p1so" -> 25
                  [] l = "uso" -> 26 [] l = "p2so" -> 27
SlotCode(s) == CASE s = "o" -> 3 [] s = "q" -> 4 [] s = "v" -> 5 [] s = "w" -> 6 [] s = "x" -> 7
Code(s, l) == SlotCode(s) * 100 + LayerCode(l)

---------------------------------------------------------------------------
(* The documented order, as data.  Order(Q, s) lists the raw layers that take part in the value of slot s  *)
(* when platform Q is queried, lowest priority first.  User variables do not exist for options; options    *)
(* have the built-in layer.                                                                                  *)
OrderVD == <<"dg", "ds", "ug", "us", "comp", "ovd">>                          \* a variable, platform default
OrderVP == <<"dg", "ds", "p1g", "p1s", "ug", "us", "comp", "ov1">>            \* a variable, platform p1
OrderOD == <<"builtin", "dg", "ds", "comp", "ovd">>                           \* an option, platform default
OrderOP == <<"builtin", "dg", "ds", "p1g", "p1s", "comp", "ov1">>             \* an option, platform p1
Order(Q, s) == IF s \in VarSlots THEN (IF Q = "default" THEN OrderVD ELSE OrderVP)
                                 ELSE (IF Q = "default" THEN OrderOD ELSE OrderOP)

Range(seq) == {seq[i] : i \in 1..Len(seq)}
RankIn(seq) == [l \in Range(seq) |-> CHOOSE i \in 1..Len(seq) : seq[i] = l]
(* constant-level definitions: TLC evaluates them once *)
EffVD == Range(OrderVD)
EffVP == Range(OrderVP)
EffOD == Range(OrderOD)
EffOP == Range(OrderOP)
RankVD == RankIn(OrderVD)
RankVP == RankIn(OrderVP)
RankOD == RankIn(OrderOD)
RankOP == RankIn(OrderOP)
(* layers that may contribute to slot s on platform Q; everything else is a decoy *)
Eff(Q, s) == IF s \in VarSlots THEN (IF Q = "default" THEN EffVD ELSE EffVP) ELSE (IF Q = "default" THEN EffOD ELSE EffOP)
RankF(Q, s) == IF s \in VarSlots THEN (IF Q = "default" THEN RankVD ELSE RankVP) ELSE (IF Q = "default" THEN RankOD ELSE RankOP)
Rank(Q, s, l) == RankF(Q, s)[l]

(* A view = (component, are missing fields injected).  Component c is the one the layers comp/ovd/ov1 belong to;  *)
(* its sibling e (same stage, defines nothing itself) sees everything but those.  A query that does not inject    *)
(* missing fields (the flavour that writes the instance files) does not see the built-in defaults.                *)
MainView == [comp |-> "c", inject |-> TRUE]
Views == {[comp |-> c, inject |-> i] : c \in {"c", "e"}, i \in BOOLEAN}
OwnLayers == {"comp", "ovd", "ov1", "ov2"}

(* which raw layers define s in a view: the explicit definitions plus the built-in default of option o *)
DefinedV(w, s) == (defs[s] \ (IF w.comp = "e" THEN OwnLayers ELSE {}))
                     \cup (IF s = "o" /\ OBuiltin /\ w.inject THEN {"builtin"} ELSE {})
Defined(s) == DefinedV(MainView, s)

(* declarative: the defining layer of highest priority ("none": undefined) *)
TopV(w, Q, s) == LET D == Eff(Q, s) \cap DefinedV(w, s)
                     R == RankF(Q, s)
                 IN IF D = {} THEN "none"
                    ELSE CHOOSE l \in D : \A m \in D : R[m] <= R[l]
Top(Q, s) == TopV(MainView, Q, s)

(* operational: apply the layers one after the other, each definition replaces the value so far *)
RECURSIVE FoldFrom(_, _, _, _)
FoldFrom(Q, s, i, acc) == IF i > Len(Order(Q, s)) THEN acc
                          ELSE FoldFrom(Q, s, i + 1, IF Order(Q, s)[i] \in Defined(s) THEN Order(Q, s)[i] ELSE acc)
Fold(Q, s) == FoldFrom(Q, s, 1, "none")

(* Substitution to a fixpoint.  The value of s at layer l is the literal Code(s,l), or, at the layers RefAt(s),  *)
(* Code(s,l) followed by a reference to NextSlot(s).  The resolved value is therefore the chain of (slot, layer) *)
(* pairs; err = "undefined" when the chain reaches a slot nobody defines, "cyclic" when it returns to a slot.    *)
RECURSIVE ChainV(_, _, _, _)
ChainV(w, Q, s, seen) ==
    LET l == TopV(w, Q, s) IN
    IF l = "none" THEN [err |-> "undefined", chain |-> <<>>]
    ELSE LET me == [s |-> s, l |-> l, code |-> Code(s, l), empty |-> (l \in empties[s])] IN
         IF l \in empties[s] \/ l \notin RefAt(s) THEN [err |-> "none", chain |-> <<me>>]      \* a literal or the empty value ends the chain
         ELSE IF NextSlot(s) \in seen \cup {s} THEN [err |-> "cyclic", chain |-> <<me>>]
         ELSE LET rest == ChainV(w, Q, NextSlot(s), seen \cup {s})
              IN [err |-> rest.err, chain |-> <<me>> \o rest.chain]
ResolveV(w, Q, s) == ChainV(w, Q, s, {})
Resolve(Q, s) == ResolveV(MainView, Q, s)

(* What is resolved when the configuration of a component is requested: the options of the run, the command line *)
(* (only c's refers to variables), and every variable visible to the component (the resolved configuration       *)
(* carries the resolved variables)                                                                                *)
VisibleV(w, Q)  == {s \in VarSlots : TopV(w, Q, s) # "none"}
ResolvedV(w, Q) == {s \in OptSlots : Used(s) /\ TopV(w, Q, s) # "none"} \cup VisibleV(w, Q)
                      \cup (IF w.comp = "c" THEN ArgsUse ELSE {})
ErrsV(w, Q)     == {ResolveV(w, Q, s).err : s \in ResolvedV(w, Q)} \ {"none"}
Visible(Q)  == VisibleV(MainView, Q)
Resolved(Q) == ResolvedV(MainView, Q)
Errs(Q)     == ErrsV(MainView, Q)

(* the pure layering function of the document: what a query for (view, platform) must answer *)
ResultV(w, Q) == [errs  |-> ErrsV(w, Q),
                  vals  |-> [s \in ResolvedV(w, Q) |-> ResolveV(w, Q, s).chain],
                  tops  |-> [s \in {t \in Slots : Used(t)} |-> TopV(w, Q, s)],
                  undef |-> {s \in OptSlots : Used(s) /\ TopV(w, Q, s) = "none"}]   \* options nobody defines: null / absent, no error
Result(Q) == ResultV(MainView, Q)

---------------------------------------------------------------------------
Init == defs = [s \in Slots |-> {}] /\ empties = [s \in Slots |-> {}] /\ hist = <<>>

(* the document is written first (hist is empty), then calls are made on the object that holds it *)
Define(s, l) == /\ hist = <<>>
                /\ l \in Allowed(s) /\ l \notin defs[s]
                /\ (DecoyBlock => l \notin AlwaysDecoy)
                /\ defs' = [defs EXCEPT ![s] = @ \cup {l}]
                /\ UNCHANGED <<empties, hist>>

(* a definition that clears: the layer defines the slot, with the empty value *)
EmptyAllowed(s) == IF s = "o" THEN OEmptyAllowed ELSE IF s = "v" THEN VEmptyAllowed ELSE {}
DefineEmpty(s, l) == /\ hist = <<>>
                     /\ l \in EmptyAllowed(s) /\ l \in Allowed(s) /\ l \notin defs[s] /\ l \notin RefAt(s)
                     /\ defs' = [defs EXCEPT ![s] = @ \cup {l}]
                     /\ empties' = [empties EXCEPT ![s] = @ \cup {l}]
                     /\ UNCHANGED hist

DefineDecoys(s) == /\ hist = <<>>
                   /\ DecoyBlock /\ Allowed(s) \cap AlwaysDecoy # {}
                   /\ defs[s] \cap AlwaysDecoy = {}
                   /\ defs' = [defs EXCEPT ![s] = @ \cup (Allowed(s) \cap AlwaysDecoy)]
                   /\ UNCHANGED <<empties, hist>>

(* Histories.  The interface that reads a configuration: Query = get_component_configuration(comp, platform,      *)
(* inject_missing_fields) (and get_component_variables), Instance = FlowIRConcrete.instance(platform,              *)
(* inject_missing_fields) -- the document developed for one platform, also what writes the instance files --,     *)
(* Replicate = FlowIRConcrete.replicate(platform).  None of them may write: the document is UNCHANGED and the      *)
(* answer of every query is the pure layering function ResultV of the document, whatever was called before.        *)
NoAnswer == [errs |-> {}, vals |-> <<>>, tops |-> <<>>, undef |-> {}]
Query(Q, c, i) == /\ HistLen > 0 /\ Len(hist) < HistLen /\ (c = "e" => Sibling)
                  /\ hist' = Append(hist, [op |-> "query", plat |-> Q, comp |-> c, inject |-> i,
                                           exp |-> ResultV([comp |-> c, inject |-> i], Q)])
                  /\ UNCHANGED <<defs, empties>>
Instance(Q, i) == /\ HistLen > 0 /\ Len(hist) < HistLen - 1          \* the last call of a history is a query
                  /\ hist' = Append(hist, [op |-> "instance", plat |-> Q, comp |-> "-", inject |-> i, exp |-> NoAnswer])
                  /\ UNCHANGED <<defs, empties>>
Replicate(Q) == /\ HistLen > 0 /\ Len(hist) < HistLen - 1
                /\ hist' = Append(hist, [op |-> "replicate", plat |-> Q, comp |-> "-", inject |-> TRUE, exp |-> NoAnswer])
                /\ UNCHANGED <<defs, empties>>

Next == \/ \E s \in {"o", "q", "v", "w", "x"}, l \in {"dg", "ds", "p1g", "p1s", "ug", "us", "comp", "ovd", "ov1",
                       "p2g", "p2s", "p2so", "ov2", "dso", "p1so", "uso"} : Define(s, l)
        \/ \E s \in {"o", "q", "v", "w", "x"} : DefineDecoys(s)
        \/ \E s \in {"o", "v"}, l \in {"dg", "ds", "p1g", "p1s", "ug", "us", "comp", "ovd", "ov1", "p2g", "ov2"} : DefineEmpty(s, l)
        \/ \E Q \in {"default", "p1"}, c \in {"c", "e"}, i \in {TRUE, FALSE} : Query(Q, c, i)
        \/ \E Q \in {"default", "p1"}, i \in {TRUE, FALSE} : Instance(Q, i)
        \/ \E Q \in {"default", "p1"} : Replicate(Q)

Spec == Init /\ [][Next]_vars

---------------------------------------------------------------------------
(* Properties of C04 on the model *)
TypeOK == /\ \A s \in Slots : defs[s] \subseteq Allowed(s)
          /\ \A s \in VarSlots : "builtin" \notin Allowed(s)
          /\ \A s \in OptSlots : Allowed(s) \cap {"ug", "us", "uso", "builtin"} = {}
          /\ \A s \in Slots : RefAt(s) \subseteq Allowed(s)
          /\ \A s \in Slots : empties[s] \subseteq defs[s] /\ empties[s] \cap RefAt(s) = {} /\ empties[s] \subseteq EmptyAllowed(s)

(* reads do not write: a call never changes the document, so every recorded answer is still the layering of the  *)
(* document, and the answer does not depend on what was called before                                            *)
ReadsDoNotWrite == [][hist' # hist => (defs' = defs /\ empties' = empties)]_vars
AnswersAreLayering == \A n \in 1..Len(hist) :
                         hist[n].op = "query" => hist[n].exp = ResultV([comp |-> hist[n].comp, inject |-> hist[n].inject], hist[n].plat)
(* the sibling never sees the component's own layers; without injection the built-in default never shows *)
ViewsSeparate == \A w \in Views, Q \in Platforms, s \in Slots :
                    /\ (w.comp = "e" => TopV(w, Q, s) \notin OwnLayers)
                    /\ (~w.inject => TopV(w, Q, s) # "builtin")

(* sequential override in the documented order = value of the highest-priority defining layer *)
FoldIsTop == \A Q \in Platforms, s \in Slots : Fold(Q, s) = Top(Q, s)

(* nothing of another platform / stage / override ever appears in a result *)
NoDecoyInResult == \A Q \in Platforms : \A s \in Resolved(Q) :
                     LET ch == Resolve(Q, s).chain IN
                     \A i \in 1..Len(ch) : ch[i].l \in Eff(Q, ch[i].s) /\ ch[i].l \notin AlwaysDecoy

(* a resolved value either ends in a literal or is an error: no reference is ever left in place *)
NoReferenceLeft == \A Q \in Platforms : \A s \in Resolved(Q) :
                     LET r == Resolve(Q, s) IN
                       /\ r.err = "none" => (Len(r.chain) >= 1 /\ r.chain[Len(r.chain)].l \notin RefAt(r.chain[Len(r.chain)].s))
                       /\ r.err = "undefined" => (Len(r.chain) = 0 \/ r.chain[Len(r.chain)].l \in RefAt(r.chain[Len(r.chain)].s))
                       /\ Len(r.chain) <= 4

(* a definition in a place that does not belong to the queried platform never changes which definition is on top of *)
(* any slot -- and the result is a function of the tops only (action property)                                     *)
DecoyIrrelevant == [][\A Q \in Platforms :
                         (\E s \in Slots : \E l \in Raw : l \notin Eff(Q, s) /\ defs' = [defs EXCEPT ![s] = @ \cup {l}])
                            => \A t \in Slots : Top(Q, t)' = Top(Q, t)]_vars

(* a new definition above everything present wins; one below the present top does not change the top *)
HigherWins == [][\A Q \in Platforms, s \in Slots : \A l \in Eff(Q, s) :
                    (l \notin defs[s] /\ defs' = [defs EXCEPT ![s] = @ \cup {l}])
                       => Top(Q, s)' = (IF Top(Q, s) = "none" \/ Rank(Q, s, l) > Rank(Q, s, Top(Q, s)) THEN l ELSE Top(Q, s))]_vars

---------------------------------------------------------------------------
(* emission of every state for the conformance driver *)
DefList == {[s |-> s, l |-> l, ref |-> (l \in RefAt(s) /\ l \notin empties[s]), empty |-> (l \in empties[s]), code |-> Code(s, l), next |-> NextSlot(s)] :
               s \in Slots, l \in Raw}
Case == [family |-> Family, kind |-> OptKind, litform |-> LitForm, obuiltin |-> OBuiltin, args |-> ArgsUse,
         used |-> {s \in Slots : Used(s)},
         defs |-> {d \in DefList : d.l \in defs[d.s]},
         sibling |-> Sibling, replicated |-> Replicated, splits |-> UserSplits, hist |-> hist,
         exp |-> [Q \in Platforms |-> Result(Q)]]
(* documents (HistLen = 0) are emitted as they are; with histories only the complete ones are emitted *)
EmitCase == (Emit /\ Len(hist) = HistLen) => PrintT(ToJson(Case))

---------------------------------------------------------------------------
(* "Typed options end up with their declared type": the catalogue of the options of a component that may take    *)
(* their value from a variable and whose declared type is not text.  For each of them the driver writes          *)
(* "%(t)s" into the component, lets t hold the literal directly (depth 1) or through a second, global variable   *)
(* (depth 2), written natively or as text, and expects a value of the declared type equal to `value`.            *)
(* The driver compares the catalogue with the component schema of the code (a path it does not know = drift).    *)
TypedOptions == {
    [path |-> "workflowAttributes.replicate", type |-> "int"],
    [path |-> "workflowAttributes.isMigratable", type |-> "bool"],
    [path |-> "workflowAttributes.repeatInterval", type |-> "int"],
    [path |-> "workflowAttributes.maxRestarts", type |-> "int"],
    [path |-> "workflowAttributes.repeatRetries", type |-> "int"],
    [path |-> "workflowAttributes.memoization.disable.strong", type |-> "bool"],
    [path |-> "workflowAttributes.memoization.disable.fuzzy", type |-> "bool"],
    [path |-> "workflowAttributes.optimizer.disable", type |-> "bool"],
    [path |-> "workflowAttributes.optimizer.exploitChance", type |-> "float"],
    [path |-> "workflowAttributes.optimizer.exploitTarget", type |-> "float"],
    [path |-> "workflowAttributes.optimizer.exploitTargetLow", type |-> "float"],
    [path |-> "workflowAttributes.optimizer.exploitTargetHigh", type |-> "float"],
    [path |-> "resourceManager.config.walltime", type |-> "float"],
    [path |-> "resourceManager.lsf.statusRequestInterval", type |-> "float"],
    [path |-> "resourceManager.kubernetes.cpuUnitsPerCore", type |-> "float"],
    [path |-> "resourceManager.kubernetes.gracePeriod", type |-> "int"],
    [path |-> "resourceRequest.numberProcesses", type |-> "int"],
    [path |-> "resourceRequest.numberThreads", type |-> "int"],
    [path |-> "resourceRequest.ranksPerNode", type |-> "int"],
    [path |-> "resourceRequest.threadsPerCore", type |-> "int"],
    [path |-> "resourceRequest.memory", type |-> "int"],
    [path |-> "resourceRequest.gpus", type |-> "int"],
    [path |-> "command.resolvePath", type |-> "bool"] }

(* how the literal is written (form), what is written (text) and the value the option must end up with *)
CatForms(ty) ==
    CASE ty = "int"   -> {[form |-> "native", text |-> "3", value |-> "3"], [form |-> "string", text |-> "3", value |-> "3"]}
      [] ty = "float" -> {[form |-> "native", text |-> "2.5", value |-> "2.5"], [form |-> "string", text |-> "2.5", value |-> "2.5"],
                          [form |-> "nativeint", text |-> "2", value |-> "2"]}
      [] ty = "bool"  -> {[form |-> "native", text |-> "true", value |-> "true"], [form |-> "native", text |-> "false", value |-> "false"],
                          [form |-> "string", text |-> "true", value |-> "true"], [form |-> "string", text |-> "false", value |-> "false"]}

CatalogueCases == {[path |-> o.path, type |-> o.type, form |-> f.form, text |-> f.text, value |-> f.value, depth |-> d] :
                      o \in TypedOptions, f \in UNION {CatForms(t) : t \in {"int", "float", "bool"}}, d \in {1, 2}}
CatalogueOf == {c \in CatalogueCases : \E f \in CatForms(c.type) : f.form = c.form /\ f.text = c.text}
(* a state-level formula (printed for the initial state only); a constant one would be evaluated by TLC at start-up *)
EmitCatalogue == (Emit /\ hist = <<>> /\ \A s \in Slots : defs[s] = {}) => PrintT(ToJson(CatalogueOf))
=============================================================================
