------------------------------ MODULE DoWhile ------------------------------
(***************************************************************************)
(* C05 -- DoWhile unrolling is wired correctly for any number of           *)
(* iterations.                                                             *)
(*                                                                         *)
(* A DoWhile document is a template of "looped" components that a          *)
(* workflow imports at some stage (`$import: dowhile.yaml`).  Loading the  *)
(* package instantiates iteration 0; every further iteration is created by *)
(* WorkflowGraph.instantiate_dowhile_next_iteration (action Iterate).      *)
(* Instance i of the looped component c is the component `i#c`; the name   *)
(* `c` itself stays behind as a *placeholder* that components outside the  *)
(* loop reference.                                                         *)
(*                                                                         *)
(* The module has two parts.                                               *)
(*  - A family of document shapes (record `sh`, chosen in Init) and the    *)
(*    meaning of such a document: which references instance i of a role    *)
(*    has (RefsOf), i.e. the rewriting the loader has to perform           *)
(*    (flowir.instantiate_dowhile / rewrite_components /                   *)
(*    rewrite_all_references).                                             *)
(*  - The unrolling state machine: k[d] iterations of loop d exist, `inst` *)
(*    is the set of instances, `wire` their references, `latest`/`order`   *)
(*    the placeholder metadata (WorkflowGraph._placeholders: 'latest',     *)
(*    'represents' as resolved by DataReference.resolve), `cond` the       *)
(*    iteration whose output is the loop's current condition               *)
(*    (WorkflowGraph._documents['DoWhile'][id]['state']).                  *)
(*                                                                         *)
(* Roles of the looped components (the harness renders them to names):     *)
(*   "W"  consumes the input bindings `inp` (:output) and `fix`            *)
(*   "A"  (optional) consumes W of the same iteration and `fix`            *)
(*   "S"  (optional) a separate producer of the condition, in its own stage *)
(* Outside the loop: producers "gen" and "src" in stage 0 (the original    *)
(* bindings inp -> gen, fix -> src) and consumers that reference the       *)
(* placeholders with :ref, :output, :loopref and :loopoutput.              *)
(*                                                                         *)
(* Between unrollings the controller inspects the workflow (action Inspect:  *)
(* dependency analysis, status report, placeholder state); inspections are *)
(* read-only, so every clause of C05 holds whoever looked at the workflow. *)
(*                                                                         *)
(* An unrolling happens because the condition of the newest iteration said *)
(* "true"; when it says "false" the loop is over (action Finish).           *)
(*                                                                         *)
(* An iteration number is a natural number.  The implementation embeds it  *)
(* in the component name as a decimal numeral (`10#c`); LexLess below is   *)
(* the order of those numerals as strings, kept in the spec as a named     *)
(* deviation so that TLC can show where it departs from the numeric order  *)
(* (LexAgreesWithNumeric fails exactly when some k reaches 10).            *)
(***************************************************************************)
EXTENDS Integers, Sequences, FiniteSets, TLC, Json

CONSTANTS MaxK,      \* iterations of loop 1 explored: 0..MaxK
          MaxK2,     \* iterations of the second import of the document (twin) explored: 0..MaxK2
          Offsets,   \* stages at which the document is imported
          NameKinds, \* subset of {"plain", "tricky"}
          Repls,     \* subset of {0, 2}: replication factor of W inside the loop (0: none)
          Twins,     \* subset of BOOLEAN: is the same document imported a second time (two stages later)
          Emit       \* TRUE: print every reachable state as JSON for the conformance driver

NoIter == -1         \* "not a looped instance" in a resolved reference
NoRep  == -1         \* "not a replica"
Agg    == {"loopref", "loopoutput"}
Meths  == {"ref", "output", "loopref", "loopoutput"}

---------------------------------------------------------------------------
(* The family of documents *)

ShapeSpace == [off : Offsets, aux : BOOLEAN, sw : 0..1, sa : 0..1, sc : 0..1, carry : {"none", "W", "A"},
               cond : {"W", "A", "S"}, repl : Repls, names : NameKinds, twin : Twins,
               meth : {"output", "ref", "copy"}, file : BOOLEAN, cfile : BOOLEAN]

(* Documents the loader legitimately supports (everything else is outside the property):            *)
(*  - a consumer is never in an earlier stage than its producer, also across iterations               *)
(*    (the carrier of a loop binding is not in a later body stage than W, which consumes it);         *)
(*  - a replicating W can only be carried through the aggregating A, which then also produces the    *)
(*    condition (a condition needs a single producer per iteration);                                  *)
(*  - "tricky" names: W has the same name as the outside producer `src` that the binding `fix` is     *)
(*    bound to (component identity is (stage, name), so this is legal as long as they are in different *)
(*    stages), and A uses `fix` and W with the same method in one argument string.                     *)
ValidShape(s) ==
    /\ s.aux = FALSE => (s.sa = s.sw /\ s.carry # "A" /\ s.cond # "A" /\ s.repl = 0 /\ s.names = "plain")
    /\ s.cond # "S" => s.sc = 0                       \* sc only matters when the separate condition producer exists
    /\ s.aux => s.sw <= s.sa
    /\ s.carry = "A" => s.sa = s.sw
    /\ s.repl > 0 => (s.aux /\ s.carry # "W" /\ s.cond # "W" /\ s.names = "plain")
    /\ s.names = "tricky" => (s.aux /\ s.off + s.sw >= 1 /\ s.cond # "S")
    /\ s.twin => (s.repl = 0 /\ s.names = "plain")
    \* the binding `inp` (original and loop-carried value) names the producer's stdout (:output, no file) or a FILE of the producer
    \* (`state.txt`) with :output, :ref or :copy; the file variants are explored for the loops that carry a binding
    /\ (s.meth # "output" => s.file)
    /\ s.file => (s.carry # "none" /\ s.names = "plain" /\ ~s.twin /\ s.repl = 0 /\ s.cond # "S")
    \* ... or, the mirror image, the binding values have no path and the CONSUMER's reference adds it: `inp/state.txt:<method>`
    /\ s.cfile => (s.file /\ (~s.aux \/ s.carry = "A"))

Shapes == {s \in ShapeSpace : ValidShape(s)}

VARIABLES sh,      \* the document shape (constant along a behaviour)
          k,       \* [loop -> number of the newest iteration]
          inst,    \* set of instances [loop, iter, role, rep]
          wire,    \* [inst -> set of resolved references [stage, iter, prod, rep, meth]]
          latest,  \* [loop -> [role -> iteration of the instance a :ref/:output from outside resolves to]]
          order,   \* [loop -> [role -> sequence of iterations an aggregate reference lists]]
          cond,    \* [loop -> iteration whose condition producer decides whether to loop again]
          insp,    \* kinds of inspection the controller performed since the newest unrolling (a set)
          done     \* [loop -> has the condition of the newest iteration answered "false": the loop is over]
vars == <<sh, k, inst, wire, latest, order, cond, insp, done>>
unrolled == <<sh, k, inst, wire, latest, order, cond, done>>   \* the workflow itself

Loops(s)   == IF s.twin THEN {1, 2} ELSE {1}
Consumed(s) == IF s.aux THEN {"W", "A"} ELSE {"W"}       \* the roles that take part in the dataflow of the loop
Roles(s)   == Consumed(s) \cup (IF s.cond = "S" THEN {"S"} ELSE {})
Off(s, d)  == s.off + 2 * (d - 1)                    \* import stage of loop d
Body(s, r) == IF r = "W" THEN s.sw ELSE IF r = "A" THEN s.sa ELSE s.sc    \* stage of a role inside the document
Reps(s, r) == IF s.repl > 0 /\ r = "W" THEN 0 .. (s.repl - 1) ELSE {NoRep}
FixMeth(s) == IF s.names = "tricky" THEN "output" ELSE "ref"
Bound(d)   == IF d = 1 THEN MaxK ELSE MaxK2

Ref(st, it, p, rp, m) == [stage |-> st, iter |-> it, prod |-> p, rep |-> rp, meth |-> m, file |-> FALSE]
FileRef(st, it, p, rp, m, f) == [stage |-> st, iter |-> it, prod |-> p, rep |-> rp, meth |-> m, file |-> f]   \* f: names <producer>/state.txt

(* The original bindings: both producers live in stage 0, outside the loop *)
OrigInp(s) == FileRef(0, NoIter, "gen", NoRep, s.meth, s.file)
OrigFix(s) == Ref(0, NoIter, "src", NoRep, FixMeth(s))

(* What the loader has to make of the template's references for instance i of role r (replica j) of   *)
(* loop d.  `prev` is the iteration the loop-carried input comes from.                                 *)
RefsOf(s, d, i, r, prev) ==
    LET inp == IF i > 0 /\ s.carry # "none"
               THEN FileRef(Off(s, d) + Body(s, s.carry), prev, s.carry, NoRep, s.meth, s.file)    \* loop-carried
               ELSE OrigInp(s)                                                                      \* original binding
    IN  IF r = "W"
        THEN {inp, OrigFix(s)}
        ELSE IF r = "A"
        THEN {Ref(Off(s, d) + Body(s, "W"), i, "W", j, "output") : j \in Reps(s, "W")} \cup {OrigFix(s)}
        ELSE \* "S": the separate condition producer looks at what its stage allows (A, else an unreplicated W, else nothing)
             IF s.aux /\ s.sc >= s.sa THEN {Ref(Off(s, d) + Body(s, "A"), i, "A", NoRep, "output")}
             ELSE IF s.repl = 0 /\ s.sc >= s.sw THEN {Ref(Off(s, d) + Body(s, "W"), i, "W", NoRep, "output")}
             ELSE {}

NewInstances(s, d, i) == UNION {{[loop |-> d, iter |-> i, role |-> r, rep |-> j] : j \in Reps(s, r)} : r \in Roles(s)}

Init == /\ sh \in Shapes
        /\ k = [d \in Loops(sh) |-> 0]
        /\ inst = UNION {NewInstances(sh, d, 0) : d \in Loops(sh)}
        /\ wire = [x \in inst |-> RefsOf(sh, x.loop, 0, x.role, NoIter)]
        /\ latest = [d \in Loops(sh) |-> [r \in Roles(sh) |-> 0]]
        /\ order = [d \in Loops(sh) |-> [r \in Roles(sh) |-> <<0>>]]
        /\ cond = [d \in Loops(sh) |-> 0]
        /\ insp = {}
        /\ done = [d \in Loops(sh) |-> FALSE]

(* instantiate_dowhile_next_iteration(document of loop d, k[d] + 1): the new iteration takes its     *)
(* loop-carried input from what is the newest iteration *now*; nothing else changes.                  *)
(* The runtime gets here when the condition producer of iteration k[d] finishes and its output reads "true"           *)
(* (Controller.finishedCheck -> _handle_condition_component_finished -> _instantiate_next_dowhile_iteration): the          *)
(* controller has to recognise the output of THAT instance as the loop's condition, for every k.                           *)
Iterate(d) ==
    /\ d \in Loops(sh) /\ k[d] < Bound(d) /\ ~done[d]
    /\ LET i == k[d] + 1
           new == NewInstances(sh, d, i)
       IN  /\ inst' = inst \cup new
           /\ wire' = [x \in inst \cup new |-> IF x \in inst THEN wire[x]
                                               ELSE RefsOf(sh, d, i, x.role, latest[d][IF sh.carry = "none" THEN "W" ELSE sh.carry])]
           /\ latest' = [latest EXCEPT ![d] = [r \in Roles(sh) |-> i]]
           /\ order' = [order EXCEPT ![d] = [r \in Roles(sh) |-> Append(order[d][r], i)]]
           /\ cond' = [cond EXCEPT ![d] = i]
           /\ k' = [k EXCEPT ![d] = i]
    /\ insp' = {}
    /\ UNCHANGED <<sh, done>>

(* the condition producer of iteration k[d] finishes and its output reads "false": the loop is over, nothing is unrolled *)
Finish(d) == /\ d \in Loops(sh) /\ ~done[d]
             /\ done' = [done EXCEPT ![d] = TRUE]
             /\ insp' = {}
             /\ UNCHANGED <<sh, k, inst, wire, latest, order, cond>>

(* The runtime looks at the unrolled workflow all the time: Controller.initialise ("init"), the dependency     *)
(* analysis / status report generate_status_report_for_nodes ("report", run by initialise and after every      *)
(* finishedCheck), _comp_get_active_predecessors of a placeholder ("preds", run by _schedule) and               *)
(* get_node_state / get_placeholder_state ("state").  C05 speaks about the workflow after unrolling whoever    *)
(* looks at it: an inspection is read-only.  Inspections happen in any order, any number of them, between any  *)
(* two unrollings (`insp` only records which kinds have happened, so that the driver performs them).           *)
Kinds == {"init", "report", "preds", "state"}
Inspect(kind) == /\ kind \notin insp
                 /\ insp' = insp \cup {kind}
                 /\ UNCHANGED unrolled

Next == \/ \E d \in {1, 2} : Iterate(d)        \* constant bounds: TLC then reports coverage per action
        \/ \E d \in {1, 2} : Finish(d)
        \/ \E kind \in Kinds : Inspect(kind)
Spec == Init /\ [][Next]_vars

---------------------------------------------------------------------------
(* The property C05, clause by clause *)

Max(S) == CHOOSE x \in S : \A y \in S : y <= x
ItersOf(d, r) == {x.iter : x \in {y \in inst : y.loop = d /\ y.role = r}}

(* "the workflow contains exactly the instances 0 to k of every looped component" *)
ExactInstances == /\ inst = UNION {UNION {NewInstances(sh, d, i) : i \in 0 .. k[d]} : d \in Loops(sh)}
                  /\ \A d \in Loops(sh) : \A r \in Roles(sh) : ItersOf(d, r) = 0 .. k[d]

(* "instance i>0 takes its loop-carried inputs from instance i-1" *)
CarriedFromPrevious ==
    \A x \in inst : (x.role = "W" /\ x.iter > 0 /\ sh.carry # "none") =>
        /\ \E q \in wire[x] : q.prod = sh.carry /\ q.iter = x.iter - 1 /\ q.meth = sh.meth /\ q.file = sh.file
        /\ OrigInp(sh) \notin wire[x]
        /\ \A q \in wire[x] : q.prod = sh.carry => q.iter = x.iter - 1

(* "... and its other inputs from the original bindings" (and iteration 0 takes all of them from there) *)
OthersFromOriginal ==
    \A x \in inst : /\ x.role \in {"W", "A"} => OrigFix(sh) \in wire[x]
                    /\ (x.role = "W" /\ (x.iter = 0 \/ sh.carry = "none")) => OrigInp(sh) \in wire[x]
                    /\ \A q \in wire[x] : q.iter = NoIter => q \in {OrigInp(sh), OrigFix(sh)}

(* references between looped components stay inside one iteration ... *)
SameIterationInside ==
    \A x \in inst : x.role \in {"A", "S"} => \A q \in wire[x] : q.iter # NoIter => q.iter = x.iter

(* ... and their stage index never drifts: import stage + stage inside the document, for every iteration *)
NoStageDrift ==
    \A x \in inst : \A q \in wire[x] : q.iter # NoIter => q.stage = Off(sh, x.loop) + Body(sh, q.prod)

(* "a reference from outside the loop resolves to the instance with the numerically highest iteration" *)
LatestIsHighest == \A d \in Loops(sh) : \A r \in Roles(sh) : latest[d][r] = Max(ItersOf(d, r))

(* "aggregate loop references list all instances in increasing iteration order" *)
AggregateInOrder ==
    \A d \in Loops(sh) : \A r \in Roles(sh) :
        /\ Len(order[d][r]) = k[d] + 1
        /\ \A p \in 1 .. Len(order[d][r]) : order[d][r][p] = p - 1

(* What a reference with method m from outside the loop to the placeholder of role r of loop d resolves to:     *)
(* the sequence of iterations whose working directory (:ref, :loopref) / output (:output, :loopoutput) it yields. *)
Resolve(d, r, m) == IF m \in Agg THEN order[d][r] ELSE <<latest[d][r]>>
OutsideResolution == \A d \in Loops(sh) : \A r \in Roles(sh) : \A m \in Meths :
                        Resolve(d, r, m) = IF m \in Agg THEN [p \in 1 .. k[d] + 1 |-> p - 1] ELSE <<k[d]>>

(* "the loop's current condition is the one produced by iteration k" -- of that loop *)
ConditionFromNewest == \A d \in Loops(sh) : cond[d] = k[d]
(* ... and it names an existing component: the instance of the condition producer of that iteration, which lives in *)
(* the stage `import stage + document stage of the condition producer` (CondStage).  Consumers outside the loop      *)
(* wait for it (the loop is over only when its latest condition says so).                                           *)
CondStage(d) == Off(sh, d) + Body(sh, sh.cond)
ConditionExists == \A d \in Loops(sh) : [loop |-> d, iter |-> cond[d], role |-> sh.cond, rep |-> NoRep] \in inst

TypeOK == /\ sh \in Shapes
          /\ \A d \in Loops(sh) : k[d] \in 0 .. Bound(d)
          /\ \A x \in inst : x.loop \in Loops(sh) /\ x.role \in Roles(sh) /\ x.rep \in Reps(sh, x.role)

---------------------------------------------------------------------------
(* Named deviation: iteration numbers ordered as decimal numerals (strings). *)
RECURSIVE Digits(_)
Digits(n) == IF n < 10 THEN <<n>> ELSE Append(Digits(n \div 10), n % 10)

RECURSIVE LexLessSeq(_, _)
LexLessSeq(a, b) == IF Len(a) = 0 THEN Len(b) > 0
                    ELSE IF Len(b) = 0 THEN FALSE
                    ELSE IF Head(a) # Head(b) THEN Head(a) < Head(b)
                    ELSE LexLessSeq(Tail(a), Tail(b))
LexLess(m, n) == LexLessSeq(Digits(m), Digits(n))
LexMax(S) == CHOOSE x \in S : \A y \in S \ {x} : LexLess(y, x)

(* holds while every k < 10, fails from 10 on ("9" > "10"): run with the expectation of a violation *)
LexAgreesWithNumeric == \A d \in Loops(sh) : LexMax(0 .. k[d]) = k[d]

---------------------------------------------------------------------------
(* Emission of every reachable state for the conformance driver (an INVARIANT that prints) *)
InstJson == {[loop |-> x.loop, iter |-> x.iter, role |-> x.role, rep |-> x.rep, refs |-> wire[x]] : x \in inst}
InspectReadOnly == [][(\E kind \in Kinds : Inspect(kind)) => UNCHANGED unrolled]_vars

FinishedLoopsStay == [][\A d \in Loops(sh) : done[d] => (k'[d] = k[d] /\ done'[d])]_vars
NoInspect == insp = {} /\ \A d \in Loops(sh) : ~done[d]   \* CONSTRAINT of the emission run: the unrolled workflow does not depend on insp / done
EmitState == (Emit /\ NoInspect) => PrintT(ToJson([sh |-> sh, k |-> k, inst |-> InstJson, latest |-> latest,
                                     order |-> order, cond |-> cond]))
=============================================================================
