------------------------- MODULE ConfigCache_trace -------------------------
(***************************************************************************)
(* Trace validation for C08 (direction code -> spec).                      *)
(*                                                                         *)
(* The driver executes histories of configuration-interface calls chosen   *)
(* by itself on the real FlowIRConcrete / FlowIRExperimentConfiguration    *)
(* and records, per call, the call, what it returned (projected to the     *)
(* spec's result record) and the projected state afterwards (description,  *)
(* cached keys, handed flag) as a state code.  A generated module defines  *)
(* `Traces` as a literal.  TLC follows every recorded history through the  *)
(* actions of ConfigCache (the recorded call selects the action, Dispatch)*)
(* and reports per step whether the recorded    *)
(* result equals the spec's `last.ret` (= Resolve of the description, by   *)
(* QueryFresh) and whether the recorded state equals the spec's state.     *)
(* QueryFresh / Coherent / Private are checked on the followed behaviour.  *)
(***************************************************************************)
EXTENDS ConfigCache

CONSTANT Traces      \* sequence of [base |-> b, steps |-> sequence of [a |-> call record, t |-> state code]]
VARIABLES tid, pos
tvars == <<D, cache, handed, last, tid, pos>>

(* TLC evaluates a constant definition without parameters once; a substituted CONSTANT is re-evaluated on every use *)
TraceSeq == Traces
StepSeqs == [t \in 1..Len(TraceSeq) |-> TraceSeq[t].steps]
Steps(t) == StepSeqs[t]

TraceInit == /\ tid \in 1..Len(TraceSeq)
             /\ pos = 0
             /\ D = Base(TraceSeq[tid].base)
             /\ cache = NoCache
             /\ handed = "none"
             /\ last = Call("Init", U, U, -1, U, U, FALSE, Done)

SameCall(l, e) == /\ l.act = e.act /\ l.c = e.c /\ l.p = e.p /\ l.st = e.st /\ l.x = e.x /\ l.how = e.how

(* the recorded call selects the action of ConfigCache (the same definitions Next is made of) *)
Dispatch(e) ==
  CASE e.act = "Query"             -> Query(e.c, e.p, e.x)
    [] e.act = "SetCompVar"        -> SetCompVar(e.c, e.x, e.how)
    [] e.act = "DelCompVar"        -> DelCompVar(e.c, e.how)
    [] e.act = "SetArgs"           -> SetArgs(e.c, e.x, e.how)
    [] e.act = "SetNp"             -> SetNp(e.c, e.x, e.how)
    [] e.act = "DelNp"             -> DelNp(e.c, e.how)
    [] e.act = "SetRi"             -> SetRi(e.c, e.x, e.how)
    [] e.act = "DelRi"             -> DelRi(e.c, e.how)
    [] e.act = "SetIp"             -> SetIp(e.c, e.x, e.how)
    [] e.act = "DelIp"             -> DelIp(e.c, e.how)
    [] e.act = "SetGlobal"         -> SetGlobal(e.x)
    [] e.act = "SetStageVar"       -> SetStageVar(e.st, e.x)
    [] e.act = "SetPlatformGlobal" -> SetPlatformGlobal(e.p, e.x)
    [] e.act = "SetPlatformStage"  -> SetPlatformStage(e.p, e.st, e.x)
    [] e.act = "InPlaceGlobal"     -> InPlaceGlobal(e.p, e.x)
    [] e.act = "InPlaceStage"      -> InPlaceStage(e.p, e.st, e.x)
    [] e.act = "AddComp"           -> AddComp(e.c, e.x, e.how)
    [] e.act = "ReplaceSame"       -> ReplaceSame(e.c, e.x)
    [] e.act = "ReplaceComp"       -> ReplaceComp(e.c, e.x)
    [] e.act = "DeleteComp"        -> DeleteComp(e.c)
    [] e.act = "Peek"              -> Peek(e.c, e.x)
    [] e.act = "MutateReturned"    -> MutateReturned

TraceNext == /\ pos < Len(Steps(tid))
             /\ Dispatch(Steps(tid)[pos + 1].a)
             /\ SameCall(last', Steps(tid)[pos + 1].a)       \* the dispatched action logs exactly the recorded call
             /\ pos' = pos + 1
             /\ UNCHANGED tid

TraceSpec == TraceInit /\ [][TraceNext]_tvars

(* one line per followed step: the verdict of the comparison and the spec's values (for the triage by the driver) *)
Report == pos > 0 =>
            LET e == Steps(tid)[pos] IN
            PrintT(ToJson([tid |-> tid, pos |-> pos,
                           retOk |-> (e.a.ret = last.ret),
                           codeOk |-> (e.t = CodeOf(D, cache, handed)),
                           a |-> last, t |-> CodeOf(D, cache, handed)]))

TraceQueryFresh == [][QueryFreshStep]_tvars
TracePrivate == [][PrivateStep]_tvars
=============================================================================
