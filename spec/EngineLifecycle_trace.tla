------------------------ MODULE EngineLifecycle_trace ------------------------
(***************************************************************************)
(* Trace validation for EngineLifecycle.tla (code -> spec).                *)
(*                                                                         *)
(* harness/world_g01.py runs the REAL experiment.runtime.engine.Engine     *)
(* under seeded random interleavings at the granularity of single rx       *)
(* items (every hop of every pool, every timer) and environment calls      *)
(* (run, kill, task exit, restart, shutdown) and logs one record per step: *)
(* the event, its argument and the observable projection of the engine     *)
(* after the step (exit reason, shutdown flag, task generator calls, task  *)
(* alive / kill requested, restarts, restart code, stream completed, the   *)
(* update delivered to the subscriber of stateUpdates in this step).       *)
(* Everything else of the specification's state (which subscriber has a    *)
(* delivery in flight, where the launch pipeline is, the snapshots in the  *)
(* trigger pool, the FIFO part of the emission path, StateFilter's memory) *)
(* is hidden: TLC searches for it.  A record is matched by                 *)
(*      Step(event, argument)  /\  observable part of vars' = logged.      *)
(* An "Item" record (some rx hop ran) may be any internal action or a      *)
(* stuttering step.  Many runs are validated per TLC invocation (tid);     *)
(* the furthest matched step per run is kept in a TLC register and the     *)
(* POSTCONDITION lists the runs that were not matched to their end.  The   *)
(* action properties of EngineLifecycle.tla are evaluated along the        *)
(* matched behaviours, i.e. on the logged real states.                     *)
(***************************************************************************)
EXTENDS EngineLifecycle, EngineTraceData

(* EngineTraceData (generated per batch):  Traces == << run, ... >>,  run == << step, ... >>,                        *)
(* step == <<ev, arg, reason, shut, nlaunch, tkill, talive, restarts, done, rcode, hasUpd, upd, nsnap, waiting, lk>>  *)
(*   nsnap   emit_now snapshots still in their trigger-pool hop, waiting: the task-pool hop sits in Task.wait(),      *)
(*   lk      what the task generator did if it was called in this step ("-" otherwise)                               *)
(* ev: the environment calls Run Kill Exit Restart Shutdown; Tick (periodic clock item); Fire (launch-delay item);   *)
(* Snap i (the trigger-pool hop of the i-th pending snapshot); HopTrigger / HopEngine / HopFilter / HopTask: some     *)
(* other item of that pool ran: one of the internal actions that live on that pool, or a step without effect.        *)

VARIABLES tid, l
tvars == <<vars, tid, l>>

T == Traces[tid]

DeliversUpdate == Len(outq') < Len(outq) /\ Head(outq)[1] = "update"

Matches(e) ==
  /\ exitR' = e[3] /\ shut' = e[4] /\ nlaunch' = e[5]
  /\ (tkill' /\ talive') = e[6] /\ talive' = e[7] /\ restarts' = e[8] /\ done' = e[9] /\ rcode' = e[10]
  /\ IF e[11] THEN DeliversUpdate /\ Head(outq)[2] = e[12] ELSE ~DeliversUpdate
  /\ Len(snaps') = e[13]
  /\ (sw' = "waiting" /\ talive') = e[14]
  /\ (nlaunch' # nlaunch) => lkind = e[15]

Stutter == UNCHANGED vars

Step(e) ==
  CASE e[1] = "Run" -> Run
    [] e[1] = "Kill" -> Kill
    [] e[1] = "Exit" -> TaskExit(e[2])
    [] e[1] = "Restart" -> Restart
    [] e[1] = "Shutdown" -> Shutdown
    [] e[1] = "Tick" -> Tick
    (* the launch-delay item: the start value reaches the gate -- or a gate that a kill closed already (the timers are *)
    (* disposed by a hop of their own), or belongs to an execution that is over                                       *)
    [] e[1] = "Fire" -> ((\E k \in Kinds : Fire(k)) \/ Stutter)
    [] e[1] = "Snap" -> Enter(e[2])
    [] e[1] = "HopTrigger" -> (DeliverInit \/ DeliverGate \/ DeliverTerm \/ DeliverStale \/ Stutter)
    [] e[1] = "HopEngine" -> (ArmLaunch \/ Launch \/ TermSubscribe \/ Out \/ Stutter)
    [] e[1] = "HopFilter" -> (Filter \/ Stutter)
    [] e[1] = "HopTask" -> (WaitStep \/ HandleKilled \/ Stutter)
    [] e[1] = "HopOther" -> Stutter
    [] OTHER -> FALSE

TraceInit == Init /\ tid \in 1..Len(Traces) /\ l = 0

TraceNext ==
  /\ l < Len(T) /\ l' = l + 1 /\ tid' = tid
  /\ Step(T[l + 1]) /\ Matches(T[l + 1])

TraceSpec == TraceInit /\ [][TraceNext]_tvars

Furthest == TLCSet(tid, l)
AllAccepted ==
  LET bad == {t \in 1..Len(Traces) : TLCGet(t) # Len(Traces[t])} IN
  \/ bad = {}
  \/ PrintT(<<"REJECTED", [t \in bad |-> TLCGet(t)]>>) /\ FALSE

(* the action properties, restated over tvars *)
TReasonStable == [][(exitR # "none" /\ exitR' # exitR) => (exitR' = "none" /\ runGen' = runGen + 1)]_tvars
TShutAbsorbing == [][shut => (shut' /\ exitR' = exitR)]_tvars
TNoLaunchAfterGateClosed == [][(lp \in {"closed", "dead"}) => nlaunch' = nlaunch]_tvars
TCompletedIsFinal == [][done => (done' /\ ~DeliversUpdate)]_tvars
=============================================================================
