------------------------------- MODULE Confine -------------------------------
(***************************************************************************)
(* C18 -- staging and deployment never write outside their target          *)
(* directory.                                                              *)
(*                                                                         *)
(* A small POSIX file-system model: a path is a sequence of segments from  *)
(* the sandbox root; an entry is a directory, a file, a symbolic link      *)
(* (with its raw target) or a hard link (with the location of the inode it *)
(* shares).  The tree the operation starts from is                         *)
(*                                                                         *)
(*    l2/l3/t            the TARGET (working directory / new instance)     *)
(*    l2/l3/a            a file outside        l2/l3/b/a  another one      *)
(*                       (the driver renders b as "tb" and the target as   *)
(*                       "t": a sibling whose name extends the target's;   *)
(*                       segment e is "te": such a sibling that does not   *)
(*                       exist yet; c is an unrelated new name)            *)
(*    l2/l3/p, l2/l3/q   sources (package folders / producer directories), *)
(*                       each with a file `a` and a directory `d` (file a) *)
(*                                                                         *)
(* so that names over the tiny alphabet {a, b, d, "..", ""} address        *)
(* existing things outside (../a, ../b/a), new things outside (../../a)    *)
(* and things inside alike.  "" as first segment makes a name absolute     *)
(* (the driver renders it as the absolute path of the sandbox root).       *)
(*                                                                         *)
(* Inputs (Mode):                                                          *)
(*  "archive"  a tar archive = sequence of <= MaxMembers members           *)
(*             [k: file|dir|sym|hard, n: name, t: link target], extracted  *)
(*             member by member into the target (StageReference :extract)  *)
(*  "manifest" a deployment manifest = sequence of <= MaxMembers entries   *)
(*             [k: copy|link, n: key, t: source p|q] with distinct keys    *)
(*             (ExperimentPackage.expandPackageToDirectory)                *)
(*  "stage"    a sequence of staging operations of one component           *)
(*             [k: copy|link|extract, n: <<>>, t: source] (Job.stageIn)    *)
(*                                                                         *)
(* `Apply` is the effect of one member/entry/operation with POSIX          *)
(* semantics: missing parents are created (makedirs), symbolic links met   *)
(* on the way are followed, a file written at a symbolic link goes through *)
(* it, attributes of hard-link members are applied to the shared inode,    *)
(* attributes of directory members are applied when the whole archive has  *)
(* been extracted (to what their path names then), a link that cannot be   *)
(* made falls back to extracting the earlier member it names (tarfile).    *)
(* Every location created or modified goes to `writes`.                    *)
(*                                                                         *)
(* The stager is a state machine  guard -> run(member 1..n) -> done,       *)
(* parameterised by its Guard:                                             *)
(*   "resolve"  the specified one: rejects the input iff carrying it out   *)
(*              would write outside the target                             *)
(*   "prefix"   what the implementation does: rejects absolute member      *)
(*              names / manifest keys only (string prefix of the           *)
(*              unnormalised join; Manifest.validate)                      *)
(* Property (C18):  Confined == every location written is under Target.    *)
(* It holds for "resolve"; the driver also runs "prefix" and expects TLC   *)
(* to REFUTE it (the counterexamples are the escapes the implementation is *)
(* predicted to have; the conformance run confirms them on the real code). *)
(*                                                                         *)
(* For the conformance driver every input is emitted with its              *)
(* classification: hostile (must be rejected), the set of locations a      *)
(* faithful execution creates, whether it fails on its own.                *)
(***************************************************************************)
EXTENDS Integers, Sequences, FiniteSets, TLC, Json

CONSTANTS Mode,
          Segs, MaxLen,          \* member names / manifest keys: sequences over Segs, length 1..MaxLen
          Kinds,                 \* archive: member kinds explored
          LinkNameLen,           \* archive: maximal length of the name of a link member
          LinkSegs, LinkMaxLen,  \* archive: link targets
          MaxMembers,
          Srcs,                  \* manifest: source folders used ({"p"} or {"p", "q"})
          Format,                \* manifest: "flowir" | "dsl": the name under which the workflow definition is stored
          Pattern,               \* manifest: "conf-first": a second entry only after an entry called conf;
                                 \* archive: "any"; "dir-sym-file": only archives whose members have these kinds in this order;
                                 \* "chain": two symbolic-link members (b, then a or b again) followed by 1..MaxMembers-2 members
                                 \* of Kinds whose names / hard-link targets are paths over Segs (so that they can run through
                                 \* the links), kept only when every name and link target looks confined when examined on its
                                 \* own (StaticallyClean): the inputs that escape only THROUGH EARLIER MEMBERS
          LastKinds,             \* chain: kinds allowed for the last member of a full-length archive
          Guard,
          Emit

Fuel == 12                       \* bound on path-resolution steps (symbolic link loops end in an error)

Root == <<>>
L3 == <<"l2", "l3">>
Target == L3 \o <<"t">>
Under(d, p) == Len(p) >= Len(d) /\ SubSeq(p, 1, Len(d)) = d
Inside(p) == Under(Target, p)
Parent(p) == IF p = <<>> THEN <<>> ELSE SubSeq(p, 1, Len(p) - 1)
Front(s) == SubSeq(s, 1, Len(s) - 1)
Last(s) == s[Len(s)]

E(p, k, to) == [p |-> p, k |-> k, to |-> to]
Src(x) == L3 \o <<x>>
Tree0 == {E(<<"l2">>, "dir", <<>>), E(L3, "dir", <<>>), E(Target, "dir", <<>>),
          E(L3 \o <<"a">>, "file", <<>>), E(L3 \o <<"b">>, "dir", <<>>), E(L3 \o <<"b", "a">>, "file", <<>>)}
         \cup UNION {{E(Src(x), "dir", <<>>), E(Src(x) \o <<"a">>, "file", <<>>), E(Src(x) \o <<"d">>, "dir", <<>>),
                      E(Src(x) \o <<"d", "a">>, "file", <<>>)} : x \in {"p", "q"}}
         \* staging only: a third producer r whose FILE is called d and whose DIRECTORY is called a -- the names the
         \* directories / files of p and q carry, so that a staged link and a later copy of the same name differ in kind
         \cup (IF Mode = "stage" THEN {E(Src("r"), "dir", <<>>), E(Src("r") \o <<"d">>, "file", <<>>), E(Src("r") \o <<"a">>, "dir", <<>>),
                                      E(Src("r") \o <<"a", "a">>, "file", <<>>)} ELSE {})

Has(fs, p) == p = Root \/ \E e \in fs : e.p = p
Ent(fs, p) == CHOOSE e \in fs : e.p = p
Kind(fs, p) == IF p = Root THEN "dir" ELSE IF \E e \in fs : e.p = p THEN Ent(fs, p).k ELSE "none"
Put(fs, e) == {x \in fs : x.p # e.p} \cup {e}
PutDirs(fs, ps) == fs \cup {E(p, "dir", <<>>) : p \in {q \in ps : ~Has(fs, q)}}

(* Resolution of the directory part of a path: every segment is traversed; a missing directory is created when mk      *)
(* (os.makedirs), symbolic links are followed (their own target must exist and be a directory).                        *)
(* Result: [ok, p: where we are, made: directories created on the way].                                                *)
RECURSIVE Walk(_, _, _, _, _, _)
Walk(cur, segs, fs, made, fuel, mk) ==
    IF fuel = 0 THEN [ok |-> FALSE, p |-> cur, made |-> made]
    ELSE IF segs = <<>> THEN [ok |-> TRUE, p |-> cur, made |-> made]
    ELSE LET s == Head(segs)
             rest == Tail(segs)
         IN IF s = "" THEN Walk(Root, rest, fs, made, fuel - 1, mk)
            ELSE IF s = "." THEN Walk(cur, rest, fs, made, fuel - 1, mk)
            ELSE IF s = ".." THEN Walk(Parent(cur), rest, fs, made, fuel - 1, mk)
            ELSE LET p == Append(cur, s)
                     k == IF p \in made THEN "dir" ELSE Kind(fs, p)
                 IN CASE k = "dir" -> Walk(p, rest, fs, made, fuel - 1, mk)
                      [] k = "none" -> IF mk THEN Walk(p, rest, fs, made \cup {p}, fuel - 1, mk)
                                       ELSE [ok |-> FALSE, p |-> p, made |-> made]
                      [] k = "sym" -> LET r == Walk(cur, Ent(fs, p).to, fs, made, fuel - 1, FALSE)
                                      IN IF r.ok /\ (r.p \in made \/ Kind(fs, r.p) = "dir")
                                         THEN Walk(r.p, rest, fs, made, fuel - 1, mk)
                                         ELSE [ok |-> FALSE, p |-> p, made |-> made]
                      [] OTHER -> [ok |-> FALSE, p |-> p, made |-> made]          \* a file in the way

(* where a path whose last component may be a symbolic link finally points (open(.., "wb"), chmod, utime follow links) *)
RECURSIVE Final(_, _, _)
Final(loc, fs, fuel) ==
    IF fuel = 0 THEN [ok |-> FALSE, p |-> loc]
    ELSE IF Kind(fs, loc) # "sym" THEN [ok |-> TRUE, p |-> loc]
    ELSE LET to == Ent(fs, loc).to
             r == Walk(Parent(loc), Front(to), fs, {}, fuel - 1, FALSE)
         IN IF ~r.ok THEN [ok |-> FALSE, p |-> loc]
            ELSE LET l == Last(to)
                     nxt == IF l = ".." THEN Parent(r.p) ELSE IF l = "" THEN Root ELSE IF l = "." THEN r.p ELSE Append(r.p, l)
                 IN Final(nxt, fs, fuel - 1)

Res(ok, fs, w) == [ok |-> ok, fs |-> fs, w |-> w, late |-> {}]
ResL(ok, fs, w, late) == [ok |-> ok, fs |-> fs, w |-> w, late |-> late]

(* the location named by the last segment below the resolved parent directory *)
Loc(par, last) == IF last = ".." THEN Parent(par) ELSE IF last = "" THEN Root ELSE IF last = "." THEN par ELSE Append(par, last)

(* what setting mode / times "on path L" modifies: a final symbolic link is followed, a hard link shares its inode *)
Touched(fs, L) == LET f == Final(L, fs, Fuel)
                  IN IF ~f.ok \/ Kind(fs, f.p) = "none" THEN {}
                     ELSE {f.p} \cup (IF Kind(fs, f.p) = "hard" THEN {Ent(fs, f.p).to} ELSE {})

(* lexical normalisation of a name (tarfile compares member names this way when it looks a link target up) *)
RECURSIVE NormAcc(_, _)
NormAcc(segs, acc) ==
    IF segs = <<>> THEN acc
    ELSE IF Head(segs) = "." THEN NormAcc(Tail(segs), acc)
    ELSE IF Head(segs) = ".." /\ acc # <<>> /\ Last(acc) \notin {"..", ""} THEN NormAcc(Tail(segs), Front(acc))
    ELSE NormAcc(Tail(segs), Append(acc, Head(segs)))
Norm(s) == NormAcc(s, <<>>)

(* ---- a member of kind k (file, dir, sym) materialised at location L (tarfile.makefile / makedir / makelink) -------- *)
Place(fs, k, t, L, w0) ==
    CASE k = "file" ->        \* open(L, "wb") goes through a symbolic link at L; mode and times follow the same way
            LET f == Final(L, fs, Fuel)
                kk == Kind(fs, f.p)
            IN IF ~f.ok \/ kk = "dir" \/ Kind(fs, Parent(f.p)) # "dir" THEN Res(FALSE, fs, w0)
               ELSE IF kk = "hard" THEN Res(TRUE, fs, w0 \cup {f.p, Ent(fs, f.p).to})
               ELSE Res(TRUE, Put(fs, E(f.p, "file", <<>>)), w0 \cup {f.p})
      [] k = "dir" ->         \* mkdir tolerates an existing entry (mode and times: see ApplyMember)
            IF Kind(fs, L) = "none" THEN Res(TRUE, Put(fs, E(L, "dir", <<>>)), w0 \cup {L})
            ELSE Res(TRUE, fs, w0)
      [] OTHER ->             \* symbolic link: an existing non-directory entry is unlinked first, nothing is followed;
                              \* over a directory the link cannot be made: a non-fatal error
            IF Kind(fs, L) = "dir" THEN Res(TRUE, fs, w0)
            ELSE Res(TRUE, Put(fs, E(L, "sym", t)), w0 \cup {L})

(* a link member that cannot be made: tarfile extracts the last earlier member whose (normalised) name is `key` at L   *)
(* instead, at once and with that member's attributes (not for a symbolic link); attrs: the failed member is a hard    *)
(* link, whose own mode and times are applied to what L names as well                                                 *)
Fallback(fs, inp, i, key, L, w0, attrs, none) ==
    LET J == {j \in 1..(i - 1) : Norm(inp[j].n) = Norm(key)}
    IN IF J = {} THEN none
       ELSE LET M == inp[CHOOSE j \in J : \A x \in J : x <= j]
            IN IF M.k = "hard" \/ (M.k = "sym" /\ Kind(fs, L) = "dir")      \* the fallback cannot be made either: tarfile falls
                  THEN Res(FALSE, fs, w0)                                    \* back again (RecursionError in practice)
               ELSE LET r == Place(fs, M.k, M.t, L, w0)
                    IN IF ~r.ok THEN r
                       ELSE Res(TRUE, r.fs, r.w \cup (IF attrs \/ M.k # "sym" THEN Touched(r.fs, L) ELSE {}))

(* ---- member i of archive inp extracted below directory `base` (tarfile._extract_member) ----------------------------- *)
ApplyMember(fs, inp, i, base) ==
    LET m == inp[i]
        par == Walk(base, Front(m.n), fs, {}, Fuel, TRUE)          \* os.makedirs(upperdirs)
        fs1 == PutDirs(fs, par.made)
    IN IF ~par.ok THEN Res(FALSE, fs1, par.made)
       ELSE LET L == Loc(par.p, Last(m.n))
            IN CASE m.k = "dir" ->
                      \* extractall sets mode and times of directory members when everything has been extracted, on the
                      \* member's path as it resolves THEN: the name goes to `late`
                      LET r == Place(fs1, "dir", m.t, L, par.made) IN ResL(r.ok, r.fs, r.w, {m.n})
                 [] m.k = "sym" /\ Kind(fs1, L) = "dir" ->
                      Fallback(fs1, inp, i, Front(m.n) \o m.t, L, par.made, FALSE, Res(TRUE, fs1, par.made))
                 [] m.k \in {"file", "sym"} -> Place(fs1, m.k, m.t, L, par.made)
                 [] OTHER ->
                      \* hard link: os.link(<extraction root>/linkname, L) when that exists; the member's mode and times are
                      \* then applied to the shared inode
                      LET r == Walk(base, Front(m.t), fs1, {}, Fuel, FALSE)
                          X == IF r.ok THEN Final(Loc(r.p, Last(m.t)), fs1, Fuel) ELSE [ok |-> FALSE, p |-> <<>>]
                          exists == X.ok /\ Kind(fs1, X.p) # "none"
                          linkable == exists /\ Kind(fs1, X.p) \in {"file", "hard"} /\ Kind(fs1, L) = "none"
                      IN IF linkable
                         THEN LET inode == IF Kind(fs1, X.p) = "hard" THEN Ent(fs1, X.p).to ELSE X.p
                              IN Res(TRUE, Put(fs1, E(L, "hard", inode)), par.made \cup {L, inode})
                         \* no member to fall back to: KeyError when the target does not exist, else the member is skipped
                         ELSE Fallback(fs1, inp, i, m.t, L, par.made, TRUE, Res(exists, fs1, par.made))

(* ---- one manifest entry deployed below the instance directory ------------------------------------------------------ *)
(* sources of manifest entries: the folders p, q; pa = the existing file p/a, pz = a file p/z that does not exist *)
MSrc(t) == CASE t = "pa" -> Src("p") \o <<"a">> [] t = "pz" -> Src("p") \o <<"z">> [] OTHER -> Src(t)
ApplyEntry(fs, m) ==
    IF m.k = "copy" /\ m.t \in {"pa", "pz"} THEN Res(FALSE, fs, {})        \* copytree of a file / of nothing fails
    ELSE IF m.k = "copy" THEN
        \* shutil.copytree(source, target/key): os.makedirs(dst) creates the parents, dst itself must not exist
        LET par == Walk(Target, Front(m.n), fs, {}, Fuel, TRUE)
            fs1 == PutDirs(fs, par.made)
            L == Loc(par.p, Last(m.n))
        IN IF ~par.ok \/ Kind(fs1, L) # "none" \/ L \in par.made THEN Res(FALSE, fs1, par.made)
           ELSE Res(TRUE, fs1 \cup {E(L, "dir", <<>>), E(Append(L, "a"), "file", <<>>),
                                    E(Append(L, "d"), "dir", <<>>), E(L \o <<"d", "a">>, "file", <<>>)},
                    par.made \cup {L, Append(L, "a"), Append(L, "d"), L \o <<"d", "a">>})
    ELSE
        \* os.symlink(source, target/key): the parent must exist, the key must not
        LET par == Walk(Target, Front(m.n), fs, {}, Fuel, FALSE)
            L == Loc(par.p, Last(m.n))
        IN IF ~par.ok \/ Kind(fs, L) # "none" THEN Res(FALSE, fs, {})
           ELSE Res(TRUE, Put(fs, E(L, "sym", <<"">> \o MSrc(m.t))), {L})

(* ---- one staging operation of a component: sources are p/a, q/a, r/d (files), p/d, q/d, r/a (directories), -------- *)
(* ---- arch = an archive with the single file member d/a -------------------------------------------------------------- *)
SrcPath(s) == CASE s = "pa" -> Src("p") \o <<"a">> [] s = "qa" -> Src("q") \o <<"a">>
                [] s = "pd" -> Src("p") \o <<"d">> [] s = "qd" -> Src("q") \o <<"d">>
                [] s = "rd" -> Src("r") \o <<"d">> [] s = "ra" -> Src("r") \o <<"a">> [] OTHER -> <<>>
IsDirSrc(s) == s \in {"pd", "qd", "ra"}
ApplyStage(fs, m) ==
    LET S == SrcPath(m.t)
        L == Append(Target, IF m.t = "arch" THEN "x" ELSE Last(S))
    IN CASE m.k = "extract" -> ApplyMember(fs, <<[k |-> "file", n |-> <<"d", "a">>, t |-> <<>>]>>, 1, Target)
         [] m.k = "link" -> IF Kind(fs, L) # "none" THEN Res(FALSE, fs, {})
                            ELSE Res(TRUE, Put(fs, E(L, "sym", <<"">> \o S)), {L})
         [] m.k = "copy" /\ IsDirSrc(m.t) ->                   \* copytree: the destination must not exist
                            IF Kind(fs, L) # "none" THEN Res(FALSE, fs, {})
                            ELSE Res(TRUE, fs \cup {E(L, "dir", <<>>), E(Append(L, "a"), "file", <<>>)}, {L, Append(L, "a")})
         [] OTHER ->                                            \* shutil.copy of a file: the destination is opened for writing
                            LET f == Final(L, fs, Fuel)
                            IN IF ~f.ok \/ f.p = S THEN Res(FALSE, fs, {})                  \* SameFileError
                               \* shutil.copy(S, target) names the destination target/<name> itself: when that is (a link to) a
                               \* directory the open for writing fails (IsADirectoryError), nothing is written INTO the directory
                               ELSE IF Kind(fs, f.p) = "dir" THEN Res(FALSE, fs, {})
                               ELSE Res(TRUE, Put(fs, E(f.p, "file", <<>>)), {f.p})

Apply(fs, inp, i) == CASE Mode = "archive" -> ApplyMember(fs, inp, i, Target)
                       [] Mode = "manifest" -> ApplyEntry(fs, inp[i])
                       [] OTHER -> ApplyStage(fs, inp[i])

(* the whole input carried out faithfully: [w: everything written, failed: an operation failed].  The attributes of  *)
(* directory members (late) are applied when all members have been extracted, to what their paths name THEN.          *)
TouchedName(fs, n) == LET par == Walk(Target, Front(n), fs, {}, Fuel, FALSE)
                      IN IF ~par.ok THEN {} ELSE Touched(fs, Loc(par.p, Last(n)))
Late(fs, late) == UNION {TouchedName(fs, n) : n \in late}
(* After the manifest entries the deployment stores the workflow definition as conf/flowir_package.yaml (conf/dsl.yaml    *)
(* for a package in the DSL format): the directory conf is made unless the manifest has an entry literally called conf   *)
(* (then whatever that entry put there is used: a copied folder -- or a LINK to the source folder), and the file is      *)
(* written with open(.., "wb"), i.e. THROUGH a symbolic link that an entry `conf/<that name>: x:link` put in its place.  *)
ConfDir == Append(Target, "conf")
Epilogue(fs, inp) ==
    IF Mode # "manifest" THEN Res(TRUE, fs, {})
    ELSE LET has == \E j \in 1..Len(inp) : inp[j].n = <<"conf">>
         IN IF ~has /\ Kind(fs, ConfDir) # "none" THEN Res(FALSE, fs, {})                      \* os.makedirs: it exists
            ELSE LET fs1 == IF has THEN fs ELSE Put(fs, E(ConfDir, "dir", <<>>))
                     made == IF has THEN {} ELSE {ConfDir}
                     d == Final(ConfDir, fs1, Fuel)
                 IN IF ~d.ok \/ Kind(fs1, d.p) # "dir" THEN Res(FALSE, fs1, made)
                    ELSE LET f == Final(Append(d.p, IF Format = "dsl" THEN "dsl.yaml" ELSE "flowir_package.yaml"), fs1, Fuel)
                         IN IF ~f.ok \/ Kind(fs1, f.p) = "dir" THEN Res(FALSE, fs1, made)
                            ELSE Res(TRUE, Put(fs1, E(f.p, "file", <<>>)), made \cup {f.p})

RECURSIVE Run(_, _, _, _, _)
Run(fs, inp, i, w, late) ==
    IF i > Len(inp) THEN LET e == Epilogue(fs, inp)
                         IN [w |-> w \cup Late(fs, late) \cup e.w, failed |-> ~e.ok, fs |-> e.fs]
    ELSE LET r == Apply(fs, inp, i)
         IN IF r.ok THEN Run(r.fs, inp, i + 1, w \cup r.w, late \cup r.late)
            ELSE [w |-> w \cup r.w, failed |-> TRUE, fs |-> r.fs]
Outcome(inp) == Run(Tree0, inp, 1, {}, {})

Hostile(inp) == \E p \in Outcome(inp).w : ~Inside(p)

---------------------------------------------------------------------------
(* the input space *)
SeqsUpTo(S, n) == UNION {[1..k -> S] : k \in 1..n}
ValidName(s) == /\ \A j \in 2..Len(s) : s[j] # ""
                /\ ~(Len(s) = 1 /\ s[1] = "")
Proper(s) == Last(s) \notin {"..", "", "."}
Names == {s \in SeqsUpTo(Segs, MaxLen) : ValidName(s)}
LinkTargets == {s \in SeqsUpTo(LinkSegs, LinkMaxLen) : ValidName(s)}
Members ==
    CASE Mode = "archive" ->
            [k : {"file"} \cap Kinds, n : {s \in Names : Proper(s)}, t : {<<>>}]
            \cup [k : {"dir"} \cap Kinds, n : Names, t : {<<>>}]
            \cup {m \in [k : {"sym", "hard"} \cap Kinds, n : {s \in Names : Proper(s) /\ Len(s) <= LinkNameLen}, t : LinkTargets] :
                        /\ m.t # m.n          \* a link to itself is excluded (tarfile recurses without bound on some of them),
                        /\ (m.k = "sym" => Norm(Front(m.n) \o m.t) # Norm(m.n))}      \* also when it only is one after resolution
      [] Mode = "manifest" -> [k : {"copy", "link"}, n : Names, t : Srcs]
      [] OTHER -> [k : {"copy", "link"}, n : {<<>>}, t : {"pa", "qa", "pd", "qd", "rd", "ra"}] \cup {[k |-> "extract", n |-> <<>>, t |-> "arch"]}
(* ---- the "chain" family ------------------------------------------------------------------------------------------- *)
LexInside(s) == LET x == Norm(s) IN x = <<>> \/ x[1] \notin {"..", ""}
(* what a check of each member on its own, before anything is extracted, can see *)
StaticallyClean(inp) == \A j \in 1..Len(inp) :
                            /\ LexInside(inp[j].n)
                            /\ (inp[j].k = "sym" => LexInside(Front(inp[j].n) \o inp[j].t))
                            /\ (inp[j].k = "hard" => LexInside(inp[j].t))
ChainLinks(names) == {m \in [k : {"sym"}, n : {<<x>> : x \in names}, t : LinkTargets] : Norm(m.t) # m.n}
ChainTail == [k : {"file"} \cap Kinds, n : {s \in Names : Proper(s)}, t : {<<>>}]
             \cup [k : {"dir"} \cap Kinds, n : Names, t : {<<>>}]
             \cup {m \in [k : {"hard"} \cap Kinds, n : {s \in Names : Proper(s) /\ Len(s) <= LinkNameLen}, t : {s \in Names : Proper(s)}] :
                        m.t # m.n}
ChainInputs == {<<l1, l2>> \o rest : l1 \in ChainLinks({"b"}), l2 \in ChainLinks({"a", "b"}),
                                     rest \in {r \in SeqsUpTo(ChainTail, MaxMembers - 2) :
                                                  Len(r) = MaxMembers - 2 => r[Len(r)].k \in LastKinds}}

Distinct(inp) == \A i, j \in 1..Len(inp) : i # j => inp[i].n # inp[j].n
Shaped(inp) == (Pattern = "conf-first" /\ (Len(inp) = 2 => inp[1].n = <<"conf">>)) \/ Pattern \notin {"dir-sym-file", "conf-first"} \/ (Len(inp) = 3 /\ inp[1].k = "dir" /\ inp[2].k = "sym" /\ inp[3].k = "file")
Inputs == IF Pattern = "chain" THEN {inp \in ChainInputs : StaticallyClean(inp)}
          ELSE {inp \in SeqsUpTo(Members, MaxMembers) : (Mode = "manifest" => Distinct(inp)) /\ Shaped(inp)}

(* what the two guards look at *)
PrefixRejects(inp) == Mode # "stage" /\ \E i \in 1..Len(inp) : inp[i].n[1] = ""
Rejects(inp) == CASE Guard = "resolve" -> Hostile(inp)
                  [] Guard = "prefix" -> PrefixRejects(inp)
                  [] OTHER -> FALSE

---------------------------------------------------------------------------
VARIABLES input, pc, i, fs, writes, late
vars == <<input, pc, i, fs, writes, late>>

Init == /\ input \in Inputs
        /\ pc = "guard" /\ i = 1 /\ fs = Tree0 /\ writes = {} /\ late = {}

Reject == /\ pc = "guard" /\ Rejects(input)
          /\ pc' = "rejected" /\ UNCHANGED <<input, i, fs, writes, late>>
Accept == /\ pc = "guard" /\ ~Rejects(input)
          /\ pc' = "run" /\ UNCHANGED <<input, i, fs, writes, late>>
Step == /\ pc = "run" /\ i <= Len(input)
        /\ LET r == Apply(fs, input, i)
           IN /\ fs' = r.fs /\ writes' = writes \cup r.w /\ late' = late \cup r.late
              /\ IF r.ok THEN i' = i + 1 /\ pc' = "run" ELSE i' = i /\ pc' = "failed"
        /\ UNCHANGED input
Finish == /\ pc = "run" /\ i > Len(input)
          /\ LET e == Epilogue(fs, input)
             IN /\ pc' = (IF e.ok THEN "done" ELSE "failed")
                /\ writes' = writes \cup Late(fs, late) \cup e.w /\ fs' = e.fs
          /\ UNCHANGED <<input, i, late>>
Next == Reject \/ Accept \/ Step \/ Finish
Spec == Init /\ [][Next]_vars

(* C18 *)
Confined == \A p \in writes : Inside(p)
(* the specified guard loses nothing: an input that is not hostile is carried out *)
NoOverRejection == (pc = "rejected" /\ Guard = "resolve") => Hostile(input)
(* the incremental machine and the recursive definition agree (sanity of the specification itself) *)
RunAgrees == (pc \in {"done", "failed"}) => writes = Outcome(input).w
(* vacuity guard of the driver: which control states were reached (TLC's -coverage is unusably slow on the recursive *)
(* operators of this module); "rejected" <=> Reject taken, "run" <=> Accept, "failed" or i > 1 <=> Step, "done" <=> Finish *)
TracePc == PrintT(<<"pc", pc, IF i > 1 THEN "stepped" ELSE "-">>)
TypeOK == pc \in {"guard", "run", "rejected", "failed", "done"} /\ i \in 1..(MaxMembers + 1)

(* Only locations below the sandbox root that did not exist before, for the comparison with the real tree *)
Created(inp) == LET r == Outcome(inp) IN {e \in r.fs : ~(e \in Tree0) /\ ~(\E o \in Tree0 : o.p = e.p)}
Plain(inp) == \A j \in 1..Len(inp) : /\ inp[j].k \in {"file", "dir", "copy"}
                                     /\ \A x \in 1..Len(inp[j].n) : inp[j].n[x] \notin {"..", "", "."}

EmitCase == (Emit /\ pc = "guard") =>
    LET r == Outcome(input)
    IN PrintT(ToJson([inp |-> input, hostile |-> Hostile(input), failed |-> r.failed,
                      outside |-> {p \in r.w : ~Inside(p)},
                      created |-> {[p |-> e.p, k |-> e.k] : e \in Created(input)},
                      plain |-> Plain(input), prefixRejects |-> PrefixRejects(input)]))
=============================================================================
