------------------------- MODULE ExecutorChain_trace -------------------------
(***************************************************************************)
(* Trace validation for ExecutorChain.tla, part 2 (code -> spec).          *)
(*                                                                         *)
(* harness/checks/g05.py drives the REAL lsf.Task over the lock-stepped    *)
(* batch daemon of harness/world_g05.py with seeded random choices (which  *)
(* scenario, which exit code a step gets, when Task.kill() is called, when *)
(* the record is removed behind the task's back, when the outputs of a     *)
(* remote job arrive, when the task is polled) and logs one record per     *)
(* step: the event, its argument, and what can be seen afterwards: the     *)
(* phase of the job, the caller-given step that is running, every step     *)
(* that announced its start so far, the files the task's own steps wrote,  *)
(* and for a Poll the answer of status / exitReason / returncode /         *)
(* isAlive.  Which steps exist, in which order they run and whether main   *)
(* starts is decided by REAL /bin/sh processes executing the command lines *)
(* the real task submitted.  The only hidden part of the specification's   *)
(* state is `last` (the triple the task has frozen): TLC infers it.        *)
(* Many runs are validated per TLC invocation (tid); the furthest matched  *)
(* step per run is kept in a TLC register and the POSTCONDITION lists the  *)
(* runs that were not matched to their end.                                *)
(***************************************************************************)
EXTENDS ExecutorChain, ExecutorChainTraceData

(* ExecutorChainTraceData (generated):  Traces == << run, ... >>, run == [sc |-> scenario, steps |-> << step, ... >>]        *)
(* step == [ev, arg, phase, cur, started, files, xfer, state, reason, rc, alive]   (the last four: "-" / -1 unless ev = Poll)  *)

VARIABLES tid, l
tvars == <<vars, tid, l>>

T == Traces[tid].steps

Matches(e) ==
  /\ phase' = e.phase /\ cur' = e.cur /\ started' = e.started /\ files' = e.files /\ xfer' = e.xfer
  /\ (e.ev = "Poll") => (obs'.state = e.state /\ obs'.reason = e.reason /\ obs'.rc = e.rc /\ obs'.alive = e.alive)

Step(e) ==
  CASE e.ev = "Submit" -> Submit
    [] e.ev = "StartPre" -> StartPre
    [] e.ev = "StartMain" -> StartMain
    [] e.ev = "StartPost" -> StartPost
    [] e.ev = "StepExit" -> StepExit(e.arg)
    [] e.ev = "MainEnd" -> MainEnd(e.arg)
    [] e.ev = "TransferDone" -> TransferDone
    [] e.ev = "Kill" -> Kill
    [] e.ev = "Remove" -> Remove
    [] e.ev = "Poll" -> Poll
    [] OTHER -> FALSE

TraceInit == Init /\ tid \in 1..Len(Traces) /\ l = 0 /\ sc = Traces[tid].sc

TraceNext ==
  /\ l < Len(T) /\ l' = l + 1 /\ tid' = tid
  /\ Step(T[l + 1]) /\ Matches(T[l + 1])

TraceSpec == TraceInit /\ [][TraceNext]_tvars

Furthest == TLCSet(tid, l)
AllAccepted ==
  LET bad == {t \in 1..Len(Traces) : TLCGet(t) # Len(Traces[t].steps)} IN
  \/ bad = {}
  \/ PrintT(<<"REJECTED", [t \in bad |-> TLCGet(t)]>>) /\ FALSE

(* the action properties of part 2, restated over tvars: evaluated along the matched behaviours = on the logged real states *)
TFinalIsFrozen == [][last # <<>> => last' = last]_tvars
TNothingStartsAfterGone == [][phase = "gone" => (started' = started /\ files' = files /\ phase' = "gone")]_tvars
TDeadStaysDead == [][(Polled /\ ~obs.alive /\ obs' # obs) => ~obs'.alive]_tvars
=============================================================================
