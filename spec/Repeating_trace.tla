--------------------------- MODULE Repeating_trace ---------------------------
(***************************************************************************)
(* Binding of Repeating to the implementation, direction code -> spec.     *)
(*                                                                         *)
(* `TraceFile` is an ndjson file written by harness/checks/c13.py: one     *)
(* line per run of the REAL RepeatingEngine + CreateMonitor in the         *)
(* lock-step world (harness/world_c13.py):                                 *)
(*    [cfg |-> [R, retries0, die, mode, maxd],                             *)
(*     ev  |-> << [k, s, o (, rc)] ... >>]                                 *)
(* k: "blocked" (the monitor thread yielded: asleep / waiting for its task *)
(*    / in the WINDOW / gone), the environment events "notify", "output",  *)
(*    "extkill", "timer" (the kill-delay timer fired), "pfinish" (producer *)
(*    component p finished, shapes other than "direct"; its observe-mode   *)
(*    twin "pfin" is logged before the hops are drained and "notified" when *)
(*    the real notify_all_producers_finished() is entered), and the        *)
(*    informational "launch" (task generator called), "rc" (task ended),   *)
(*    "fault" (a listing of the producer's directory raised OSError),      *)
(*    "end" (run cut at the horizon).  s: stamp in half seconds.           *)
(* o: the observation taken from the engine right after the event through  *)
(*    its public state (isAlive(), exitReason(), repeatRetries, ...), in   *)
(*    the shape of Repeating!ObsNow.                                       *)
(*                                                                         *)
(* Every run is checked twice (tmode):                                     *)
(*  "conform": the recorded run must be a behaviour of Repeating: between  *)
(*     two recorded events the spec's monitor takes its own steps and the  *)
(*     clock ticks; every environment event must be the corresponding      *)
(*     action at exactly that stamp and the spec's ObsNow must equal the   *)
(*     recorded observation after every event.  All named deviations are   *)
(*     enabled; `dev` tells which ones were needed.  A run that no         *)
(*     behaviour explains never reaches l = N (the driver reports where).  *)
(*  "observe": no model of the engine at all: the history record h is      *)
(*     rebuilt from the recorded events by the same H* operators and the   *)
(*     property predicates P1..P3 of Repeating are evaluated on it with    *)
(*     the values isAlive()/repeatRetries reported by the real engine.     *)
(* The verdicts are printed as JSON (TLC must not stop at the first run    *)
(* that fails, the file is a batch).                                       *)
(***************************************************************************)
EXTENDS Repeating

CONSTANTS TraceFile,   \* absolute path of the ndjson file
          Verbose      \* print every state (used to locate where a run got stuck)

Traces == ndJsonDeserialize(TraceFile)

VARIABLES tid,     \* which run
          l,       \* events consumed
          tmode,   \* "conform" | "observe"
          ob       \* observe mode: the last recorded observation
tvars == <<tid, l, tmode, ob>>

T == Traces[tid]
N == Len(T.ev)
E == T.ev[l + 1]

TInit == /\ tid \in 1..Len(Traces)
         /\ tmode \in {"conform", "observe"}
         /\ l = 0
         /\ InitWith(Traces[tid].cfg)
         /\ ob = ObsNow

AtYield == Blocked \/ pc \in {"window", "dead"}

Conform ==
    /\ tmode = "conform" /\ l < N /\ UNCHANGED <<tid, tmode, ob>>
    /\ \/ /\ E.k \in {"launch", "rc", "end", "fault", "ofault", "pfin", "notified"} /\ now = E.s \div 2   \* informational for this mode
          /\ l' = l + 1 /\ UNCHANGED vars
       \/ /\ E.k = "blocked" /\ AtYield /\ ObsNow = E.o
          /\ l' = l + 1 /\ UNCHANGED vars
       \/ /\ E.k \in {"blocked", "launch", "rc", "end", "fault", "ofault"}  \* the monitor thread is running
          /\ MonitorStep /\ UNCHANGED l
       \/ /\ now < E.s \div 2
          /\ Tick /\ UNCHANGED l
       \/ /\ E.k = "notify" /\ Stamp = E.s /\ ProducerFinishes(1) /\ ObsNow' = E.o /\ l' = l + 1
       \/ /\ E.k = "pfinish" /\ Stamp = E.s /\ ProducerFinishes(E.p) /\ ObsNow' = E.o /\ l' = l + 1
       \/ /\ E.k = "output" /\ Stamp = E.s /\ NewOutputFrom(E.src) /\ ObsNow' = E.o /\ l' = l + 1
       \/ /\ E.k = "extkill" /\ Stamp = E.s /\ ExternalKill /\ ObsNow' = E.o /\ l' = l + 1
       \/ /\ E.k = "timer" /\ timer2 = E.s /\ KillDelay /\ ObsNow' = E.o /\ l' = l + 1

Observe ==
    /\ tmode = "observe" /\ l < N /\ UNCHANGED <<tid, tmode>>
    /\ l' = l + 1 /\ ob' = E.o
    /\ h' = CASE E.k = "output"  -> HOutput(h, E.s, E.src)
              [] E.k \in {"notify", "notified"} -> HNotify(h, E.s \div 2, NLiveSeen(cfg.shape))
              [] E.k = "pfin"    -> HPFinish(h, E.p, E.s \div 2, NLiveSeen(cfg.shape))
              [] E.k = "timer"   -> HTimer(h)
              [] E.k = "extkill" -> HExt(h)
              [] E.k = "launch"  -> HLaunch(h, E.s \div 2, cfg.mode)
              [] E.k = "rc"      -> HTaskEnd(h, E.rc)
              [] E.k = "fault"   -> HFault(h)
              [] E.k = "ofault"  -> HOFault(h, E.o.retries)
              [] E.k \in {"blocked", "end"} -> HYield(h, E.o.retries)
              [] OTHER -> h
    /\ UNCHANGED <<cfg, now, pc, wakeAt, retries, cancel, suicide, kc, consume, pdone, timer2, lastL, lastF, begun,
                   proc, procRc, procKilled, isNew, pdwis, didExec, dev, sched, obs>>

TNext == Conform \/ Observe
TSpec == TInit /\ [][TNext]_<<vars, tvars>>

Verdicts(alive, rt, t) ==
    [p0 |-> P0_NotifiedOnlyWhenFinished(h),
     p1 |-> P1_NoExecutionBeforeOutput(h),
     p2 |-> P2_FinalOutputObserved(h, alive, cfg.mode),
     p3a |-> P3_BoundedAttempts(h, cfg),
     p3b |-> P3_StopsForAReason(h, alive, rt),
     p3c |-> P3_StopsInTime(h, alive, cfg, t),
     p4 |-> P4_FaultNeverCharged(h)]

Report ==
    LET v == IF tmode = "observe" THEN Verdicts(ob.alive, ob.retries, ob.now) ELSE Verdicts(Alive, retries, now)
        good == v.p4 /\ v.p0 /\ v.p1 /\ v.p2 /\ v.p3a /\ v.p3b /\ v.p3c
    IN (l = N \/ (tmode = "observe" /\ ~good) \/ Verbose) =>
          PrintT(ToJson([tid |-> tid, m |-> tmode, l |-> l, done |-> (l = N), dev |-> dev, v |-> v, now |-> now, pc |-> pc]))
=============================================================================
