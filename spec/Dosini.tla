------------------------------- MODULE Dosini -------------------------------
(***************************************************************************)
(* C19 -- the legacy sectioned-file configuration format ("DOSINI")        *)
(* round-trips an experiment instance.                                     *)
(*                                                                         *)
(*   Abs(Load(Dump(i))) = Abs(i)   for every instance i the legacy format  *)
(*   can express: per component the resolved options, references and       *)
(*   variables; per section the environments, status and output.           *)
(*                                                                         *)
(* What is modelled                                                        *)
(*  - an abstract instance `inst`: two components (prod in stage 0, c in   *)
(*    stage 1); a backend; a set of (option, value class) atoms of the     *)
(*    hand-written catalogue (module DosiniCatalogue, generated from       *)
(*    harness/c19_catalogue.py) set on the component, the stage blueprint  *)
(*    or the global blueprint; variables in the scopes global / stage /    *)
(*    component; environments (+ the SANDBOX settings); status and output  *)
(*    sections.                                                            *)
(*  - the abstract file system `files` a Dump produces: sections and       *)
(*    lines <<file, section, key, val>>.  Option values travel under the   *)
(*    legacy KEYWORD of the catalogue, variables under their name.         *)
(*  - Load: reads the lines back through the keyword table.                *)
(*  - the state machine  Dump ; Load ; Redump ; Reload  (the instance read *)
(*    back is itself an instance: the property applies to it again).       *)
(*                                                                         *)
(* Legitimate differences between i and Load(Dump(i)) (what the project's  *)
(* own tests/test_dosini.py:test_dump_instance normalises, and nothing     *)
(* else):                                                                  *)
(*  M1 global variables migrate into the variables of every stage that     *)
(*     has components (stage variables win over global ones);              *)
(*  M2 blueprints are folded into the components when the instance is      *)
(*     made; an instance load does not read variables.conf, so the loaded  *)
(*     instance has no blueprint -- the RESOLVED component is the same;    *)
(*  M3 an option that is absent and an option explicitly set to its        *)
(*     default resolve to the same configuration;                          *)
(*  M4 isRepeat is derived from repeat-interval;                           *)
(*  M5 environment names are case-insensitive (kept lower-case);           *)
(*  M6 in the status section `arguments`/`references` exist only next to   *)
(*     an `executable` (absent = empty); in the output section an absent   *)
(*     description/type reads back as null; stage identifiers `stageN`     *)
(*     and N denote the same stage.                                        *)
(* Names.  The legacy format turns names into section headers             *)
(* ([ENV-<NAME>], [<component>], [<output>], [STAGE<k>], stage<k> files)   *)
(* and option names (variables, environment variables).  Family "names"    *)
(* enumerates every single name and every pair of names of the explicit    *)
(* alphabet of module DosiniCatalogue (hyphens, dots, underscores, digits, *)
(* mixed case, one name a prefix of another, names containing the section  *)
(* prefix, ':' and '=' inside section headers) and an instance with 11     *)
(* stages (indices >= 10).                                                 *)
(*                                                                         *)
(* Histories.  Family "history": a description is written into a          *)
(* directory that already holds the files of an OLDER description (action  *)
(* DumpPrevious, then Dump = DumpOver with update_existing) with fewer /    *)
(* the same / more stages, other components, with or without environments, *)
(* variables, status, output.  RoundTrip speaks about the LAST description *)
(* written: nothing of the older one may be read back.                     *)
(*                                                                         *)
(* Options without a legacy keyword (UnsupportedPaths) and values without  *)
(* a legacy text (atoms with expr = FALSE) are outside the quantifier of   *)
(* the property ("every workflow expressible in the legacy format").       *)
(*                                                                         *)
(* Module DosiniCatalogue is generated into spec/gen/ by every run of the  *)
(* check (TLC is started with -DTLA-Library=spec/gen); to parse by hand:   *)
(*   java -DTLA-Library=gen -cp <tla2tools.jar> tla2sany.SANY Dosini.tla   *)
(*                                                                         *)
(* The spec is the oracle of harness/checks/c19.py: every instance TLC     *)
(* enumerates is emitted as JSON together with the expected resolved view, *)
(* rendered to a real FlowIR instance, dumped and loaded with the real     *)
(* Dosini frontend, and compared.                                          *)
(***************************************************************************)
EXTENDS Integers, Sequences, FiniteSets, TLC, Json, DosiniCatalogue

CONSTANTS Family,      \* "options" | "variables" | "environments" | "status" | "output" | "names" | "history"
          Tier,        \* "quick" | "thorough": size of the enumerated family
          Emit,        \* TRUE: print every case (instance + expected view) as JSON in state "loaded"
          Fault        \* "none", or a named deviation of the frontend used as reachability witness:
                       \*   "parse-drops-max-restarts"  the loader knows the keyword but stores nothing for it
                       \*   "two-options-one-keyword"   the writer puts gracePeriod under the keyword of namespace
                       \*   "no-migration"              the writer forgets the global variables in [META]
                       \*   "component-variable-equal-to-global-not-written"  the writer leaves out a component variable whose
                       \*                               text equals the global one (wrong when the stage overrides it)
                       \*   "stale-stage-files-kept"    a Dump over an older one removes only the stage files it is about
                       \*                               to write: files of stages that no longer exist stay and are loaded
                       \*   "env-name-cut-at-hyphen"    the reader recovers an environment name from [ENV-<NAME>] by
                       \*                               splitting at '-' instead of dropping the 4-character prefix

VARIABLES phase,   \* "instance" -> "dumped" -> "loaded" -> "dumped2" -> "loaded2"
          inst,    \* the abstract instance that is written
          files,   \* abstract file system after the last Dump
          loaded,  \* abstract instance after the last Load
          first    \* what the first Load produced (kept for the second round)
vars == <<phase, inst, files, loaded, first>>

---------------------------------------------------------------------------
(* Catalogue helpers *)
Paths == {a.path : a \in Atoms}
Keys == {a.key : a \in Atoms}
LegacyKeys == Keys \cup {BackendKey}
KeyOf(p) == (CHOOSE a \in Atoms : a.path = p).key
PathOfKey(k) == IF k = BackendKey THEN BackendPath ELSE (CHOOSE a \in Atoms : a.key = k).path
HasDefault(p) == (CHOOSE a \in Atoms : a.path = p).dflt
ExprAtoms == {a \in Atoms : a.expr}

(* The design conditions the translation tables must satisfy. TLC evaluates them on the catalogue. *)
ASSUME KeysInjective == \A a, b \in Atoms : (a.key = b.key) <=> (a.path = b.path)
ASSUME BackendKeyFree == BackendKey \notin Keys /\ BackendPath \notin Paths
ASSUME NoUnsupportedInCatalogue == UnsupportedPaths \cap Paths = {}
ASSUME VariablesAreNotKeywords == (VarNames \cup VarNamePool) \cap LegacyKeys = {} /\ "refVar" \notin LegacyKeys
ASSUME EnvNamesDistinct == \A m, n \in EnvNames : (EnvLower(m) = EnvLower(n)) => m = n
(* the section header identifies the environment: two names share a header only when they are the same environment *)
ASSUME EnvSectionsIdentify == \A m, n \in EnvNames \cup EnvNamePool :
                                 /\ (EnvSection(m) = EnvSection(n)) <=> (EnvLower(m) = EnvLower(n))
                                 /\ EnvNameOfSection(EnvSection(m)) = EnvLower(m)
ASSUME NothingReserved == /\ {EnvLower(n) : n \in EnvNames \cup EnvNamePool} \cap ReservedSections = {}
                          /\ ({"prod", "c"} \cup CompNamePool \cup OutNamePool) \cap ReservedSections = {}

---------------------------------------------------------------------------
(* Shape of the modelled instance: components prod (stage 0) and c (stage 1), further components in stage 1    *)
(* (inst.comps, family "names"), and one filler component per stage 2 .. nstages-1 (an instance load needs a    *)
(* stage file for every stage index).                                                                           *)
Comp(n, k) == [name |-> n, stage |-> k]
Filler(k) == "f" \o ToString(k)
CompsOf(i) == {Comp("prod", 0), Comp("c", 1)} \cup {Comp(n, 1) : n \in i.comps} \cup {Comp(Filler(k), k) : k \in 2..(i.nstages - 1)}
StagesOf(i) == 0..(i.nstages - 1)
AllStages == 0..(ManyStages - 1)
StageFile(k) == "stages.d/stage" \o ToString(k) \o ".instance.conf"
StageScope(k) == "stage" \o ToString(k)
CompScope(n) == "comp:" \o n
VarScopes == {"global", "stage0", "stage1", "comp:prod", "comp:c"}
StatusSection(k) == "STAGE" \o ToString(k)
VariablesSection(k) == StatusSection(k)
EnvFile == "experiment.instance.conf"
VarFile == "variables.conf"
StatusFile == "status.conf"
OutputFile == "output.conf"

(* A value is opaque: it is identified by where it comes from.  Equality of values is identity of origin. *)
V(src, a, n) == [src |-> src, a |-> a, n |-> n]
AtomVal(a) == V("atom", a.path, a.idx)
DefaultVal(p) == V("default", p, 0)
NoVal == V("none", "", 0)

---------------------------------------------------------------------------
(* Families of instances *)
(* A description (Blank = nothing set).  An instance is a description plus, in family "history", the description that *)
(* was written into the same directory BEFORE it (hasPrev, prev).                                                     *)
Blank == [fam |-> Family, kind |-> "", backend |-> "local", layer |-> "component", inject |-> FALSE, opts |-> {},
          vars |-> {}, envs |-> {}, apps |-> 0, venvs |-> 0,
          status |-> <<>>, output |-> {}, comps |-> {}, nstages |-> 2]
Neutral == Blank @@ [hasPrev |-> FALSE, prev |-> Blank]

NativeOf(S) == IF \E a \in S : a.section = "resourceManager.lsf" THEN "lsf"
               ELSE IF \E a \in S : a.section = "resourceManager.kubernetes" THEN "kubernetes" ELSE "local"

Singles == {{a} : a \in ExprAtoms}
PairsOver(A, sameSection) ==
    {{p[1], p[2]} : p \in {q \in A \X A : /\ q[1].idx < q[2].idx /\ q[1].path # q[2].path
                                          /\ (sameSection => q[1].section = q[2].section)}}
PrimaryAtoms == {a \in ExprAtoms : a.primary}

Case(b, l, i, S) == [backend |-> b, layer |-> l, inject |-> i, opts |-> S]
OptionCases ==
    IF Tier = "quick" THEN
            {Case(b, "component", FALSE, S) : b \in AllBackends, S \in Singles}
       \cup {Case(NativeOf(S), l, FALSE, S) : l \in {"global", "stage"}, S \in Singles}
       \cup {Case(NativeOf(S), "component", TRUE, S) : S \in Singles}
       \cup {Case(NativeOf(S), "component", FALSE, S) : S \in PairsOver(PrimaryAtoms, TRUE)}     \* thorough: x every backend
       \cup {Case(b, "component", i, {}) : b \in AllBackends, i \in BOOLEAN}
    ELSE
            {Case(b, l, i, S) : b \in AllBackends, l \in {"component", "global", "stage"}, i \in BOOLEAN, S \in Singles}
       \cup {Case(b, "component", FALSE, S) : b \in AllBackends, S \in PairsOver(PrimaryAtoms, FALSE)}
       \cup {Case(NativeOf(S), "component", i, S) : i \in BOOLEAN, S \in PairsOver(ExprAtoms, TRUE)}
       \cup {Case(NativeOf(S), l, FALSE, S) : l \in {"global", "stage"}, S \in PairsOver(PrimaryAtoms, TRUE)}
       \cup {Case(b, "component", i, {}) : b \in AllBackends, i \in BOOLEAN}

(* variables: every subset of scope x name (names differ only by case); a value is identified by its scope.   *)
(* `cls` is the class of the text of the value (rendered by the driver): punct = spaces : = quotes, ref = a     *)
(* reference to the global variable V, percent = a lone '%' (legal in FlowIR and in a legacy file).            *)
VarClasses == {"punct", "plain", "empty", "ref", "percent"}
(* layering of ONE name: in every scope the variable is absent or has one of two texts A / B, so that a value in one *)
(* scope can be EQUAL to the value in another one (global = component # stage, ...): all 3^5 assignments.          *)
(* `val` identifies the text of a value; in the other families it is the scope (all texts different).             *)
LayeringCases == {{[scope |-> s, name |-> "v", cls |-> "punct", val |-> f[s]] : s \in {t \in VarScopes : f[t] # "absent"}} :
                     f \in [VarScopes -> {"absent", "A", "B"}]}
VariableCases ==
         {{[scope |-> p[1], name |-> p[2], cls |-> "punct", val |-> p[1]] : p \in S} : S \in SUBSET (VarScopes \X VarNames)}
    \cup {{[scope |-> s, name |-> "v", cls |-> k, val |-> s]} \cup (IF k = "ref" THEN {[scope |-> "global", name |-> "V", cls |-> "punct", val |-> "global"]} ELSE {}) :
              s \in VarScopes, k \in VarClasses \ {"punct"}}
    \cup LayeringCases

(* environments: each name absent / empty / one variable / two variables whose names differ by case *)
EnvShapes == {"absent", "empty", "one", "two"}
EnvVarsOf(shape) == CASE shape = "one" -> {"PATH"} [] shape = "two" -> EnvVarNames [] OTHER -> {}
(* cls = class of the text of PATH's value: dollar ($PATH reference), plain, empty, percent *)
EnvironmentCases ==
         {[envs |-> {[name |-> n, vars |-> EnvVarsOf(f[n]), cls |-> "dollar"] : n \in {m \in EnvNames : f[m] # "absent"}},
           apps |-> a, venvs |-> v] : f \in [EnvNames -> EnvShapes], a \in 0..2, v \in 0..2}
    \cup {[envs |-> {[name |-> "env1", vars |-> {"PATH"}, cls |-> k]}, apps |-> 0, venvs |-> 0] : k \in {"plain", "empty", "percent"}}

(* status: weights in ten-thousandths; arguments/references only exist next to an executable *)
StatusForms == {"weight", "exe", "exeArgs", "exeRefs1", "exeArgsRefs2"}
WeightPairs == {<<2500, 7500>>, <<5000, 5000>>, <<10000, 0>>, <<3333, 6667>>}     \* ten-thousandths
StatusCases == {<<[w |-> wp[1], form |-> f0], [w |-> wp[2], form |-> f1]>> : wp \in WeightPairs, f0 \in StatusForms, f1 \in StatusForms}

(* output: data-in relative to a stage (then `stages` is mandatory) or absolute (then it must be absent) *)
OutNames == {"Out", "out"}
OutEntries == {[name |-> n, datain |-> d, desc |-> e, type |-> t, stages |-> s] :
                 n \in OutNames, d \in {"rel", "abs"}, e \in {"absent", "plain", "punct", "percent"}, t \in {"absent", "csv"},
                 s \in {"absent", "idx0", "idx01", "name0"}}
WellFormedOut(o) == (o.datain = "rel") <=> (o.stages # "absent")
OutputCases == {{}} \cup {{o} : o \in {x \in OutEntries : WellFormedOut(x)}}
               \cup {{o1, o2} : o1 \in {x \in OutEntries : WellFormedOut(x) /\ x.name = "Out" /\ x.desc \in {"absent", "plain"}},
                                o2 \in {x \in OutEntries : WellFormedOut(x) /\ x.name = "out" /\ x.type = "csv" /\ x.desc = "plain"}}

(* names: every single name and every pair of names of a kind, taken from the explicit alphabet of the catalogue *)
OneOrTwo(P) == {{a, b} : a \in P, b \in P}
VarPlaces == {"global", "stage1", "comp:c"}
ManyStagesStatus == [k \in 1..ManyStages |-> [w |-> IF k = ManyStages THEN 10000 - 900 * (ManyStages - 1) ELSE 900,
                                               form |-> IF k = ManyStages THEN "exeArgsRefs2" ELSE "weight"]]
LastScope == StageScope(ManyStages - 1)
NameCases ==
         {[Neutral EXCEPT !.kind = "env", !.envs = {[name |-> n, vars |-> {"PATH"}, cls |-> "dollar"] : n \in S}] :
              S \in {T \in OneOrTwo(EnvNamePool) : \A m, n \in T : (EnvLower(m) = EnvLower(n)) => m = n}}
    \cup {[Neutral EXCEPT !.kind = "envvar", !.envs = {[name |-> "env1", vars |-> S, cls |-> "dollar"]}] : S \in OneOrTwo(EnvVarNamePool)}
    \cup {[Neutral EXCEPT !.kind = "comp", !.comps = S] : S \in OneOrTwo(CompNamePool)}
    \cup UNION {{[Neutral EXCEPT !.kind = "var", !.vars = {[scope |-> f[n], name |-> n, cls |-> "punct", val |-> f[n]] : n \in S}] :
                    f \in {g \in [S -> VarPlaces] : Tier = "thorough" \/ Cardinality({g[n] : n \in S}) = 1 \/ "stage1" \in {g[n] : n \in S}}} :
                   S \in OneOrTwo(VarNamePool)}
    \cup {[Neutral EXCEPT !.kind = "out", !.output = {[name |-> n, datain |-> "abs", desc |-> "plain", type |-> "csv", stages |-> "absent"] : n \in S}] :
              S \in OneOrTwo(OutNamePool)}
    \cup {[Neutral EXCEPT !.kind = "stages", !.nstages = ManyStages,
                          !.status = IF "status" \in W THEN ManyStagesStatus ELSE <<>>,
                          !.vars = IF "vars" \in W THEN {[scope |-> "global", name |-> "v", cls |-> "punct", val |-> "global"], [scope |-> LastScope, name |-> "v", cls |-> "punct", val |-> LastScope],
                                                         [scope |-> "global", name |-> "V", cls |-> "punct", val |-> "global"], [scope |-> "stage1", name |-> "V", cls |-> "punct", val |-> "stage1"]} ELSE {},
                          !.output = IF "output" \in W THEN {[name |-> "Out", datain |-> "rel", desc |-> "plain", type |-> "csv", stages |-> "idxLast"]} ELSE {}] :
              W \in SUBSET {"status", "vars", "output"}}

(* history: two descriptions written one after the other into the SAME directory (update_existing = TRUE), then a  *)
(* Load.  The descriptions differ in the number of stages (fewer / same / more, also >= 10), in the components of   *)
(* stage 1 and in whether they have environments, variables, status and output at all.  The property speaks about   *)
(* the LAST description written: nothing of the previous one may be read back.                                      *)
StatusFor(k) == [j \in 1..k |-> [w |-> IF j = k THEN 10000 - (10000 \div k) * (k - 1) ELSE 10000 \div k,
                                  form |-> IF j = k THEN "exeArgs" ELSE "weight"]]
Shape(k, cs, full) ==
    [Blank EXCEPT !.kind = "history", !.nstages = k, !.comps = cs,
                  !.envs = IF full THEN {[name |-> "env1", vars |-> {"PATH"}, cls |-> "dollar"]} ELSE {},
                  !.vars = IF full THEN {[scope |-> "global", name |-> "v", cls |-> "punct", val |-> "global"],
                                         [scope |-> "stage1", name |-> "v", cls |-> "punct", val |-> "stage1"],
                                         [scope |-> "comp:c", name |-> "V", cls |-> "punct", val |-> "comp:c"]} ELSE {},
                  !.status = IF full THEN StatusFor(k) ELSE <<>>,
                  !.output = IF full THEN {[name |-> "Out", datain |-> "abs", desc |-> "plain", type |-> "csv", stages |-> "absent"]} ELSE {}]
Shapes == {Shape(k, cs, full) : k \in {2, 3, 4, ManyStages}, cs \in {{}, {"gcc"}}, full \in BOOLEAN}
HistoryCases == {(d @@ [hasPrev |-> TRUE, prev |-> p]) : p \in Shapes, d \in Shapes}

Instances ==
    CASE Family = "options" -> {[Neutral EXCEPT !.backend = c.backend, !.layer = c.layer, !.inject = c.inject, !.opts = c.opts] : c \in OptionCases}
      [] Family = "variables" -> {[Neutral EXCEPT !.vars = S] : S \in VariableCases}
      [] Family = "environments" -> {[Neutral EXCEPT !.envs = c.envs, !.apps = c.apps, !.venvs = c.venvs] : c \in EnvironmentCases}
      [] Family = "status" -> {[Neutral EXCEPT !.status = s] : s \in StatusCases}
      [] Family = "output" -> {[Neutral EXCEPT !.output = o] : o \in OutputCases}
      [] Family = "names" -> NameCases
      [] Family = "history" -> HistoryCases

---------------------------------------------------------------------------
(* The instance as the writer sees it *)

(* M2: the atoms that apply to a component after the blueprints were folded into it *)
OptsAt(i, c) == CASE i.layer = "component" -> (IF c.name = "c" THEN i.opts ELSE {})
                  [] i.layer = "stage" -> (IF c.stage = 1 THEN i.opts ELSE {})
                  [] i.layer = "global" -> i.opts

(* a varref atom needs a global variable; its name is abstracted to "refVar", its identity is the atom's idx *)
IsVarRef(a) == a.cls \in {"varref", "varrefMixed"}
RefVars(i) == {a \in i.opts : IsVarRef(a)}

(* variable names visible in a scope and the value each one has there *)
ScopeVars(i, scope) == {x.name : x \in {y \in i.vars : y.scope = scope}}
VarVal(i, scope, name) == V("var", (CHOOSE x \in i.vars : x.scope = scope /\ x.name = name).val, 0)

(* explicit option lines of component c: the atoms, the backend (set on c only), and -- when the instance was made *)
(* with all fields injected -- every option that has a non-null default                                           *)
ExplicitOpts(i, c) ==
    LET atomsHere == OptsAt(i, c)
        set == {[path |-> a.path, val |-> AtomVal(a)] : a \in atomsHere}
        backend == IF c.name = "c" THEN {[path |-> BackendPath, val |-> V("backend", i.backend, 0)]}
                   ELSE IF i.inject THEN {[path |-> BackendPath, val |-> DefaultVal(BackendPath)]} ELSE {}
        injected == IF i.inject THEN {[path |-> p, val |-> DefaultVal(p)] : p \in {q \in Paths : HasDefault(q) /\ q \notin {a.path : a \in atomsHere}}}
                    ELSE {}
    IN set \cup backend \cup injected

---------------------------------------------------------------------------
(* Dump: instance -> files *)
Line(f, s, k, v) == [file |-> f, section |-> s, key |-> k, val |-> v]
KeyForPath(p) == IF p = BackendPath THEN BackendKey
                 ELSE IF Fault = "two-options-one-keyword" /\ p = "resourceManager.kubernetes.gracePeriod" THEN "k8s-namespace"
                 ELSE KeyOf(p)

(* [META] of the file of stage k: the stage's variables over the global ones (M1) *)
MetaLines(i, k) ==
    LET stageNames == ScopeVars(i, StageScope(k))
        globalNames == IF Fault = "no-migration" THEN {} ELSE ScopeVars(i, "global")
    IN    {Line(StageFile(k), "META", n, VarVal(i, StageScope(k), n)) : n \in stageNames}
     \cup {Line(StageFile(k), "META", n, VarVal(i, "global", n)) : n \in globalNames \ stageNames}      \* M1: stage wins
     \cup (IF Fault = "no-migration" THEN {} ELSE {Line(StageFile(k), "META", "refVar", V("refvar", "", a.idx)) : a \in RefVars(i)})

(* the section of a component is its name, in the file of its stage *)
CompLines(i, c) ==
       {Line(StageFile(c.stage), c.name, KeyForPath(o.path), o.val) : o \in ExplicitOpts(i, c)}
  \cup {Line(StageFile(c.stage), c.name, n, VarVal(i, CompScope(c.name), n)) :
           n \in {m \in ScopeVars(i, CompScope(c.name)) :
                    ~(/\ Fault = "component-variable-equal-to-global-not-written"
                      /\ m \in ScopeVars(i, "global") /\ VarVal(i, "global", m) = VarVal(i, CompScope(c.name), m))}}

(* variables.conf: written when missing, never read by an instance load (M2) *)
VariablesConfLines(i) ==
       {Line(VarFile, "GLOBAL", n, VarVal(i, "global", n)) : n \in ScopeVars(i, "global")}
  \cup UNION {{Line(VarFile, VariablesSection(k), n, VarVal(i, StageScope(k), n)) : n \in ScopeVars(i, StageScope(k))} : k \in AllStages}
  \cup (IF i.layer = "global" THEN {Line(VarFile, "GLOBAL", KeyForPath(a.path), AtomVal(a)) : a \in i.opts} ELSE {})
  \cup (IF i.layer = "stage" THEN {Line(VarFile, VariablesSection(1), KeyForPath(a.path), AtomVal(a)) : a \in i.opts} ELSE {})

(* the section of an environment is ENV-<NAME IN UPPER CASE>; the value of a variable is identified by environment and name *)
EnvVarVal(envLower, n) == V("envvar", envLower \o "/" \o n, 0)
EnvLinesOf(i) == UNION {{Line(EnvFile, EnvSection(e.name), n, EnvVarVal(EnvLower(e.name), n)) : n \in e.vars} : e \in i.envs}
SandboxLines(i) ==
       (IF i.apps > 0 THEN {Line(EnvFile, "SANDBOX", "applications", V("list", "apps", i.apps))} ELSE {})
  \cup (IF i.venvs > 0 THEN {Line(EnvFile, "SANDBOX", "virtualenvs", V("list", "venvs", i.venvs))} ELSE {})

HasExe(form) == form # "weight"
HasArgs(form) == form \in {"exeArgs", "exeArgsRefs2"}
NRefs(form) == CASE form = "exeRefs1" -> 1 [] form = "exeArgsRefs2" -> 2 [] OTHER -> 0
StatusStages(i) == {j \in AllStages : j < Len(i.status)}
StatusLines(i) ==
    UNION {   {Line(StatusFile, StatusSection(k), "stage-weight", V("weight", "", i.status[k + 1].w))}
         \cup (IF HasExe(i.status[k + 1].form) THEN {Line(StatusFile, StatusSection(k), "executable", V("exe", "", k))} ELSE {})
         \cup (IF HasArgs(i.status[k + 1].form) THEN {Line(StatusFile, StatusSection(k), "arguments", V("args", "", k))} ELSE {})
         \cup (IF NRefs(i.status[k + 1].form) > 0 THEN {Line(StatusFile, StatusSection(k), "references", V("list", "refs", NRefs(i.status[k + 1].form)))} ELSE {})
         : k \in StatusStages(i)}

(* M6: a stage identifier is written as stageN whatever its form in the instance (idx0 and name0 are the same set) *)
StageSet(s) == CASE s = "idx0" -> {0} [] s = "name0" -> {0} [] s = "idx01" -> {0, 1} [] s = "idxLast" -> {ManyStages - 1} [] OTHER -> {}
StagesVal(s) == V("stages", "", Cardinality(StageSet(s)) * 1000 + (IF StageSet(s) = {} THEN 0 ELSE CHOOSE m \in StageSet(s) : \A x \in StageSet(s) : x <= m))
OutputLines(i) ==
    UNION {   {Line(OutputFile, o.name, "data-in", V("datain", o.datain, 0))}
         \cup (IF o.desc # "absent" THEN {Line(OutputFile, o.name, "description", V("desc", o.desc, 0))} ELSE {})
         \cup (IF o.type # "absent" THEN {Line(OutputFile, o.name, "type", V("type", o.type, 0))} ELSE {})
         \cup (IF o.stages # "absent" THEN {Line(OutputFile, o.name, "stages", StagesVal(o.stages))} ELSE {})
         : o \in i.output}

DumpOf(i) ==
    [sections |->      {[file |-> StageFile(c.stage), section |-> c.name] : c \in CompsOf(i)}
                  \cup {[file |-> EnvFile, section |-> EnvSection(e.name)] : e \in i.envs}
                  \cup {[file |-> StatusFile, section |-> StatusSection(k)] : k \in StatusStages(i)}
                  \cup {[file |-> OutputFile, section |-> o.name] : o \in i.output},
     lines |->      UNION {MetaLines(i, k) : k \in StagesOf(i)} \cup UNION {CompLines(i, c) : c \in CompsOf(i)}
               \cup VariablesConfLines(i) \cup EnvLinesOf(i) \cup SandboxLines(i) \cup StatusLines(i) \cup OutputLines(i)]

---------------------------------------------------------------------------
(* Load: files -> instance.  An instance load reads the stage files, experiment.instance.conf, status.conf and *)
(* output.conf; it does NOT read variables.conf.  Components are the sections of the stage files, the stage    *)
(* index is the number in the file name.                                                                       *)
LinesOf(fs, f, s) == {l \in fs.lines : l.file = f /\ l.section = s}

LoadedComps(fs) == UNION {{Comp(s.section, k) : s \in {t \in fs.sections : t.file = StageFile(k)}} : k \in AllStages}
LoadedOpts(fs, c) ==
    {[path |-> PathOfKey(l.key), val |-> l.val] :
        l \in {m \in LinesOf(fs, StageFile(c.stage), c.name) :
                  /\ m.key \in LegacyKeys
                  /\ ~(Fault = "parse-drops-max-restarts" /\ m.key = "max-restarts")}}
LoadedCompVars(fs, c) == {[name |-> l.key, val |-> l.val] : l \in {m \in LinesOf(fs, StageFile(c.stage), c.name) : m.key \notin LegacyKeys}}
LoadedStageVars(fs, k) == {[name |-> l.key, val |-> l.val] : l \in LinesOf(fs, StageFile(k), "META")}

(* the name of an environment is what follows the prefix of its section header, in lower case (M5) *)
EnvReadName(s) == IF Fault = "env-name-cut-at-hyphen" THEN EnvNameCutAtHyphen(s) ELSE EnvNameOfSection(s)
LoadedEnvs(fs) == {[name |-> EnvReadName(s.section), vars |-> {[name |-> l.key, val |-> l.val] : l \in LinesOf(fs, EnvFile, s.section)}] :
                     s \in {t \in fs.sections : t.file = EnvFile}}
LoadedSandbox(fs, key) == LET ls == {l \in LinesOf(fs, EnvFile, "SANDBOX") : l.key = key}
                          IN IF ls = {} THEN 0 ELSE (CHOOSE l \in ls : TRUE).val.n

ValOr(ls, key, dflt) == LET m == {l \in ls : l.key = key} IN IF m = {} THEN dflt ELSE (CHOOSE l \in m : TRUE).val
LoadedStatus(fs) ==
    {[stage |-> k,
      weight |-> ValOr(LinesOf(fs, StatusFile, StatusSection(k)), "stage-weight", NoVal),
      exe |-> ValOr(LinesOf(fs, StatusFile, StatusSection(k)), "executable", NoVal),
      \* M6: arguments and references are only read next to an executable
      args |-> IF ValOr(LinesOf(fs, StatusFile, StatusSection(k)), "executable", NoVal) = NoVal THEN NoVal
               ELSE ValOr(LinesOf(fs, StatusFile, StatusSection(k)), "arguments", NoVal),
      refs |-> IF ValOr(LinesOf(fs, StatusFile, StatusSection(k)), "executable", NoVal) = NoVal THEN NoVal
               ELSE ValOr(LinesOf(fs, StatusFile, StatusSection(k)), "references", NoVal)] :
        k \in {j \in AllStages : [file |-> StatusFile, section |-> StatusSection(j)] \in fs.sections}}
LoadedOutput(fs) ==
    {[name |-> s.section,
      datain |-> ValOr(LinesOf(fs, OutputFile, s.section), "data-in", NoVal),
      desc |-> ValOr(LinesOf(fs, OutputFile, s.section), "description", NoVal),
      type |-> ValOr(LinesOf(fs, OutputFile, s.section), "type", NoVal),
      stages |-> ValOr(LinesOf(fs, OutputFile, s.section), "stages", NoVal)] : s \in {t \in fs.sections : t.file = OutputFile}}

LoadOf(fs) ==
    [comps |-> LoadedComps(fs),
     opts |-> [c \in LoadedComps(fs) |-> LoadedOpts(fs, c)],
     compVars |-> [c \in LoadedComps(fs) |-> LoadedCompVars(fs, c)],
     stageVars |-> [k \in AllStages |-> LoadedStageVars(fs, k)],
     envs |-> LoadedEnvs(fs), apps |-> LoadedSandbox(fs, "applications"), venvs |-> LoadedSandbox(fs, "virtualenvs"),
     status |-> LoadedStatus(fs), output |-> LoadedOutput(fs)]

---------------------------------------------------------------------------
(* The resolved view: what the property compares *)

(* M3: explicit values over defaults *)
Resolve(explicit) ==
    explicit \cup {[path |-> p, val |-> DefaultVal(p)] : p \in {q \in Paths \cup {BackendPath} : (q = BackendPath \/ HasDefault(q)) /\ q \notin {o.path : o \in explicit}}}
(* M4 *)
IsRepeat(explicit) == \E o \in explicit : o.path = "workflowAttributes.repeatInterval" /\ o.val.src = "atom"

(* variables a component resolves its strings with: component over stage over global *)
Overlay(top, below) == top \cup {x \in below : x.name \notin {y.name : y \in top}}

ViewOfLoaded(L) ==
    [comps |-> {[name |-> c.name, stage |-> c.stage, opts |-> Resolve(L.opts[c]), isRepeat |-> IsRepeat(L.opts[c]),
                 vars |-> Overlay(L.compVars[c], L.stageVars[c.stage])] : c \in L.comps},
     envs |-> L.envs, apps |-> L.apps, venvs |-> L.venvs, status |-> L.status, output |-> L.output]

(* The expected view, computed from the instance WITHOUT going through files, sections or keywords *)
ExpectedVars(i, c) ==
    LET comp == {[name |-> n, val |-> VarVal(i, CompScope(c.name), n)] : n \in ScopeVars(i, CompScope(c.name))}
        stage == {[name |-> n, val |-> VarVal(i, StageScope(c.stage), n)] : n \in ScopeVars(i, StageScope(c.stage))}
        global ==      {[name |-> n, val |-> VarVal(i, "global", n)] : n \in ScopeVars(i, "global")}
                  \cup {[name |-> "refVar", val |-> V("refvar", "", a.idx)] : a \in RefVars(i)}
    IN Overlay(comp, Overlay(stage, global))

ExpectedStatus(i) ==
    {[stage |-> k, weight |-> V("weight", "", i.status[k + 1].w),
      exe |-> IF HasExe(i.status[k + 1].form) THEN V("exe", "", k) ELSE NoVal,
      args |-> IF HasArgs(i.status[k + 1].form) THEN V("args", "", k) ELSE NoVal,
      refs |-> IF NRefs(i.status[k + 1].form) > 0 THEN V("list", "refs", NRefs(i.status[k + 1].form)) ELSE NoVal] :
       k \in StatusStages(i)}
ExpectedOutput(i) ==
    {[name |-> o.name, datain |-> V("datain", o.datain, 0),
      desc |-> IF o.desc = "absent" THEN NoVal ELSE V("desc", o.desc, 0),
      type |-> IF o.type = "absent" THEN NoVal ELSE V("type", o.type, 0),
      stages |-> IF o.stages = "absent" THEN NoVal ELSE StagesVal(o.stages)] : o \in i.output}

ExpectedView(i) ==
    [comps |-> {[name |-> c.name, stage |-> c.stage, opts |-> Resolve(ExplicitOpts(i, c)), isRepeat |-> IsRepeat(ExplicitOpts(i, c)),
                 vars |-> ExpectedVars(i, c)] : c \in CompsOf(i)},
     envs |-> {[name |-> EnvLower(e.name), vars |-> {[name |-> n, val |-> EnvVarVal(EnvLower(e.name), n)] : n \in e.vars}] : e \in i.envs},
     apps |-> i.apps, venvs |-> i.venvs, status |-> ExpectedStatus(i), output |-> ExpectedOutput(i)]

(* The instance a loaded description stands for (second round): options and variables exactly as loaded *)
RedumpOf(L) ==
    [sections |->      {[file |-> StageFile(c.stage), section |-> c.name] : c \in L.comps}
                  \cup {[file |-> EnvFile, section |-> EnvSection(e.name)] : e \in L.envs}
                  \cup {[file |-> StatusFile, section |-> StatusSection(s.stage)] : s \in L.status}
                  \cup {[file |-> OutputFile, section |-> o.name] : o \in L.output},
     lines |->
          UNION {{Line(StageFile(c.stage), c.name, KeyForPath(o.path), o.val) : o \in L.opts[c]} : c \in L.comps}
     \cup UNION {{Line(StageFile(c.stage), c.name, x.name, x.val) : x \in L.compVars[c]} : c \in L.comps}
     \cup UNION {{Line(StageFile(k), "META", x.name, x.val) : x \in L.stageVars[k]} : k \in AllStages}
     \cup UNION {{Line(EnvFile, EnvSection(e.name), x.name, x.val) : x \in e.vars} : e \in L.envs}
     \cup (IF L.apps > 0 THEN {Line(EnvFile, "SANDBOX", "applications", V("list", "apps", L.apps))} ELSE {})
     \cup (IF L.venvs > 0 THEN {Line(EnvFile, "SANDBOX", "virtualenvs", V("list", "venvs", L.venvs))} ELSE {})
     \cup UNION {{Line(StatusFile, StatusSection(s.stage), kv[1], kv[2]) :
                     kv \in {x \in {<<"stage-weight", s.weight>>, <<"executable", s.exe>>, <<"arguments", s.args>>, <<"references", s.refs>>} : x[2] # NoVal}} : s \in L.status}
     \cup UNION {{Line(OutputFile, o.name, kv[1], kv[2]) :
                     kv \in {x \in {<<"data-in", o.datain>>, <<"description", o.desc>>, <<"type", o.type>>, <<"stages", o.stages>>} : x[2] # NoVal}} : o \in L.output}]

---------------------------------------------------------------------------
(* State machine *)
EmptyFiles == [sections |-> {}, lines |-> {}]
EmptyLoaded == LoadOf(EmptyFiles)

Init == /\ inst \in Instances
        /\ phase = "instance"
        /\ files = EmptyFiles
        /\ loaded = EmptyLoaded
        /\ first = EmptyLoaded

(* A Dump into a directory that already holds the files of an earlier Dump (update_existing = TRUE):                 *)
(*  - every stage file of the directory is removed first (all of them, not only those of the stages being written), *)
(*  - the environment file is rewritten (status.conf / output.conf are rewritten by their own writers),              *)
(*  - an existing variables.conf is left alone (it is never read by an instance load).                               *)
IsStageFile(f) == \E k \in AllStages : f = StageFile(k)
Removed(old, i, f) ==
    \/ f \in {EnvFile, StatusFile, OutputFile}
    \/ IF Fault = "stale-stage-files-kept" THEN \E k \in StagesOf(i) : f = StageFile(k) ELSE IsStageFile(f)
DumpOver(old, i) ==
    LET new == DumpOf(i)
        hadVarFile == old # [sections |-> {}, lines |-> {}]
    IN [sections |-> {x \in old.sections : ~Removed(old, i, x.file)} \cup new.sections,
        lines |-> {l \in old.lines : ~Removed(old, i, l.file)} \cup {l \in new.lines : ~(hadVarFile /\ l.file = VarFile)}]

DumpPrevious == /\ phase = "instance" /\ inst.hasPrev
                /\ files' = DumpOf(inst.prev)
                /\ phase' = "previous"
                /\ UNCHANGED <<inst, loaded, first>>

Dump == /\ \/ phase = "instance" /\ ~inst.hasPrev
           \/ phase = "previous"
        /\ files' = DumpOver(files, inst)
        /\ phase' = "dumped"
        /\ UNCHANGED <<inst, loaded, first>>

Load == /\ phase = "dumped"
        /\ loaded' = LoadOf(files)
        /\ first' = LoadOf(files)
        /\ phase' = "loaded"
        /\ UNCHANGED <<inst, files>>

Redump == /\ phase = "loaded"
          /\ files' = RedumpOf(loaded)
          /\ phase' = "dumped2"
          /\ UNCHANGED <<inst, loaded, first>>

Reload == /\ phase = "dumped2"
          /\ loaded' = LoadOf(files)
          /\ phase' = "loaded2"
          /\ UNCHANGED <<inst, files, first>>

Next == DumpPrevious \/ Dump \/ Load \/ Redump \/ Reload
Spec == Init /\ [][Next]_vars

---------------------------------------------------------------------------
(* Properties *)
TypeOK == phase \in {"instance", "previous", "dumped", "loaded", "dumped2", "loaded2"}

(* C19 *)
RoundTrip == (phase \in {"loaded", "loaded2"}) => ViewOfLoaded(loaded) = ExpectedView(inst)
(* the second round reproduces the first one exactly (the loaded description is a fixed point) *)
FixedPoint == (phase = "loaded2") => loaded = first
(* no two lines of a section carry the same keyword: otherwise the second one read wins and a value is lost *)
NoKeywordClash == \A l, m \in files.lines : (l.file = m.file /\ l.section = m.section /\ l.key = m.key /\ l.key # "refVar") => l = m
(* variables.conf is written but never needed: everything a component resolves with is in its stage file (M1, M2) *)
StageFilesSelfContained ==
    (phase = "dumped") => LoadOf([files EXCEPT !.lines = {l \in files.lines : l.file # VarFile}]) = LoadOf(files)

(* reachability witnesses (expected to FAIL): the families are not empty and the interesting shapes occur *)
WitnessPairFolded == ~(phase = "loaded" /\ Cardinality(inst.opts) = 2 /\ inst.layer = "component")
WitnessMigration == ~(phase = "loaded" /\ \E x \in inst.vars : x.scope = "global" /\ \E y \in inst.vars : y.scope = "stage1" /\ y.name = x.name)
WitnessLayering == ~(phase = "loaded" /\ \E g, t, c \in inst.vars : /\ g.scope = "global" /\ t.scope = "stage1" /\ c.scope = "comp:c"
                                                                       /\ g.name = t.name /\ t.name = c.name /\ g.val = c.val /\ g.val # t.val)
WitnessFewerStages == ~(phase = "loaded" /\ inst.hasPrev /\ inst.prev.nstages > inst.nstages)
WitnessPrefixNames == ~(phase = "loaded" /\ {e.name : e \in inst.envs} = {"gcc", "gcc-7"})
WitnessManyStages == ~(phase = "loaded" /\ inst.nstages = ManyStages /\ Len(inst.status) = ManyStages)

(* emission for the conformance driver: the case and the expected explicit (non-default) part of the view *)
ExplicitExpected(i, c) == {[comp |-> c.name, path |-> o.path, src |-> o.val.src, a |-> o.val.a, n |-> o.val.n] : o \in {x \in ExplicitOpts(i, c) : x.val.src # "default"}}
CaseRecord(i) ==
    [fam |-> i.fam, kind |-> i.kind, backend |-> i.backend, layer |-> i.layer, inject |-> i.inject,
     opts |-> {a.idx : a \in i.opts},
     vars |-> i.vars, envs |-> i.envs, apps |-> i.apps, venvs |-> i.venvs,
     status |-> i.status, output |-> i.output, comps |-> i.comps, nstages |-> i.nstages,
     expected |-> [comps |-> CompsOf(i),
                   explicit |-> UNION {ExplicitExpected(i, c) : c \in CompsOf(i)},
                   isRepeat |-> {c.name : c \in {d \in CompsOf(i) : IsRepeat(ExplicitOpts(i, d))}},
                   vars |-> UNION {{[comp |-> c.name, name |-> x.name, scope |-> x.val.a, src |-> x.val.src, n |-> x.val.n] : x \in ExpectedVars(i, c)} : c \in CompsOf(i)},
                   envs |-> {EnvLower(e.name) : e \in i.envs}]]
EmitCase ==
    (Emit /\ phase = "loaded") =>
        PrintT(ToJson(IF inst.hasPrev THEN CaseRecord(inst) @@ [previous |-> CaseRecord(inst.prev)] ELSE CaseRecord(inst)))
=============================================================================
