-------------------------- MODULE DataStaging_trace --------------------------
(***************************************************************************)
(* Trace validation for DataStaging.tla (code -> spec).                    *)
(*                                                                         *)
(* harness/checks/g07_traces.py runs seeded random histories on the real   *)
(* code (harness/world_g07.py: a real experiment instance, real Job /      *)
(* ComponentState objects): a random list of 1-3 references over all       *)
(* methods and locations (or a migrated consumer), random initial sources  *)
(* (missing / file / directory / symbolic link), then a stage-in followed  *)
(* by random events: a source is rewritten / removed / created, the task   *)
(* writes into its working directory, a loop gets its next iteration, the  *)
(* experiment is restarted with or                                          *)
(* without restaging, Job.stageIn is called again.  One record is logged   *)
(* per StageReference call / updateInputs / end of a stage-in / event:     *)
(*   [lab: the label the specification gives that step,                    *)
(*    wd, src, inp, wl, st, res, launch: the projection of the real file   *)
(*    system and objects afterwards]                                       *)
(* The traces are read from an ndjson file (one trace a line) in the       *)
(* single initial state.  Every logged record must be a step of Next of    *)
(* DataStaging (the actions are re-used) with that label whose primed      *)
(* variables equal the logged projection; nothing of the state is hidden   *)
(* except the ghosts.  TLC follows all traces in one run and prints the    *)
(* position reached per trace; the promises of DataStaging are evaluated   *)
(* as invariants / action properties along the matched behaviours, i.e. on *)
(* the logged real states.                                                 *)
(***************************************************************************)
EXTENDS DataStaging

CONSTANT TraceFile
VARIABLES all, tid, pos, todo
tvars == <<all, tid, pos, todo>>
allvars == <<vars, tvars>>

Range(s) == {s[i] : i \in DOMAIN s}
EntOf(j) == [k |-> j.k, c |-> j.c, to |-> j.to]
SrcOf(j) == [x \in Locs |-> IF x = "pp" THEN Tree ELSE IF x = "pg" THEN Glob ELSE IF x = "wa" THEN Holder ELSE EntOf(j[x])]
WdOf(j) == {[p |-> e.p, k |-> e.k, c |-> e.c, to |-> e.to] : e \in Range(j)}
RefsOf(j) == [i \in DOMAIN j |-> [m |-> j[i].m, l |-> j[i].l]]
NoSrc == [x \in Locs |-> IF x = "pp" THEN Tree ELSE IF x = "pg" THEN Glob ELSE IF x = "wa" THEN Holder ELSE None]

TraceInit == /\ all = ndJsonDeserialize(TraceFile)
             /\ tid = 0 /\ pos = 0 /\ todo = <<>>
             /\ InitWith(<<>>, FALSE, FALSE, NoSrc)

Start(t) == /\ tid = 0
            /\ tid' = t /\ pos' = 0 /\ todo' = all[t].steps /\ all' = <<>>
            /\ refs' = RefsOf(all[t].refs) /\ rep' = all[t].rep /\ mig' = all[t].mig
            /\ src' = SrcOf(all[t].src0) /\ isrc' = SrcOf(all[t].src0)
            /\ gok' = [v |-> FALSE, wd |-> {}, src |-> SrcOf(all[t].src0), ni |-> 1]
            /\ UNCHANGED <<niter, wd, wdlink, inputs, pc, plan, idx, miss, res, staged, launch, tick, nmut, nwr, nrs, nag, nev, restarted,
                           own, bsame, bwd, wtop, clean, dev, hist>>

Observed(s) == /\ hist'[Len(hist')] = [e |-> s.lab.e, a |-> s.lab.a, b |-> s.lab.b, n |-> s.lab.n]
               /\ wd' = WdOf(s.wd)
               /\ \A x \in Locs \ Virtual : src'[x] = EntOf(s.src[x])
               /\ niter' = s.ni
               /\ inputs' = Range(s.inp)
               /\ wdlink' = s.wl /\ staged' = s.st /\ res' = s.res /\ launch' = s.launch

TStep == /\ tid # 0 /\ todo # <<>>
         /\ Next
         /\ Observed(Head(todo))
         /\ todo' = Tail(todo) /\ pos' = pos + 1
         /\ UNCHANGED <<tid, all>>

TraceNext == (\E t \in DOMAIN all : Start(t)) \/ TStep
TraceSpec == TraceInit /\ [][TraceNext]_allvars

TraceEmit == tid # 0 => PrintT(ToJson([tid |-> tid, pos |-> pos, dev |-> dev]))

(* the action properties of DataStaging over all variables: evaluated on the logged real states *)
TStagingLeavesSources == [][(tid # 0 /\ pc = "staging") => src' = src]_allvars
TSourceChangeInvisible == [][nmut' # nmut => wd' = wd]_allvars
TRefStagesNothing == [][(pc = "staging" /\ idx <= Len(plan) /\ plan[idx].op = "ref" /\ refs[plan[idx].r].m \in {"ref", "loopref", "loopoutput"}) => wd' = wd]_allvars
TUpdChangesNoFile == [][(pc = "staging" /\ idx <= Len(plan) /\ plan[idx].op = "upd") => wd' = wd]_allvars
TRestartKeeps == [][(nrs' # nrs /\ pc' = "idle") => (wd' = wd /\ src' = src /\ launch' = "yes" /\ staged')]_allvars
TOwnOutputsSurvive == [][pc = "staging" => \A e \in wd : e.p \in own => e \in wd']_allvars
=============================================================================
