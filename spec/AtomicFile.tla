------------------------------ MODULE AtomicFile ------------------------------
(***************************************************************************)
(* C14 -- experiment state files are updated atomically and read back      *)
(* faithfully.                                                             *)
(*                                                                         *)
(* The persisted files of a running experiment (output/status.txt,         *)
(* output/output.txt + output.json, output/status_details.json,            *)
(* conf/flowir_instance.yaml, conf/manifest.yaml) are the `Live` paths of  *)
(* a tiny file-system model.  Everything else the updater touches is a     *)
(* `Tmp` path.                                                             *)
(*                                                                         *)
(* Content of a path is abstract: missing, or the bytes of version v       *)
(* either completely ("complete": every intended write happened without    *)
(* error and the file was closed) or not ("partial": anything from the     *)
(* empty, just-truncated file to all-but-flushed).  Versions are numbered  *)
(* by the update that wrote them (0 = what was there before).              *)
(*                                                                         *)
(* PART 1 is the vocabulary of file-system operations an updater may       *)
(* perform, each with its PROTOCOL GUARD:                                  *)
(*     OpenTmp(p)      only on a temp path                                 *)
(*     Write / Close   on an open handle                                   *)
(*     Rename(s, d)    only when s is closed and holds a complete version  *)
(*     Remove(p)       only a temp path (Abort)                            *)
(* plus the environment: every operation may fail (IOError) and the        *)
(* process may die anywhere (Crash).  There is deliberately NO action that *)
(* truncates, writes or removes a live file: a live file only ever changes *)
(* by the atomic Rename of a complete temp file.  Whatever order a client  *)
(* calls these actions in, `Atomic` and `OldOrNew` hold (checked by TLC).  *)
(*                                                                         *)
(* PART 2 names the DEVIATIONS an implementation may exhibit (OpenLive,    *)
(* RenameUnfinished, RemoveLive, MoveLive, AppendLive).  They are not part of `Next`; the trace  *)
(* specification AtomicFile_trace uses them to *explain* what the code did *)
(* so that the verdict is "invariant Atomic is false in recorded state i", *)
(* never "the spec cannot follow".                                         *)
(*                                                                         *)
(* PART 3 is the specified updater (the protocol as a process: OpenTmp,    *)
(* Write x NW, Close, Rename; on an error Abort or leave the temp file)    *)
(* run for a history of updates, each writing a value of some class.       *)
(* `Fidelity`: what a reader gets is the value of the last successful      *)
(* update, whatever the history (classes, failed updates) before it.       *)
(***************************************************************************)
EXTENDS Integers, Sequences, FiniteSets, TLC, Json

CONSTANTS Live,        \* set of persisted paths
          Tmp,         \* set of temp paths (fresh names: uuid4 in the code)
          NW,          \* number of write calls one update performs
          MaxUpd,      \* number of successive updates explored
          Classes,     \* value classes: plain, newline, optionline (a continuation line that looks like `key=value`), leadblank,
                       \* backslash, equals, colon, percent, hash, semicolon, section (`[x]`), nonascii, empty
          Fields,      \* the free-text fields one persisted file carries (error description; key-output name, description,
                       \* type, file name; component arguments, variables ...): every update assigns ONE field (or none)
          FaultOps,    \* subset of {"open","write","close","rename"}: operations the environment may fail
          MaxFaults,   \* bound on the number of injected I/O errors per behaviour
          CrashOn,     \* TRUE: the process may die at any point
          Emit         \* TRUE: print every finished history as JSON (conformance driver)

Paths == Live \cup Tmp

Missing == [k |-> "missing", v |-> 0]
Part(u) == [k |-> "partial", v |-> u]
Full(u) == [k |-> "complete", v |-> u]

VARIABLES fs,       \* [Paths -> content]            what is on disk
          hs,       \* [Paths -> {"none","ok","bad"}] open write handle (bad: an operation on it failed)
          upd,      \* number of the update in progress / last started
          base,     \* fs at the beginning of the current update (the "previous version")
          crashed,
          \* ---- the specified updater (part 3)
          pc,       \* idle / open / write / failclose / rename / abort
          nw,       \* write calls issued in the current update
          target,   \* the live file the current update publishes
          tmp,      \* its temp file
          cls,      \* [Fields -> class] what is being written
          mem,      \* [Live -> [Fields -> class]] classes of the owner's in-memory values ("unset" before the first assignment)
          kept,     \* the current update re-persists an unchanged value
          fld, setc,\* the field assigned before the current update and the class assigned ("keep": none)
          fk,       \* kind of the I/O error injected into the current update ("none")
          hist,     \* finished updates: <<[t, c, keep, f, ok]>>
          vals,     \* [update number -> class written]
          nflt      \* I/O errors injected so far
fsvars == <<fs, hs, upd, base, crashed>>
upvars == <<pc, nw, target, tmp, cls, mem, kept, fld, setc, fk, hist, vals, nflt>>
vars == <<fs, hs, upd, base, crashed, pc, nw, target, tmp, cls, mem, kept, fld, setc, fk, hist, vals, nflt>>

---------------------------------------------------------------------------
(* PART 1: file-system operations with their protocol guards.  They constrain fs' and hs' only. *)

CanOpenTmp(p) == p \in Tmp
OpenTmp(p) == /\ CanOpenTmp(p)
              /\ fs' = [fs EXCEPT ![p] = Part(upd)]          \* created / truncated
              /\ hs' = [hs EXCEPT ![p] = "ok"]

CanWrite(p) == hs[p] # "none"
(* (a handle in state "app" was opened for appending and has not written yet: the content is still what it was) *)
Write(p) == /\ CanWrite(p)                                   \* still partial: more may follow
            /\ IF hs[p] = "app" THEN fs' = [fs EXCEPT ![p] = Part(upd)] /\ hs' = [hs EXCEPT ![p] = "ok"]
               ELSE UNCHANGED <<fs, hs>>
WriteFail(p) == /\ CanWrite(p) /\ hs' = [hs EXCEPT ![p] = "bad"]                    \* short write
                /\ fs' = IF hs[p] = "app" THEN [fs EXCEPT ![p] = Part(upd)] ELSE fs

(* done: the writer has issued every write it intended (it was not interrupted by an exception) *)
Close(p, done) == /\ CanWrite(p)
                  /\ fs' = IF hs[p] = "app" THEN fs
                           ELSE [fs EXCEPT ![p] = IF done /\ hs[p] = "ok" THEN Full(fs[p].v) ELSE Part(fs[p].v)]
                  /\ hs' = [hs EXCEPT ![p] = "none"]
CloseFail(p) == /\ CanWrite(p)                               \* buffered data lost
                /\ fs' = IF hs[p] = "app" THEN fs ELSE [fs EXCEPT ![p] = Part(fs[p].v)]
                /\ hs' = [hs EXCEPT ![p] = "none"]

CanRename(s, d) == s \in Tmp /\ d \in Live /\ hs[s] = "none" /\ fs[s].k = "complete"
Rename(s, d) == /\ CanRename(s, d)
                /\ fs' = [fs EXCEPT ![d] = fs[s], ![s] = Missing]      \* atomic replace
                /\ UNCHANGED hs

CanMoveTmp(s, d) == s \in Tmp /\ d \in Tmp /\ fs[s].k # "missing"
MoveTmp(s, d) == CanMoveTmp(s, d) /\ fs' = [fs EXCEPT ![d] = fs[s], ![s] = Missing] /\ UNCHANGED hs

CanRemove(p) == p \in Tmp /\ fs[p].k # "missing"
Remove(p) == CanRemove(p) /\ fs' = [fs EXCEPT ![p] = Missing] /\ UNCHANGED hs

(* an operation that fails without touching the disk: open, rename, remove *)
NoEffect == UNCHANGED <<fs, hs>>

(* the process dies: handles vanish, the disk stays as it is *)
Die == /\ ~crashed
       /\ crashed' = TRUE
       /\ hs' = [p \in Paths |-> "none"]
       /\ UNCHANGED <<fs, upd, base>>

BeginUpdate == /\ upd' = upd + 1
               /\ base' = fs
               /\ UNCHANGED <<fs, hs, crashed>>

---------------------------------------------------------------------------
(* PART 2: deviations (never enabled in the specified protocol; used by AtomicFile_trace) *)

CanOpenLive(p) == p \in Live
OpenLive(p) == /\ CanOpenLive(p)                       \* open(live, 'w'): the live file is truncated in place
               /\ fs' = [fs EXCEPT ![p] = Part(upd)]
               /\ hs' = [hs EXCEPT ![p] = "ok"]

CanRenameUnfinished(s, d) == s \in Tmp /\ d \in Live /\ fs[s].k # "missing" /\ ~CanRename(s, d)
RenameUnfinished(s, d) == /\ CanRenameUnfinished(s, d)  \* rename of a temp file that is still open or whose write failed
                          /\ fs' = [fs EXCEPT ![d] = Part(fs[s].v), ![s] = Missing]
                          /\ hs' = [hs EXCEPT ![d] = hs[s], ![s] = "none"]

CanAppendLive(p) == p \in Live
AppendLive(p) == /\ CanAppendLive(p)                   \* open(live, 'a'): an existing file keeps its content until something is
                 /\ fs' = [fs EXCEPT ![p] = IF @.k = "missing" THEN Part(upd) ELSE @]     \* written, a MISSING one is created empty:
                 /\ hs' = [hs EXCEPT ![p] = "app"]                                       \* published before the new version exists

CanRemoveLive(p) == p \in Live /\ fs[p].k # "missing"
RemoveLive(p) == CanRemoveLive(p) /\ fs' = [fs EXCEPT ![p] = Missing] /\ UNCHANGED hs

CanMoveLive(s, d) == s \in Live /\ fs[s].k # "missing"
MoveLive(s, d) == /\ CanMoveLive(s, d)                 \* a live file is renamed away (onto itself: nothing happens)
                  /\ fs' = IF s = d THEN fs ELSE [fs EXCEPT ![d] = fs[s], ![s] = Missing]
                  /\ UNCHANGED hs

---------------------------------------------------------------------------
(* The properties of C14 over the file-system state *)

(* a live file is never observed half-written, and never disappears *)
AtomicP(f, b) == \A p \in Live : /\ f[p].k # "partial"
                                 /\ (f[p].k = "missing" => b[p].k = "missing")
Atomic == AtomicP(fs, base)

(* ... and it is the previous version or the new one *)
OldOrNewP(f, b, u) == \A p \in Live : f[p] = b[p] \/ f[p] = Full(u)
OldOrNew == OldOrNewP(fs, base, upd)

(* a live file changes only by becoming the complete new version (action property) *)
CommitIsAtomic == [][\A p \in Live : fs'[p] # fs[p] => (fs'[p] = Full(upd') /\ upd' = upd)]_vars

---------------------------------------------------------------------------
(* PART 3: the specified updater *)

All(x) == [g \in Fields |-> x]          \* the same class / marker in every field

FreshTmp == CHOOSE p \in Tmp : fs[p].k = "missing"          \* a fresh name (uuid4 in the code)

Finish(ok) == /\ hist' = Append(hist, [t |-> target, fld |-> fld, set |-> setc, c |-> cls, keep |-> kept, f |-> fk, ok |-> ok])
              /\ pc' = "idle"

(* An update persists the in-memory values of the file's owner.  Before it, the owner either assigns a value of   *)
(* class c to one free-text field g, or keeps what it has (c = "keep": the periodic re-write of an unchanged       *)
(* status).  mem[t] = [field -> class of its in-memory value] ("unset" before the first assignment).               *)
KeepField == CHOOSE g \in Fields : TRUE
Begin(c, g, t) == /\ pc = "idle" /\ ~crashed /\ upd < MaxUpd
               /\ (c = "keep" => g = KeepField)                 \* keeping is not about a field: one representative
               /\ \E p \in Tmp : fs[p].k = "missing"
               /\ BeginUpdate
               /\ mem' = [mem EXCEPT ![t][g] = IF c = "keep" THEN @ ELSE c]
               /\ cls' = mem'[t] /\ kept' = (c = "keep") /\ fld' = g /\ setc' = c
               /\ target' = t /\ tmp' = FreshTmp /\ nw' = 0 /\ fk' = "none"
               /\ vals' = [vals EXCEPT ![upd + 1] = mem'[t]]
               /\ pc' = "open"
               /\ UNCHANGED <<hist, nflt>>

Keep == UNCHANGED <<upd, base, crashed, target, tmp, cls, mem, kept, fld, setc, vals>>

UOpen == /\ pc = "open" /\ ~crashed /\ OpenTmp(tmp)
         /\ pc' = "write" /\ Keep /\ UNCHANGED <<nw, fk, hist, nflt>>
UWrite == /\ pc = "write" /\ ~crashed /\ nw < NW /\ Write(tmp)
          /\ nw' = nw + 1 /\ Keep /\ UNCHANGED <<pc, fk, hist, nflt>>
UClose == /\ pc = "write" /\ ~crashed /\ nw = NW /\ Close(tmp, TRUE)
          /\ pc' = "rename" /\ Keep /\ UNCHANGED <<nw, fk, hist, nflt>>
URename == /\ pc = "rename" /\ ~crashed /\ Rename(tmp, target)
           /\ Finish(TRUE) /\ Keep /\ UNCHANGED <<nw, fk, nflt>>

MayFail(op) == ~crashed /\ op \in FaultOps /\ nflt < MaxFaults
UOpenFail == /\ pc = "open" /\ MayFail("open") /\ NoEffect
             /\ fk' = "open" /\ nflt' = nflt + 1
             /\ hist' = Append(hist, [t |-> target, fld |-> fld, set |-> setc, c |-> cls, keep |-> kept, f |-> "open", ok |-> FALSE])
             /\ pc' = "idle"
             /\ Keep /\ UNCHANGED nw
UWriteFail == /\ pc = "write" /\ nw < NW /\ MayFail("write") /\ WriteFail(tmp)
              /\ fk' = "write" /\ nflt' = nflt + 1 /\ pc' = "failclose"
              /\ Keep /\ UNCHANGED <<nw, hist>>
UCloseAfterFail == /\ pc = "failclose" /\ ~crashed /\ Close(tmp, FALSE)          \* leaving the `with` block
                   /\ pc' = "abort" /\ Keep /\ UNCHANGED <<nw, fk, hist, nflt>>
UCloseFail == /\ pc = "write" /\ nw = NW /\ MayFail("close") /\ CloseFail(tmp)
              /\ fk' = "close" /\ nflt' = nflt + 1 /\ pc' = "abort"
              /\ Keep /\ UNCHANGED <<nw, hist>>
URenameFail == /\ pc = "rename" /\ MayFail("rename") /\ NoEffect
               /\ fk' = "rename" /\ nflt' = nflt + 1 /\ pc' = "abort"
               /\ Keep /\ UNCHANGED <<nw, hist>>
(* after an error the update is abandoned: the temp file is removed, or simply left behind *)
UAbort == /\ pc = "abort" /\ ~crashed /\ Remove(tmp)
          /\ Finish(FALSE) /\ Keep /\ UNCHANGED <<nw, fk, nflt>>
ULeave == /\ pc = "abort" /\ ~crashed /\ NoEffect
          /\ Finish(FALSE) /\ Keep /\ UNCHANGED <<nw, fk, nflt>>

Crash == CrashOn /\ Die /\ UNCHANGED upvars

Init == /\ fs \in [Paths -> {Missing, Full(0)}]
        /\ \A p \in Tmp : fs[p] = Missing
        /\ hs = [p \in Paths |-> "none"]
        /\ upd = 0 /\ base = fs /\ crashed = FALSE
        /\ pc = "idle" /\ nw = 0 /\ target = (CHOOSE x \in Live : TRUE) /\ tmp = (CHOOSE x \in Tmp : TRUE)
        /\ cls = All("initial") /\ mem = [p \in Live |-> All("unset")] /\ kept = FALSE /\ fld = KeepField /\ setc = "keep"
        /\ fk = "none" /\ hist = <<>> /\ nflt = 0
        /\ vals = [u \in 0..MaxUpd |-> All("initial")]

Next == \/ \E c \in Classes \cup {"keep"}, g \in Fields, t \in Live : Begin(c, g, t)
        \/ UOpen \/ UWrite \/ UClose \/ URename
        \/ UOpenFail \/ UWriteFail \/ UCloseAfterFail \/ UCloseFail \/ URenameFail
        \/ UAbort \/ ULeave
        \/ Crash

Spec == Init /\ [][Next]_vars

(* Witness that the invariants can fail: an updater that may also take the deviations of part 2.  Never part of  *)
(* the specification; the driver checks that TLC reports a violation of Atomic for it.                          *)
DeviantNext == \/ Next
               \/ /\ ~crashed /\ pc # "idle" /\ UNCHANGED <<upd, base, crashed, upvars>>
                  /\ \/ \E p \in Live : OpenLive(p) \/ RemoveLive(p)
                     \/ \E s \in Tmp, d \in Live : RenameUnfinished(s, d)

---------------------------------------------------------------------------
(* Fidelity *)

(* what a reader of p gets *)
Read(p) == CASE fs[p].k = "missing" -> All("absent")
             [] fs[p].k = "complete" -> vals[fs[p].v]
             [] OTHER -> All("garbage")

(* what the history says it must be: field by field the class persisted by the last successful update of p *)
RECURSIVE LastOk(_, _, _)
LastOk(h, p, dflt) == IF h = <<>> THEN dflt
                      ELSE IF h[Len(h)].t = p /\ h[Len(h)].ok THEN h[Len(h)].c
                      ELSE LastOk(SubSeq(h, 1, Len(h) - 1), p, dflt)
Initial(p) == IF base[p].k = "missing" /\ \A i \in 1..Len(hist) : ~(hist[i].t = p /\ hist[i].ok) THEN All("absent") ELSE All("initial")

Fidelity == (pc = "idle") => \A p \in Live : Read(p) = LastOk(hist, p, Initial(p))

(* a fault-free update always publishes the new version *)
CleanUpdateCommits == (pc = "idle" /\ hist # <<>> /\ hist[Len(hist)].f = "none") => hist[Len(hist)].ok
(* ... so when a fault-free update returns the file holds the owner's latest values -- whatever happened before it, in     *)
(* particular a FAILED update of the same values (ok ; change ; failed update ; fault-free update of the unchanged state)  *)
LatestAfterCleanUpdate == (pc = "idle" /\ hist # <<>> /\ hist[Len(hist)].f = "none") =>
                             Read(hist[Len(hist)].t) = mem[hist[Len(hist)].t]

TypeOK == /\ \A p \in Paths : fs[p].k \in {"missing", "partial", "complete"} /\ fs[p].v \in 0..MaxUpd
          /\ \A p \in Paths : hs[p] \in {"none", "ok", "bad", "app"}
          /\ upd \in 0..MaxUpd /\ crashed \in BOOLEAN /\ nw \in 0..NW
          /\ pc \in {"idle", "open", "write", "failclose", "rename", "abort"}

(* emission of the finished histories for the conformance driver *)
EmitHist == (Emit /\ pc = "idle" /\ ~crashed /\ hist # <<>>) =>
              PrintT(ToJson([hist |-> hist, read |-> [p \in Live |-> Read(p)]]))
=============================================================================
